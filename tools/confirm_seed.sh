#!/bin/bash
# confirm_seed.sh <src dir with patch.diff demo.py meta.json> <dest id e.g. C15-m1> <pytest paths...>
# Confirms in a scratch worktree of /repo HEAD: demo passes clean, fails patched, tests pass patched. Copies to /verif/seeded/<dest>.
SRC=$1; DEST=$2; shift 2; TESTS="$@"
WT=/tmp/wt_confirm_$DEST
git -C /repo worktree add -f $WT HEAD -q 2>/dev/null || { git -C $WT checkout -q --detach $(git -C /repo rev-parse HEAD); git -C $WT checkout -- .; }
cd $WT
clean=$(PYTHONPATH=$WT timeout 600 /venv/bin/python $SRC/demo.py >/tmp/confirm_${DEST}_clean.log 2>&1; echo $?)
if ! git apply $SRC/patch.diff 2>/tmp/confirm_${DEST}_apply.log; then echo "$DEST: PATCH-DOES-NOT-APPLY"; git -C /repo worktree remove --force $WT; exit 1; fi
patched=$(PYTHONPATH=$WT timeout 600 /venv/bin/python $SRC/demo.py >/tmp/confirm_${DEST}_patched.log 2>&1; echo $?)
PYTHONPATH=$WT timeout 3000 /venv/bin/python -m pytest -q -p no:cacheprovider -x $TESTS >/tmp/confirm_${DEST}_tests.log 2>&1; tests=$?
summary=$(tail -1 /tmp/confirm_${DEST}_tests.log)
echo "$DEST: demo_clean_exit=$clean demo_patched_exit=$patched tests_exit=$tests ($summary)"
if [ "$clean" = 0 ] && [ "$patched" != 0 ] && [ "$tests" = 0 ]; then
  mkdir -p /verif/seeded/$DEST && cp $SRC/patch.diff $SRC/demo.py /verif/seeded/$DEST/
  /venv/bin/python - "$SRC/meta.json" "/verif/seeded/$DEST/meta.json" "$TESTS" "$summary" "$(git -C /repo rev-parse --short HEAD)" <<'PY'
import json,sys
m=json.load(open(sys.argv[1]))
m["confirmed"]={"base_commit":sys.argv[5],"demo_clean":"exit 0","demo_patched":"exit != 0","pytest":sys.argv[3],"pytest_result":sys.argv[4]}
json.dump(m,open(sys.argv[2],"w"),indent=1)
PY
  echo "$DEST: KEPT"
else
  echo "$DEST: DISCARDED"
fi
git -C $WT checkout -- . ; git -C /repo worktree remove --force $WT
