#!/bin/bash
# confirm_all.sh <ID> <tests...> : confirms /tmp/seed_<ID>_out/m* sequentially
ID=$1; shift
for d in /tmp/seed_${ID}_out/m*; do
  n=$(basename $d)
  [ -d /verif/seeded/$ID-$n ] && continue
  /verif/tools/confirm_seed.sh $d $ID-$n "$@"
done
