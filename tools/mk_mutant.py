#!/venv/bin/python
"""mk_mutant.py <ID> <name> <file> <old> <new>  - writes /verif/mutants/<ID>/<name>.patch (diff against /repo HEAD)."""
import os, subprocess, sys
pid, name, path, old, new = sys.argv[1:6]
wt = "/tmp/wt_mk"
if not os.path.isdir(wt):
    subprocess.check_call(["git", "-C", "/repo", "worktree", "add", "-f", wt, "HEAD", "-q"])
subprocess.check_call(["git", "-C", wt, "checkout", "-q", "--detach", subprocess.check_output(["git", "-C", "/repo", "rev-parse", "HEAD"]).decode().strip()])
subprocess.check_call(["git", "-C", wt, "checkout", "--", "."])
f = os.path.join(wt, path)
s = open(f).read()
old = old.encode().decode("unicode_escape"); new = new.encode().decode("unicode_escape")
assert s.count(old) == 1, f"pattern occurs {s.count(old)} times"
open(f, "w").write(s.replace(old, new))
d = subprocess.check_output(["git", "-C", wt, "diff"]).decode()
os.makedirs(f"/verif/mutants/{pid}", exist_ok=True)
open(f"/verif/mutants/{pid}/{name}.patch", "w").write(d)
subprocess.check_call(["git", "-C", wt, "checkout", "--", "."])
print(f"/verif/mutants/{pid}/{name}.patch", len(d.splitlines()), "lines")
