#!/venv/bin/python
"""Generates /verif/MANIFEST.json from the table below (kept next to the checks)."""
import json
import os

VERIF = os.path.dirname(os.path.dirname(os.path.abspath(__file__)))

CHECKS = {
    "C01": dict(
        technique="explicit-state BFS to closure over operation histories on the real Model, per generated graph program; reference evaluator + staleness monitor as oracle",
        text="Every history (any length) over {assign, auto-update toggle, update(), update(targets), save, restore, set_seed} is covered per program because the search runs to closure of the canonical state space; programs are all G-cache graphs up to the tier's size. The oracle (from-scratch evaluator, dirty-bit monitor, call counters) runs on every transition of the real object.",
        note="Assumes pure node functions; values over a 2-letter input alphabet (interned, injective); restore pairs are strided over current states when a program has more than 48 reachable states (reported as a cap).",
        ref="3/C01",
    ),
    "C05": dict(
        technique="exhaustive product over small input alphabets on the real mh_step and kernels, uniform draw owned by a scripted PRNG seam plus a real key whose draw is exactly 0.0; plain-Python MH rule as oracle",
        text="Full product of current/proposed log-density (finite, underflowing, +-inf, NaN), log-correction (finite, +-inf, NaN) and uniform draw {0, 2^-24, 0.3, 1-2^-24} on the real mh_step with a log-density-carrying DictInterface, eager (scripted uniform), jit and jit(vmap) (draw as traced argument), plus the un-patched real key PRNGKey(14620119) whose draw is exactly 0.0. The same product runs through MHKernel.transition (both branches); lattices on a Liesel model with a hard support boundary and on RW/IWLS kernels over a target with -inf and NaN regions. Oracle: the stated rule, leaf-by-leaf bit equality of the returned state with the input or update_state(proposal, state), moved flag = what happened.",
        note="Alphabet values are float32-exact; interior alpha tolerance 5e-6/5e-5, everything else exact; decision judged against the reported alpha; u == alpha in (0,1) may go either way. update_state and jit/vmap semantics trusted.",
        ref="3/C05",
    ),
    "C12": dict(
        technique="exhaustive product of key permutations x shapes x diag/dense x history layouts on kernel.tune(), plus a product of real Engine runs; numpy float64 reference in ravel_pytree order",
        text="kernel.tune() of NUTS and HMC is executed for every permutation of 2-3 position keys, leaf shape assignment, diagonal/dense mode, history-dict layout (listed, sorted, reversed, with a foreign key) and SLOW/FAST epoch on synthetic histories with pairwise distinct variances and non-zero covariances; real Engine runs (store_kernel_states) cover key orders x kernels x diag/dense x co-kernel (none, RW without history, second HMC) x slow epochs (one, two identical, two different) x warm-up thinning. After every slow epoch the stored inverse mass matrix must equal the regularised variance/covariance of that epoch's stored history of the kernel's own keys in ravel_pytree order.",
        note="jax.flatten_util.ravel_pytree defines 'flat coordinate i'; tolerance 1e-4 + 2e-4|ref|; quick runs a covering subset of the engine product (thorough: full product, 288 engines).",
        ref="3/C12",
    ),
    "C15": dict(
        technique="exhaustive enumeration of graph programs x build variants x round-trip operation sequences (depth-bounded) on real models with a never-round-tripped twin as differential oracle; enumerated invalid graphs",
        text="For every G-cache program (<=3 items quick, <=4 thorough, plus extras with groups, seeded and unnamed nodes) the model is built in six ways (all objects, sinks only, reversed, twice, copy=True, Model(grow=True), repeated copy build) and checked for completeness, unique names, outputs = inverse of inputs, reference edges and topological evaluation order; 17 invalid graphs (duplicate names, reserved names, node cycles, simulation cycles, shared nodes) must be rejected without harming an existing model. All operation sequences up to the tier's depth over {assign, auto-update off, pop+rebuild, copy+rebuild, deepcopy, save/load, every structural mutator on every node/var, set_seed} run on the real model next to a twin that never round-trips; states must agree after every step, copied-from originals must stay untouched and share no objects, every mutator must raise and change nothing.",
        note="Depth 3 (quick: 2 for 3-item programs); values content-based so they compare across copies; group membership/role/info are not counted as structure. One open finding (seed nodes reset to the default key by pop/copy + rebuild) is listed in known_findings.txt with its exact history.",
        ref="3/C15",
    ),
    "C16": dict(
        technique="exhaustive product enumeration of schedules / argument tuples / append-next words on the real EpochManager, stan_epochs and EngineBuilder; plain-Python validity predicate and closed-form window arithmetic as oracle",
        text="Every sequence of epoch configs over types x durations 0..4 x thinnings 0..3 (length <=3 complete, length 4 with the valid initial epoch first; thorough: wider domain, length 5) is given to the real EpochManager through the constructor and through incremental append (rejected appends kept in the history) and compared with the validity predicate; every accepted manager and every {append, next} interleaving of every valid schedule is checked against consecutive indices and prefix-sum start times. stan_epochs runs on the full product of its argument grid (6.6M tuples quick) against the documented raise conditions and the closed-form fast / doubling-slow / fast / posterior pattern. EngineBuilder chunk length is checked on ~8k builds, a few engines sampled to the end.",
        note="Empty schedule and base_duration <= 0 (non-terminating) are outside the admissible domain; 'divides every duration' means every epoch after the initial one; a chunk that divides but is not the gcd is not a violation.",
        ref="3/C16",
    ),
    "C17": dict(
        technique="exhaustive product of hierarchy structures x skip sets x naming styles x auto-update x stale/fresh state x shapes x seeds on the real Model.simulate; Deterministic children make 'which ancestor value was seen' an exact equality",
        text="Chains of depth 2 and 3 (and a diamond) where each edge is one of six ways a child can depend on its parent (direct, cached Calc, TransientCalc, weak Var, two chained Calcs, keyword input), value shapes ()/(3,)/(2,3) with scalar and vector parents, every subset of variables skipped (named by variable, dist node or value proxy), auto-update on/off, model fresh or stale beforehand, several seeds. Oracle per execution: recording distributions give the parameters each draw was initialised with, which must equal the reference evaluation at the NEW ancestor values; shapes preserved; skipped variables bit-identical; same seed => same result in a fresh model and under both auto-update settings; after update() the model is coherent (no outdated node, calcs = f(inputs), log_prob recomputed).",
        note="TFP's Normal/Deterministic samplers trusted; link functions exact in float32; distribution nodes without a variable are never simulated (documented) and are outside the space.",
        ref="3/C17",
    ),
}

PENDING_REASON = "check not built yet in this session (design in DESIGN.md section 3); not claimed until it exists and has caught a seeded defect"


def main():
    props = [json.loads(l) for l in open(os.path.join(VERIF, "properties.jsonl"))]
    checks = []
    na = []
    for p in props:
        pid = p["id"]
        c = CHECKS.get(pid)
        if c is None:
            na.append({"property_id": pid, "reason": PENDING_REASON})
            continue
        checks.append(
            {
                "property_id": pid,
                "quick_cmd": f"./check {pid} --tier quick",
                "thorough_cmd": f"./check {pid} --tier thorough",
                "evidence_file": f"/verif/evidence/{pid}.json",
                "replay_cmd_template": f"./check {pid} --replay {{path}}",
                "engine": "mc",
                "level_claimed": {"category": "model_checking", "text": c["text"], "design_ref": c["ref"]},
                "level_note": c["note"],
                "technique": c["technique"],
            }
        )
    man = {
        "version": 1,
        "setup_cmd": "mkdir -p /verif/evidence /verif/replays && /venv/bin/python -c 'import jax, liesel, blackjax, jsonschema'",
        "hooks": {
            "guard": "LIESEL_VERIF",
            "enable": "no source hooks are needed: all seams (PRNG, model interface, kernels, optimiser, distributions) are harness-side objects passed through liesel's public API; checks import liesel from /repo's working tree (VERIF_REPO overrides)",
            "baseline_off_cmd": "cd /repo && /venv/bin/python -m pytest -ra -q -p no:cacheprovider --timeout=900 --continue-on-collection-errors",
            "source_commits": [],
            "add_only": True,
        },
        "engines": [
            {
                "name": "mc",
                "path": "/verif/mc",
                "serves_properties": [c["property_id"] for c in checks],
                "kind_free_text": "hand-written explicit-state / stateless explorer in Python that drives the real liesel objects (closure BFS over operation histories, deviation-bounded enumeration of environment answers, exhaustive products over configuration lattices) with plain-Python reference models as oracles",
            }
        ],
        "checks": checks,
        "not_applicable": na,
        "notes": "All checks: exit 0 = held on everything explored, exit 1 + 'VIOLATION property=<id> replay=<path>' lines, exit 2 = harness error (no verdict). known_findings.txt lists open findings (none suppresses a different violation) and 'fixed:' entries (which suppress nothing).",
    }
    with open(os.path.join(VERIF, "MANIFEST.json"), "w") as fh:
        json.dump(man, fh, indent=1)
        fh.write("\n")
    try:
        import jsonschema

        jsonschema.validate(man, json.load(open("/root/.vp/MANIFEST.schema.json")))
        print("MANIFEST.json valid;", len(checks), "checks,", len(na), "not claimed")
    except ImportError:
        print("written (jsonschema not available)")


if __name__ == "__main__":
    main()
