#!/venv/bin/python
"""Generates /verif/MANIFEST.json from the table below (kept next to the checks)."""
import json
import os

VERIF = os.path.dirname(os.path.dirname(os.path.abspath(__file__)))

CHECKS = {
    "C01": dict(
        technique="explicit-state BFS to closure over operation histories on the real Model, per generated graph program; reference evaluator + staleness monitor as oracle",
        text="Every history (any length) over {assign, auto-update toggle, update(), update(targets), save, restore, set_seed} is covered per program because the search runs to closure of the canonical state space; programs are all G-cache graphs up to the tier's size. The oracle (from-scratch evaluator, dirty-bit monitor, call counters) runs on every transition of the real object. Node.clear_state() is part of the operation alphabet for the extra programs.",
        note="Assumes pure node functions; values over a 2-letter input alphabet (interned, injective); restore pairs are strided over current states when a program has more than 48 reachable states (reported as a cap).",
        ref="3/C01",
    ),
    "C05": dict(
        technique="exhaustive product over small input alphabets on the real mh_step and kernels, uniform draw owned by a scripted PRNG seam plus a real key whose draw is exactly 0.0; plain-Python MH rule as oracle",
        text="Full product of current/proposed log-density (finite, underflowing, +-inf, NaN), log-correction (finite, +-inf, NaN) and uniform draw {0, 2^-24, 0.3, 1-2^-24} on the real mh_step with a log-density-carrying DictInterface, eager (scripted uniform), jit and jit(vmap) (draw as traced argument), plus the un-patched real key PRNGKey(14620119) whose draw is exactly 0.0. The same product runs through MHKernel.transition (both branches); lattices on a Liesel model with a hard support boundary and on RW/IWLS kernels over a target with -inf and NaN regions; IWLS on a double-well target whose information is indefinite at scripted proposals (undefined ratio -> code 90, alpha 0, not moved); the accept draw must not share its PRNG key with another draw of the transition. Oracle: the stated rule, leaf-by-leaf bit equality of the returned state with the input or update_state(proposal, state), moved flag = what happened.",
        note="Alphabet values are float32-exact; interior alpha tolerance 5e-6/5e-5, everything else exact; decision judged against the reported alpha; u == alpha in (0,1) may go either way. update_state and jit/vmap semantics trusted.",
        ref="3/C05",
    ),
    "C12": dict(
        technique="exhaustive product of key permutations x shapes x diag/dense x history layouts on kernel.tune(), plus a product of real Engine runs; numpy float64 reference in ravel_pytree order",
        text="kernel.tune() of NUTS and HMC is executed for every permutation of 2-3 position keys, leaf shape assignment, diagonal/dense mode, history-dict layout (listed, sorted, reversed, with a foreign key) and SLOW/FAST epoch on synthetic histories with pairwise distinct variances and non-zero covariances (also far from zero relative to their spread); real Engine runs (store_kernel_states) cover key orders x kernels x diag/dense x co-kernel (none, RW without history, second HMC) x slow epochs (one, two identical, two different) x warm-up thinning. After every slow epoch the stored inverse mass matrix must equal the regularised variance/covariance of that epoch's stored history of the kernel's own keys in ravel_pytree order. Added after round 3: single-key kernels, histories with non-finite foreign entries, the identical EpochConfig object used for two consecutive slow epochs; the recorded epochs and per-epoch lengths must equal the requested schedule before the per-epoch oracle runs.",
        note="jax.flatten_util.ravel_pytree defines 'flat coordinate i'; tolerance 1e-4 + 2e-4|ref|; quick runs a covering subset of the engine product (thorough: full product, 288 engines).",
        ref="3/C12",
    ),
    "C15": dict(
        technique="exhaustive enumeration of graph programs x build variants x round-trip operation sequences (depth-bounded) on real models with a never-round-tripped twin as differential oracle; enumerated invalid graphs",
        text="For every G-cache program (<=3 items quick, <=4 thorough, plus extras with groups, seeded and unnamed nodes) the model is built in six ways (all objects, sinks only, reversed, twice, copy=True, Model(grow=True), repeated copy build) and checked for completeness, unique names, outputs = inverse of inputs, reference edges and topological evaluation order; 17 invalid graphs (duplicate names, reserved names, node cycles, simulation cycles, shared nodes) must be rejected without harming an existing model. All operation sequences up to the tier's depth over {assign, auto-update off, pop+rebuild, copy+rebuild, deepcopy, save/load, every structural mutator on every node/var, set_seed} run on the real model next to a twin that never round-trips; states must agree after every step, copied-from originals must stay untouched and share no objects, every mutator must raise and change nothing. Added after round 3: node-set equality after every round trip, evaluation-order oracle for update(target) of every node, names containing '_model', keyword paths between variables.",
        note="Depth 3 (quick: 2 for 3-item programs); values content-based so they compare across copies; group membership/role/info are not counted as structure.",
        ref="3/C15",
    ),
    "C16": dict(
        technique="exhaustive product enumeration of schedules / argument tuples / append-next words on the real EpochManager, stan_epochs and EngineBuilder; plain-Python validity predicate and closed-form window arithmetic as oracle",
        text="Every sequence of epoch configs over types x durations 0..4 x thinnings 0..3 (length <=3 complete, length 4 with the valid initial epoch first; thorough: wider domain, length 5) is given to the real EpochManager through the constructor and through incremental append (rejected appends kept in the history) and compared with the validity predicate; every accepted manager and every {append, next} interleaving of every valid schedule is checked against consecutive indices and prefix-sum start times. stan_epochs runs on the full product of its argument grid (6.6M tuples quick) against the documented raise conditions and the closed-form fast / doubling-slow / fast / posterior pattern. EngineBuilder chunk length is checked on ~8k builds, a few engines sampled to the end. Added after round 3: after every {append, next} word every config that would make the schedule invalid is offered and must be refused; builder schedules / set_duration calls whose warm-up thinning does not divide the durations; a history unit with every word <=4 (thorough 5) over {stan_epochs call with one of three argument tuples, in-place mutation of the last returned list}.",
        note="Empty schedule and base_duration <= 0 (non-terminating) are outside the admissible domain; 'divides every duration' means every epoch after the initial one; a chunk that divides but is not the gcd is not a violation.",
        ref="3/C16",
    ),
    "C17": dict(
        technique="exhaustive product of hierarchy structures x skip sets x naming styles x auto-update x stale/fresh state x shapes x seeds on the real Model.simulate; Deterministic children make 'which ancestor value was seen' an exact equality",
        text="Chains of depth 2 and 3 (and a diamond) where each edge is one of six ways a child can depend on its parent (direct, cached Calc, TransientCalc, weak Var, two chained Calcs, keyword input), value shapes ()/(3,)/(2,3) with scalar and vector parents, every subset of variables skipped (named by variable, dist node or value proxy), auto-update on/off, model fresh or stale beforehand, several seeds. Oracle per execution: recording distributions give the parameters each draw was initialised with, which must equal the reference evaluation at the NEW ancestor values; shapes preserved; skipped variables bit-identical; same seed => same result in a fresh model and under both auto-update settings; after update() the model is coherent (no outdated node, calcs = f(inputs), log_prob recomputed). Added after round 3: the identical construction code run 6 times in one process (plus a deep copy) with 3 and 6 independent parameters under a common child: all copies simulated with the same seed / skip set end with identical values.",
        note="TFP's Normal/Deterministic samplers trusted; link functions exact in float32; distribution nodes without a variable are never simulated (documented) and are outside the space.",
        ref="3/C17",
    ),
    "C02": dict(
        technique="exhaustive program-grammar product x Eulerian lattice walk on the real Model; spec-level float64 scipy density evaluator as oracle",
        text="For each of 5543 (thorough 16487) generated model programs (16 hierarchy skeletons of depth <=3, two of them with a shared cached intermediate feeding two distributions with <=4 distributed variables x every flag combination {observed, parameter, neither, both} x per_obs subsets; Dist nodes without a variable, weak variables with distributions, flagged variables without one; transformed variables via 7 entry points x 3 families; user nodes for every non-empty subset of the three totals; 15 DistRegBuilder models; distributions from TFP's numpy substrate alone and mixed with jax-substrate ones) the valuation lattice of the strong variables is walked by single assignments on one live model (Euler circuit over 3 values per variable for canonical programs), in three walk modes: auto-update, manual update(), and auto-update off + targeted update(_model_log_prob|lik|prior) followed by update(), and afterwards a save/restore segment (Model.state taken while nodes are pending, walk continued, snapshot loaded, update(), everything compared). User nodes include non-scalar ones (forwarded with their shape); assignments cycle through new jax array, new numpy array, and in-place edit of the stored numpy array re-assigned as the same object. After every transition the three totals, every Dist node, every Var.log_prob, the lik+prior identity and per_obs invariance are compared with a float64 scipy evaluator.",
        note="Nothing is claimed between lattice points; tolerance 4e-6*sum|terms| + 4e-6 against observed noise 3e-7; scipy densities, numpy eigvalsh and closed-form Jacobians of Exp/Softplus/Scale and TFP's default bijectors are trusted; in quick, non-canonical flag combinations with >=3 distributed variables get 4 of the per_obs subsets.",
        ref="3/C02",
    ),
    "C03": dict(
        technique="explicit-state BFS over interface call histories on the real code (closure for eager calls, depth-bounded for jit/vmap modes) with fresh-model and differential oracles",
        text="Per (program in {hierarchy with prediction nodes, GLM, transformed, transformed with a bijector class whose argument is a model variable, node/variable name clash, optional None-valued input, distreg, user log-prob node}, user-model auto_update on/off, LieselInterface; GooseModel for one config) histories of update_state calls on ONE interface instance are explored: part A eager calls with 4 positions x 3 states to closure of the canonical state (digest of the private copy's observable fields + last result + jit-cache signature); part B modes {eager, jit, vmap batch 3} with 2 positions x 3 states to depth 2 (thorough 3). Every transition is replayed on a fresh interface and checked against a fresh oracle model, a bit-exact differential table (history independence), deep snapshots of input state / position / user's model and of ALL states returned earlier in the history (bit-identical, no shared dict objects), extract_position round trips with both key kinds, and log_prob against the model and the scipy reference. Dict / NamedTuple / plain dataclass / dataclass with __post_init__ pre-processing and an init=False field: all key subsets x 2 values x chains of 2 calls (eager; jit and vmap for dict and NamedTuple); dataclass with nested-dataclass fields (identity put/get). Added after round 3: a registered dataclass state with a non-field class attribute (put/get and log-prob for every key subset, eager / jit / vmap).",
        note="Input states are up to date and complete (documented precondition); ambiguous keys resolve node-first; jax.jit/vmap semantics and TFP densities trusted; merging histories relies on the canonical state covering every mutable field of the private copy.",
        ref="3/C03",
    ),
    "C04": dict(
        technique="exact reconstruction of the transition law by enumerating every environment answer (scripted PRNG) of the real kernels: full stochastic matrices for finite chains, detailed balance with the reconstructed Gaussian proposal law, leapfrog-trajectory conformance for HMC/NUTS",
        text="(a) finite chains end to end: for 7 kernel sequences (finite-discrete Gibbs, MH with asymmetric discrete proposals, user Gibbs; Liesel and dict models; every order) the full stochastic matrix of KernelSequence.transition is rebuilt from every joint state x epoch x every categorical/accept answer and pi P = pi, stochastic rows and epoch-homogeneity are checked; the premises of the reconstruction (no PRNG key used twice, kernel state unchanged) are checked on every execution. (b) RW/IWLS/MH on continuous blocks (dict and Liesel models incl. a bare Value parameter and a parameter transformed with Var.transform(tfb.Exp()); scalar/vector/two-key blocks, log-scale parameter with state-dependent information): scripted normals recover the actual affine proposal map at x and x', the reverse draw is scripted, and pi(x)q(x'|x)a(x->x') = pi(x')q(x|x')a(x'->x) plus 'moves iff u < a' are checked. (c) HMC/NUTS under a recording model interface: every density evaluation point must follow the Stoermer-Verlet recurrence of the float64 reference density with the kernel's step size and inverse mass matrix (identity / non-uniform diagonal / dense, keys in non-alphabetical order), initial momentum ~ N(0, M), HMC acceptance = min(1, exp(H0-HL)), move iff u < a, exact write-back. Models: dict, Liesel, Liesel with Var.transform(tfb.Exp()), with a class bijector whose argument is a variable, and with the default (auto) transformation of a Gamma parameter; a finite model in which the discrete variable selects another parameter's prior scale.",
        note="One-step invariance of a homogeneous law gives invariance after any number of transitions; HMC invariance follows from conformance to the reversible volume-preserving integrator + MH step (standard theorem); NUTS tree building / selection (blackjax) is the trusted base; composition over continuous blocks relies on C09's premises. Lattice points only; tolerances 2e-5 on probabilities, 3e-3 on log detailed-balance ratios.",
        ref="3/C04",
    ),
    "C06": dict(
        technique="exhaustive product-lattice enumeration of scripted proposal/accept draws on the real kernels with a closed-form float64 oracle and reverse-move closure",
        text="Per unit (kernel variant incl. MH proposals that declare +-inf corrections x model family x block layout x interface incl. the legacy lsl.GooseModel and auto_update off) the full product lattice(x) x scripted Gaussian draws (0, +-e_i, product lattice) x step sizes x scripted uniforms x epoch types is executed on the real kernel.transition, plus the reverse move from every realised proposal. Oracle (float64, analytic gradient/Hessian): proposal affine in z with the DOCUMENTED mean and covariance; reported alpha = min(1, pi(x')q(x|x')/(pi(x)q(x'|x))); detailed balance of the forward/backward pair; solve/mvn_log_prob/mvn_sample on all 2x2 and 3x3 factor lattices; an eager key-discipline stage checks that within a transition no PRNG key is consumed by two draws nor equals the kernel's input key, and that transitions with different input keys share no draw key.",
        note="Lattice statement only; draws scripted via ScriptedPRNG (traced inputs under jit+vmap, eager sub-lattice cross-checked with a recording interface); families Gaussian, logistic, Poisson, Gamma-Poisson(log) through DictInterface plus Poisson through a real lsl.Model; tolerance alpha 2e-4 absolute; where alpha == 0 hides the proposal it is predicted from the documented law; the accept rule u < alpha is C05's subject.",
        ref="3/C06",
    ),
    "C09": dict(
        technique="stateless enumeration of accept/reject/categorical answers (deviation-bounded) of real KernelSequence transitions with logging proxies, plus a monitor over every stored iteration of real Engine runs; float64 recomputation oracle",
        text="KernelSequence.transition runs eagerly on a Liesel regression model (derived nodes sigma, eta, per-variable and model log-probs, discrete indicator) and on a dict model with 2-3 real kernels (RW, IWLS, HMC, NUTS, MH, finite-discrete Gibbs) over disjoint blocks in every order; all combinations of accept/reject/categorical answers for one iteration and <=1 (thorough 2) non-default answers for two iterations; also with the user's model in auto_update=False. At every kernel boundary: input = predecessor's output, only the kernel's block and its graph descendants change, every derived node and model log-prob equals the float64 recomputation from the stored parameters, no outdated node, rejection returns the input state exactly, the sequence returns the last kernel's state in the configured order. Engine level: real runs (4 chains, chunk sizes 1/5/10) tracking all parameters and derived nodes; same recomputation on every stored iteration. Added after round 3: the built-in distreg tau2 Gibbs kernel on a real DistRegBuilder model over a 16 x 16 lattice {state variant} x {model-object variant} of (a, b, beta, K): the draw equals the full conditional of the model state handed over.",
        note="Gaussian draws fixed by a deterministic rule; only accept/reject/categorical/direction answers enumerated; NUTS reports position_moved=99 so its rejection identity is not checked; tolerance 2e-4 (float32).",
        ref="3/C09",
    ),
    "C11": dict(
        technique="exhaustive tree enumeration of acceptance sequences and scripted-answer lifecycles on the real kernels with a float64 Stan dual-averaging reference",
        text="(1) da_init/da_step/da_finalize on a plain object: the full tree of acceptance sequences over the alphabet to depth 5 x initial steps x constant sets x argument styles, with finalize and restart (+ all continuations <=2) at every node and sibling monotonicity. (2) Every sequence of scripted environment answers through whole epoch schedules on the real, jitted start_epoch/transition/end_epoch/tune of RW, MH (tuning on/off), IWLS, HMC, NUTS, with an eager twin path. (3) Real Engine runs with stored kernel states. Oracle: float64 Stan/Hoffman-Gelman recurrence driven by the reported acceptance probabilities; bit-identical kernel state in burn-in/posterior.",
        note="Acceptance alphabet within [0,1]; step compared at relative 1e-5, log-average at absolute 2e-5; HMC/NUTS acceptance values come from blackjax (trusted); a fixed synthetic history is used for slow-epoch tune (mass matrix is C12's subject); schedules <=5 epochs / <=6 transitions, answer menu of 5 (z,u) pairs; engine seeds are input labels.",
        ref="3/C11",
    ),
    "C13": dict(
        technique="scripted-PRNG seam capturing Gamma shape and categorical logits on the real kernels over full parameter lattices, with closed-form and model-joint ratio oracles",
        text="tau2_gibbs_kernel: full product of 5 penalties (7 thorough; rank 0 to full, dim 2-5) plus dim-20 scaled penalties whose matrix_rank differs from the number of float32 eigenvalues above 1e-6, x a x b x 6 coefficient vectors incl. null-space vectors; the kernel is built ONCE per (penalty, a); the b lattice, a second a, a changed rank, a re-weighted same-rank penalty and a rank-one penalty (with rank) reach kernel and model only through the model state; the real transition runs with the gamma seam answering {1, 1/2, 2} and recording the shape parameter. Oracles: closed form a + rk(K)/2 and b + beta'K beta/2, and a ratio test log joint_model(tau2) - log IG(tau2; a_g, b_g) constant over 6 tau2 values on the real model's joint. finite_discrete_gibbs_kernel: 32 specs (39 thorough) covering FiniteDiscrete, Bernoulli and explicit outcomes, sizes 2-4, likelihood none / Normal mean / mixture indicator / value of a weak variable with a distribution / diamond of cached nodes sigma = f(z), mean = g(sigma, z) in both input orders (Calc or weak Var, keyword or positional distribution arguments), with 3 and 150+ observations (|log joint| up to ~5000), crossed with every ordered pair of states back-to-back and every forced outcome; softmax(logits) equals the exact normalised joint. Added after round 3: integer-valued current value with fractional outcomes, tau2 settings at extreme scales (b = 1e-9, coefficients 1e4), purity of kernel construction and states taken from the user's own model after later assignments.",
        note="Lattices only; jax.random.gamma / categorical trusted as samplers (what is checked is the parameters liesel hands them and the use of the answer); tolerances 1e-5 relative (parameters), ratio test 0.005 (dim <= 5) / 0.02 (dim 20) + 5e-7*|log joint| (bug effect >= 3.4), probabilities 1e-5 + 2e-6*max|logit|; exceptions thrown by liesel on valid input count as violations.",
        ref="3/C13",
    ),
    "C14": dict(
        technique="exhaustive configuration x entry-point x value-lattice enumeration on built models, checked against a change-of-variables reference (scipy float64 + closed-form bijectors)",
        text="Full product of 13 distribution families x bijector option (instance, class with args, default) x entry point (Var.transform(instance), Var.transform(cls, args), Var.transform(None), auto_transform at build, deprecated GraphBuilder.transform in the same forms) x parameter kind (constants; distribution parameters as variables incl. a hyper-prior; bijector arguments as variables; both) x build style (GraphBuilder.add(x), add(sink only), lsl.Model([x]), lsl.Model([sink])) x shape, per_obs and parameter flag, plus chained (double) transforms of the new variable (first step through Var.transform or the deprecated method, second step through either); every variable handed to the distribution or bijector must be in the built model. Each case is a real model walked over 7 (thorough 13) unconstrained values by assignment, then every parameter and argument variable is re-assigned. Oracle: original value equals b(t) and is unchanged by the transformation, new log_prob = log p(b(t)) + log|b'(t)|, Model.log_prob / log_prior / log_lik, parameter flag moved, original keeps no distribution, per_obs carried over. Added after round 3: after every case the model is taken apart with pop_nodes_and_vars and rebuilt from the same variables and the oracle runs again.",
        note="TFP's densities and bijectors trusted as such but every number is compared with an independent float64 scipy or closed-form reference; values to 2e-5 relative, log-densities to 2e-4*(1+|log p|+|log b'|); lattice points only.",
        ref="3/C14",
    ),
    "C18": dict(
        technique="exhaustive input-lattice enumeration with scripted-PRNG reconstruction of the sampler's linear map; float64 closed forms as oracle",
        text="MVN degenerate: d 1-4 (thorough 6), plus a high-dimensional family d in {30, 60} whose pseudo-determinant leaves the float32 range, x 6 integer penalties and their stacked batch x variances x loc x batch layouts (incl. mixed broadcasting) x 13 constructor variants x lattice {-1,0,2}^d plus null-space shifts; oracles: range-space density, rank/log-pdet, null invariance, constructor agreement; sampler map rebuilt from scripted normals e_i: S S' = pinv(P), N'S = 0, sample shapes (), (2,), (2,2). AlgebraicSigmoid on 41-point x and y lattices in float32 and float64 against closed forms and jax.grad. Copula: 8 dependences and None x 7x7 lattice x validate_args x batches, closed form, marginals by 198-node quadrature. Added after round 3: far-tail lattice (|x| up to 1e6) for the AlgebraicSigmoid Jacobian; penalties scaled by powers of two (2^-20..2^13) with a supplied rank, three constructor variants, eager and jit.",
        note="Trusted: TFP base classes, MultivariateNormalTriL, NormalCDF; float32 against float64 closed forms with measured margin >= 10x; lattice points only. One open finding (absolute eigenvalue tolerance 1e-6 vs float32 noise) is reported as KNOWN-FINDING; its signature is emitted only when liesel's own eigenvalue of a true null direction exceeds tol.",
        ref="3/C18",
    ),
    "C20": dict(
        technique="exhaustive enumeration of loss histories on the real Stopper plus stateless answer enumeration of optim_flat under a scripted optimiser and gradient-decoded batch membership, against documented-pseudo-code reference models",
        text="Stopper: every loss history in letters^L (4 letters, L=7 quick; 5 letters, L=8 thorough; tolerance-critical spacings), every index, patience 1-3, 4 (atol, rtol) pairs and 2 max_iter values, jitted and eager, against the docstring pseudo-code. optim_flat: every execution under a scripted optimiser (3-letter loss alphabet; max_iter 6 quick / 7 thorough, all early-stop prefixes; full lattice restore x prune x save_position_history x validation model none/same-n/different-n) against a reference simulation (stop iteration, iteration_best in the final window, restored position, history lengths / NaN padding / values, state consistent with position). Mini-batches: n in {4,5,7} x batch size {2,3} x 5 seeds (two of them with a separate validation model with different data and n: batches must be cut from the training data), K = 20/30 iterations, membership decoded exactly from gradients. The validation model is a separately built object whose own parameter value differs from the training start value.",
        note="Window-completeness boundary i in {p-1,p} is a don't-care; ties admit any minimiser; patience <= max_iter only; tqdm replaced by a disabled bar; trusted: jax.random.permutation, optax.apply_updates, lax loops. The open finding minibatch:same-partition-every-iteration (carried key never advanced; a fix would break a pinned golden test) reproduces on /repo and is printed as KNOWN-FINDING.",
        ref="3/C20",
    ),
    "C07": dict(
        technique="exhaustive product over configuration lattices plus exhaustive operation-history enumeration (append_epoch / sample_next_epoch / sample_all_epochs) on the real Engine with tracer kernels; reference lifecycle generator as oracle",
        text="Every valid epoch schedule up to 2 (thorough 3) epochs after the initial one is run on real Engines built through both EngineBuilder and the Engine constructor, crossed with durations, valid thinnings and every chunk size dividing the durations, every kernel-sequence configuration (1-2 kernels, mixin or plain, needs_history on/off) and 1-3 chains. Every history of append_epoch / sample_next_epoch / sample_all_epochs from every construction prefix is run for every epoch-type sequence. The decoded call log of every kernel and chain (tracer kernels keep an event log in their kernel state) is compared call by call with a reference lifecycle generator, and all interleavings must give identical logs and chains.",
        note="Trusted: the tracer kernels and liesel's DictInterface. Wildcards: epoch clock inside start/end/tune calls, key words, history given to kernels that did not ask for one. Interleavings use one duration/thinning assignment per type sequence; durations <= 6 ({1,2,3} for length 2 in quick, {1,3} for length 3).",
        ref="3/C07",
    ),
    "C08": dict(
        technique="exhaustive configuration product on the real Engine and chain classes with value-encoded deterministic kernels; reference chain as oracle and differential comparison across chunkings",
        text="Deterministic key-ignoring kernels write values that encode key, element, chain, epoch and iteration; positions, posterior positions, transition infos, kernel states and generated quantities are compared element by element with the reference over all valid schedules up to 2 (thorough 3) epochs x durations x thinnings x every chunk (constructor and builder), tracked-key selections (every position_keys subset and included/excluded pair, incl. excluded keys of a kernel that needs its history) x 3 leaf-shape assignments x flags (store_kernel_states, quantity generator, minimize) x 1-3 chains; results must be identical across chunk sizes. ListEpochChain and EpochChainManager are also checked alone over all compositions of every duration <= 8 (thorough 10) with every thinning and all epoch sequences of length <= 3. Added after round 3: EngineBuilder.set_duration over a (thinning_posterior, thinning_warmup) grid with the C16 reference schedule as expectation, and one results object asked again after every further appended-and-sampled epoch (it shares the engine's live chains).",
        note="Values use the engine's epoch clock, validated by the C07 oracle in the same run; DictInterface trusted; posterior accessors only called when a posterior epoch exists; selection/flags/shape products use 2-3 fixed schedules.",
        ref="3/C08",
    ),
    "C10": dict(
        technique="exhaustive configuration-lattice enumeration on the real engine with key-recording tracer kernels; differential bit-equality of complete runs plus a key-distinctness / split-lineage oracle",
        text="Every configuration of a bounded lattice - seed form (constructor int / PRNGKey; set_engine_seed int / PRNGKey / per-chain key array) x engine seed x chains <=3 (thorough 4) x (kernels, generators) x epoch schedules <=2 (thorough 3) epochs x every chunk divisor x jitter {none, element-wise, non-element-wise sum, key-using; every jittered position key has its own, different function} x {replicated, per-chain} initial state - is built and run on the real EngineBuilder/Engine 2-3 + #chains times, with all stored leaves compared bit for bit (same seed twice, int vs PRNGKey, one chain perturbed); tracer kernels, generators and jitter functions record the raw key of every call (init, start, transition, end, tune, end-warmup, generate, jitter), and the set must be duplicate-free and free of split-lineage relations (also w.r.t. the engine's carry key and the builder's keys); the first stored sample must equal jitter(initial value) exactly. Reproducibility is additionally checked ACROSS interpreters: 2 configurations with >= 2 key-jittered position keys are re-run in up to 3 fresh processes whose string-hash seeds give different set iteration orders, and digests of all stored leaves are compared. Added after round 3: every repeated configuration is also run on the second engine built from the same builder; a bounded-support model in which only the perturbed chain leaves the support after jitter.",
        note="Legacy uint32[2] keys; lineage searched for split fan-out <=4, depth <=2; the configuration product is complete on reference schedules and strided (rotating offset) across the schedule lattice; RW/HMC/NUTS/IWLS used for bit-equality, independence and initial values only; an exception raised in a liesel frame on a valid configuration counts as a violation.",
        ref="3/C10",
    ),
    "C19": dict(
        technique="exhaustive enumeration of error-code arrays on the real log -> summary -> data-frame pipeline with a counting reference; one-chain-per-pattern engine sweep; exact round-trip comparison for ArviZ and pickle",
        text="Pipeline: for every layout (chains <=2 [thorough 4] x warm-up {0,1,2} x posterior {0,1,2} transitions in every epoch split x chunking x kernel set incl. two kernels of the same class with overlapping codes and a kernel whose error book documents a negative code) EVERY assignment of error codes to every (kernel, chain, transition) cell (1.1e4 quick / 8.5e4 thorough) is pushed through the real SamplingResults.get_error_log -> _make_error_summary -> Summary.error_df and compared with a counting reference per kernel, code, message, chain and phase. Engine: a scripted-error kernel realises all 3^6 (3^8 thorough) single-chain patterns in one run (one chain per pattern), plus thinned, two-kernel and no-warm-up runs; full Summary, sample_info, ArviZ conversion (with/without warm-up) and the pickle round trip are compared exactly with what is stored. Added after round 3: minimize() of every built-in transition-info class over all documented codes; chain level of error_df against its argument; every word <=4 (thorough 5) over {save A, save B, save C, load} on one path.",
        note="Pipeline-level SamplingResults are filled by hand the way the engine fills them; error_df is evaluated on a Summary shell; the 'relative' column is not checked; warmup_size_per_chain is compared with stored warm-up transitions; the engine oracle counts from the kernel's table, not from stored infos; any exception raised by liesel on a valid input is a violation; one kernel documents an error code it never returns, so cross-kernel leakage shows as a wrong entry.",
        ref="3/C19",
    ),
}

PENDING_REASON = "check not built yet in this session (design in DESIGN.md section 3); not claimed until it exists and has caught a seeded defect"


def main():
    props = [json.loads(l) for l in open(os.path.join(VERIF, "properties.jsonl"))]
    checks = []
    na = []
    for p in props:
        pid = p["id"]
        c = CHECKS.get(pid)
        if c is None:
            na.append({"property_id": pid, "reason": PENDING_REASON})
            continue
        checks.append(
            {
                "property_id": pid,
                "quick_cmd": f"./check {pid} --tier quick",
                "thorough_cmd": f"./check {pid} --tier thorough",
                "evidence_file": f"/verif/evidence/{pid}.json",
                "replay_cmd_template": f"./check {pid} --replay {{path}}",
                "engine": "mc",
                "level_claimed": {"category": "model_checking", "text": c["text"], "design_ref": c["ref"]},
                "level_note": c["note"],
                "technique": c["technique"],
            }
        )
    man = {
        "version": 1,
        "setup_cmd": "mkdir -p /verif/evidence /verif/replays && /venv/bin/python -c 'import jax, liesel, blackjax, jsonschema'",
        "hooks": {
            "guard": "LIESEL_VERIF",
            "enable": "no source hooks are needed: all seams (PRNG, model interface, kernels, optimiser, distributions) are harness-side objects passed through liesel's public API; checks import liesel from /repo's working tree (VERIF_REPO overrides)",
            "baseline_off_cmd": "cd /repo && /venv/bin/python -m pytest -ra -q -p no:cacheprovider --timeout=900 --continue-on-collection-errors",
            "source_commits": [],
            "add_only": True,
        },
        "engines": [
            {
                "name": "mc",
                "path": "/verif/mc",
                "serves_properties": [c["property_id"] for c in checks],
                "kind_free_text": "hand-written explicit-state / stateless explorer in Python that drives the real liesel objects (closure BFS over operation histories, deviation-bounded enumeration of environment answers, exhaustive products over configuration lattices) with plain-Python reference models as oracles",
            }
        ],
        "checks": checks,
        "not_applicable": na,
        "notes": "All checks: exit 0 = held on everything explored, exit 1 + 'VIOLATION property=<id> replay=<path>' lines, exit 2 = harness error (no verdict). known_findings.txt lists open findings (none suppresses a different violation) and 'fixed:' entries (which suppress nothing).",
    }
    with open(os.path.join(VERIF, "MANIFEST.json"), "w") as fh:
        json.dump(man, fh, indent=1)
        fh.write("\n")
    try:
        import jsonschema

        jsonschema.validate(man, json.load(open("/root/.vp/MANIFEST.schema.json")))
        print("MANIFEST.json valid;", len(checks), "checks,", len(na), "not claimed")
    except ImportError:
        print("written (jsonschema not available)")


if __name__ == "__main__":
    main()
