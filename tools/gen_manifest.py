#!/venv/bin/python
"""Generates /verif/MANIFEST.json from the table below (kept next to the checks)."""
import json
import os

VERIF = os.path.dirname(os.path.dirname(os.path.abspath(__file__)))

CHECKS = {
    "C01": dict(
        technique="explicit-state BFS to closure over operation histories on the real Model, per generated graph program; reference evaluator + staleness monitor as oracle",
        text="Every history (any length) over {assign, auto-update toggle, update(), update(targets), save, restore, set_seed} is covered per program because the search runs to closure of the canonical state space; programs are all G-cache graphs up to the tier's size. The oracle (from-scratch evaluator, dirty-bit monitor, call counters) runs on every transition of the real object.",
        note="Assumes pure node functions; values over a 2-letter input alphabet (interned, injective); restore pairs are strided over current states when a program has more than 48 reachable states (reported as a cap).",
        ref="3/C01",
    ),
}

PENDING_REASON = "check not built yet in this session (design in DESIGN.md section 3); not claimed until it exists and has caught a seeded defect"


def main():
    props = [json.loads(l) for l in open(os.path.join(VERIF, "properties.jsonl"))]
    checks = []
    na = []
    for p in props:
        pid = p["id"]
        c = CHECKS.get(pid)
        if c is None:
            na.append({"property_id": pid, "reason": PENDING_REASON})
            continue
        checks.append(
            {
                "property_id": pid,
                "quick_cmd": f"./check {pid} --tier quick",
                "thorough_cmd": f"./check {pid} --tier thorough",
                "evidence_file": f"/verif/evidence/{pid}.json",
                "replay_cmd_template": f"./check {pid} --replay {{path}}",
                "engine": "mc",
                "level_claimed": {"category": "model_checking", "text": c["text"], "design_ref": c["ref"]},
                "level_note": c["note"],
                "technique": c["technique"],
            }
        )
    man = {
        "version": 1,
        "setup_cmd": "mkdir -p /verif/evidence /verif/replays && /venv/bin/python -c 'import jax, liesel, blackjax, jsonschema'",
        "hooks": {
            "guard": "LIESEL_VERIF",
            "enable": "no source hooks are needed: all seams (PRNG, model interface, kernels, optimiser, distributions) are harness-side objects passed through liesel's public API; checks import liesel from /repo's working tree (VERIF_REPO overrides)",
            "baseline_off_cmd": "cd /repo && /venv/bin/python -m pytest -ra -q -p no:cacheprovider --timeout=900 --continue-on-collection-errors",
            "source_commits": [],
            "add_only": True,
        },
        "engines": [
            {
                "name": "mc",
                "path": "/verif/mc",
                "serves_properties": [c["property_id"] for c in checks],
                "kind_free_text": "hand-written explicit-state / stateless explorer in Python that drives the real liesel objects (closure BFS over operation histories, deviation-bounded enumeration of environment answers, exhaustive products over configuration lattices) with plain-Python reference models as oracles",
            }
        ],
        "checks": checks,
        "not_applicable": na,
        "notes": "All checks: exit 0 = held on everything explored, exit 1 + 'VIOLATION property=<id> replay=<path>' lines, exit 2 = harness error (no verdict). known_findings.txt lists open findings (none suppresses a different violation) and 'fixed:' entries (which suppress nothing).",
    }
    with open(os.path.join(VERIF, "MANIFEST.json"), "w") as fh:
        json.dump(man, fh, indent=1)
        fh.write("\n")
    try:
        import jsonschema

        jsonschema.validate(man, json.load(open("/root/.vp/MANIFEST.schema.json")))
        print("MANIFEST.json valid;", len(checks), "checks,", len(na), "not claimed")
    except ImportError:
        print("written (jsonschema not available)")


if __name__ == "__main__":
    main()
