#!/bin/bash
# sweep_seeded.sh <ID>... : only the independently seeded mutants
for ID in "$@"; do
  JOBS=${JOBS:-14} /verif/tools/run_mutants.sh $ID /verif/seeded/$ID-m*/patch.diff 2>&1 | grep -E "^MUTANT" | sed "s/^/$(date +%H:%M) $(git -C /repo rev-parse --short HEAD) /" | cut -c1-400 >> /verif/mutants/RESULTS.txt
done
