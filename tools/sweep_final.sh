#!/bin/bash
# sweep_final.sh <ID>... : all independently seeded defects (both rounds) of the given properties, plus the own
# mutants for the checks listed in OWN; appends to mutants/RESULTS.txt
OWN=" C04 C09 C15 "
for ID in "$@"; do
  P=$(ls /verif/seeded/$ID-*/patch.diff /verif/seeded/${ID}r2-*/patch.diff 2>/dev/null)
  case "$OWN" in *" $ID "*) P="$(ls /verif/mutants/$ID/*.patch 2>/dev/null) $P";; esac
  JOBS=${JOBS:-16} /verif/tools/run_mutants.sh $ID $P 2>&1 | grep -E "^MUTANT" | sed "s/^/$(date +%H:%M) final $(git -C /repo rev-parse --short HEAD) /" | cut -c1-420 >> /verif/mutants/RESULTS.txt
done
