#!/bin/bash
# run_mutants.sh <ID> [patch ...]   - applies each patch to a scratch worktree and runs ./check <ID> against it
ID=$1; shift
WT=/tmp/wt_run_${ID}_$$
cd /verif
git -C /repo worktree add -f $WT HEAD -q 2>/dev/null
git -C $WT checkout -q --detach $(git -C /repo rev-parse HEAD); git -C $WT checkout -- .
PATCHES="$@"; [ -z "$PATCHES" ] && PATCHES=$(ls /verif/mutants/$ID/*.patch /verif/seeded/$ID-*/patch.diff /verif/seeded/${ID}r2-*/patch.diff 2>/dev/null)
for p in $PATCHES; do
  git -C $WT checkout -- . ; git -C $WT clean -fdq
  if ! git -C $WT apply $p 2>/tmp/apply_err_$ID; then echo "MUTANT $p: PATCH-DOES-NOT-APPLY $(head -1 /tmp/apply_err_$ID)"; continue; fi
  out=$(VERIF_REPO=$WT VERIF_NO_EVIDENCE=1 ./check $ID ${JOBS:+--jobs $JOBS} 2>&1); rc=$?
  sigs=$(echo "$out" | grep -E '^  [a-z_A-Z0-9-]+:' | cut -c3-90 | head -3 | tr '\n' ';')
  echo "MUTANT $p: exit=$rc $( [ $rc = 1 ] && echo CAUGHT || ([ $rc = 0 ] && echo MISSED || echo HARNESS-ERROR) ) $sigs"
  [ $rc = 2 ] && echo "$out" | grep -m3 -E "HARNESS|Error" 
done
git -C /repo worktree remove --force $WT
