#!/bin/bash
# sweep.sh <ID>... : runs every own and seeded mutant of the given properties, appends to /verif/mutants/RESULTS.txt
for ID in "$@"; do
  JOBS=${JOBS:-8} /verif/tools/run_mutants.sh $ID 2>&1 | grep -E "^MUTANT" | sed "s/^/$(date +%H:%M) $(git -C /repo rev-parse --short HEAD) /" | cut -c1-400 >> /verif/mutants/RESULTS.txt
done
