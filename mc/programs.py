"""
G-cache: generated graph programs (C01, C15, C17 share it).

A program is a JSON-able dict

  {"items": [item, ...], "to_float32": bool}

item kinds (``inputs`` refer to indices of EARLIER items):
  {"kind": "value"}                         bare lsl.Value input
  {"kind": "var"}                           strong lsl.Var (Value + VarValue proxy)
  {"kind": "calc",  "inputs": [i, j]}       lsl.Calc
  {"kind": "tcalc", "inputs": [i]}          lsl.TransientCalc
  {"kind": "wvar",  "inputs": [i, j]}       weak lsl.Var(lsl.Calc(...))
  {"kind": "dist",  "var": v, "inputs": [i], "per_obs": bool}   lsl.Dist attached to var v
optional per item: "named": bool (default True), "seed": bool (needs_seed), "group": str

Values are *content-based terms*: every function application returns the nested tuple
(node, argument values), which identifies its provenance injectively, so a stale value
can never equal a fresh one by accident. Distribution log-probs are ``Sym`` objects
(symbolic multiset sums), so _model_log_prob etc. identify every component. Being
content-based, values stay comparable across deepcopy / pickling of a model.
"""

from __future__ import annotations

import itertools
from typing import Any

class Sym:
    """
    A symbolic sum of log-prob terms: content-based (picklable, deep-copyable, equal
    across model copies), supports ``0 + Sym + Sym`` as used by liesel's _reduced_sum.
    """

    __slots__ = ("terms",)

    def __init__(self, terms=()):
        self.terms = tuple(sorted(terms, key=repr))

    def __add__(self, other):
        if isinstance(other, Sym):
            return Sym(self.terms + other.terms)
        if other == 0:
            return self
        return NotImplemented

    __radd__ = __add__

    def __eq__(self, other):
        if isinstance(other, Sym):
            return self.terms == other.terms
        if not self.terms:
            return other == 0
        return False

    def __ne__(self, other):
        return not self.__eq__(other)

    def __hash__(self):
        return hash(self.terms)

    def __repr__(self):
        return "Sym" + repr(self.terms)

    def __getstate__(self):
        return self.terms

    def __setstate__(self, st):
        self.terms = st


def freeze(x):
    """Lists (mutable input values) -> tuples, recursively."""
    if isinstance(x, list):
        return tuple(freeze(y) for y in x)
    return x


def seed_tuple(seed) -> tuple:
    import numpy as np

    if isinstance(seed, (tuple, list)):
        return freeze(seed) if isinstance(seed, list) else seed  # user-supplied symbolic seed value
    return tuple(int(x) for x in np.asarray(seed).ravel())


class StubDist:
    """A 'distribution' whose log_prob identifies (dist index, parameters, point)."""

    def __init__(self, prog: "Built", j: int, *params, seed=None):
        self.prog, self.j, self.params = prog, j, params
        self.seed = None if seed is None else seed_tuple(seed)

    def log_prob(self, at):
        self.prog.calls[("d", self.j)] = self.prog.calls.get(("d", self.j), 0) + 1
        self.prog.order.append(("d", self.j))
        params, at = tuple(freeze(p) for p in self.params), freeze(at)
        key = ("d", self.j, params, at) if self.seed is None else ("d", self.j, params, at, self.seed)
        return Sym((key,))


class Built:
    """A real liesel model built from a program + handles for harness and reference."""

    def __init__(self, program: dict, build: bool = True, copy: bool = False):
        import liesel.model as lsl

        self.program = program
        self.items = program["items"]
        self.calls: dict[Any, int] = {}
        self.order: list[Any] = []  # order of function evaluations
        self.objs: list[Any] = []  # per item: Node or Var
        self.out: list[Any] = []  # per item: the node other items see as input
        self.cache_node: list[Any] = []  # per item: the node whose function is counted
        self.dist_of: dict[int, int] = {}  # var item -> dist item
        groups: dict[str, dict[str, Any]] = {}

        for i, it in enumerate(self.items):
            k = it["kind"]
            name = it.get("name", f"x{i}") if it.get("named", True) else ""
            init = list(self.val(0)) if it.get("mutable") else self.val(0)
            if k == "value":
                n = lsl.Value(init, _name=name)
                self.objs.append(n), self.out.append(n), self.cache_node.append(None)
            elif k == "var":
                v = lsl.Var(lsl.Value(init), name=name) if it.get("mutable") else lsl.Var(init, name=name)
                self.objs.append(v), self.out.append(v.var_value_node), self.cache_node.append(None)
            elif k in ("calc", "tcalc", "wvar"):
                cls = lsl.TransientCalc if k == "tcalc" else lsl.Calc
                rawmask = it.get("raw") or [False] * len(it["inputs"])
                ins = [
                    (self.objs[j].value_node if raw and isinstance(self.objs[j], lsl.Var) else self.objs[j])
                    for j, raw in zip(it["inputs"], rawmask)
                ]
                kwmask = it.get("kw") or [False] * len(ins)
                pos = [x for x, kw in zip(ins, kwmask) if not kw]
                kws = {f"k{n}": x for n, (x, kw) in enumerate(zip(ins, kwmask)) if kw}
                if "user_seed" in it:
                    kws["seed"] = self.objs[it["user_seed"]]  # the user's own seed input (takes precedence)
                node = cls(
                    self._fn(i),
                    *pos,
                    _name=(name if k != "wvar" else ""),
                    _needs_seed=bool(it.get("seed")),
                    update_on_init=it.get("update_on_init", True),
                    **kws,
                )
                if k == "wvar":
                    v = lsl.Var(node, name=name)
                    self.objs.append(v), self.out.append(v.var_value_node)
                else:
                    self.objs.append(node), self.out.append(node)
                self.cache_node.append(node if k != "tcalc" else None)
            elif k == "bdist":
                ins = [self.objs[j] for j in it["inputs"]]
                d = lsl.Dist(self._dist(i), *ins, _name=(f"x{i}" if it.get("named", True) else ""))
                d.at = self.out[it["at"]]
                self.objs.append(d), self.out.append(d), self.cache_node.append(d)
            elif k in ("dist", "tdist"):
                ins = [self.objs[j] for j in it["inputs"]]
                dcls = lsl.TransientDist if k == "tdist" else lsl.Dist
                if it.get("kw"):
                    d = dcls(self._dist(i), _name=(f"x{i}" if it.get("named", True) else ""), _needs_seed=bool(it.get("seed")), **{f"k{n}": x for n, x in enumerate(ins)})
                else:
                    d = dcls(self._dist(i), *ins, _name=(f"x{i}" if it.get("named", True) else ""), _needs_seed=bool(it.get("seed")))
                d.per_obs = it.get("per_obs", True)
                var = self.objs[it["var"]]
                var.dist_node = d
                if "flag" in it:
                    if it["flag"] == "observed":
                        var.observed = True
                    elif it["flag"] == "parameter":
                        var.parameter = True
                self.dist_of[it["var"]] = i
                self.objs.append(d), self.out.append(d), self.cache_node.append(d if k == "dist" else None)
            else:
                raise ValueError(k)
            if it.get("group"):
                groups.setdefault(it["group"], {})[f"m{i}"] = self.objs[-1]
        self.groups = [lsl.Group(g, **members) for g, members in groups.items()]
        self.model = None
        if build:
            gb = lsl.GraphBuilder(to_float32=program.get("to_float32", True))
            # add only the sinks plus everything explicitly (order must not matter)
            gb.add(*[o for o in self.objs])
            self.model = gb.build_model(copy=copy)
            if copy:
                self.rebind(self.model)
            self.calls.clear()
            self.order.clear()

    @property
    def lsl(self):
        # not stored on the instance: the instance is reachable from the node functions
        # and would drag the module into every pickle of a model
        import liesel.model as lsl

        return lsl

    # ------------------------------------------------------------------
    def rebind(self, model):
        """Points handles at the nodes of ``model`` (after copy / load)."""
        self.model = model
        new_objs, new_out, new_cache = [], [], []
        for i, it in enumerate(self.items):
            o = self.objs[i]
            if isinstance(o, self.lsl.Var):
                no = model.vars[o.name]
                new_objs.append(no)
                new_out.append(no.var_value_node)
                new_cache.append(no.value_node if self.cache_node[i] is not None else None)
            else:
                no = model.nodes[o.name]
                new_objs.append(no)
                new_out.append(no)
                new_cache.append(no if self.cache_node[i] is not None else None)
        self.objs, self.out, self.cache_node = new_objs, new_out, new_cache

    def val(self, a: int):
        return ("in", a)

    def _fn(self, i: int):
        prog = self

        def f(*args, seed=None, **kw):
            prog.calls[("c", i)] = prog.calls.get(("c", i), 0) + 1
            prog.order.append(("c", i))
            args = tuple(freeze(a) for a in args) + tuple(freeze(v) for _, v in sorted(kw.items()))
            return ("c", i, args) if seed is None else ("c", i, args, seed_tuple(seed))

        f.__name__ = f"f{i}"
        return f

    def _dist(self, i: int):
        prog = self

        def make(*params, seed=None, **kw):
            return StubDist(prog, i, *(params + tuple(v for _, v in sorted(kw.items()))), seed=seed)

        return make

    # -- reference evaluator (no liesel involved) ------------------------
    def ref_eval(self, inputs: dict[int, int], seeds: dict[int, tuple] | None = None) -> list[int]:
        """Value of every item's *output* given raw input values (already interned)."""
        seeds = seeds or {}
        vals: list[Any] = []
        dist_vals: dict[int, int] = {}
        for i, it in enumerate(self.items):
            k = it["kind"]
            if k in ("value", "var"):
                vals.append(inputs[i])
            elif k in ("calc", "tcalc", "wvar"):
                kwmask = it.get("kw") or [False] * len(it["inputs"])
                args = tuple(vals[j] for j, kw in zip(it["inputs"], kwmask) if not kw) + tuple(vals[j] for j, kw in zip(it["inputs"], kwmask) if kw)
                if "user_seed" in it:
                    vals.append(("c", i, args, seed_tuple(vals[it["user_seed"]])))
                else:
                    vals.append(("c", i, args) if i not in seeds else ("c", i, args, seeds[i]))
            elif k == "bdist":
                params = tuple(vals[j] for j in it["inputs"])
                vals.append(Sym((("d", i, params, vals[it["at"]]),)))
            elif k in ("dist", "tdist"):
                params = tuple(vals[j] for j in it["inputs"])
                at = vals[it["var"]]
                key = ("d", i, params, at) if i not in seeds else ("d", i, params, at, seeds[i])
                vals.append(Sym((key,)))
        return vals

    def ancestors_inputs(self) -> list[set[int]]:
        """For each item: the set of INPUT items (value/var) it transitively depends on."""
        anc: list[set[int]] = []
        for i, it in enumerate(self.items):
            k = it["kind"]
            if k in ("value", "var"):
                anc.append({i})
            else:
                s: set[int] = set()
                for j in it["inputs"]:
                    s |= anc[j]
                if k in ("dist", "tdist"):
                    s |= anc[it["var"]]
                if k == "bdist":
                    s |= anc[it["at"]]
                if "user_seed" in it:
                    s |= anc[it["user_seed"]]
                anc.append(s)
        return anc


# ---------------------------------------------------------------------------------
# enumeration
# ---------------------------------------------------------------------------------


def _input_choices(p: int, vars_free: list[int], anc_ok) -> list[list[int]]:
    singles = [[a] for a in range(p)]
    pairs = [[a, b] for a in range(p) for b in range(p)]  # ordered: argument order matters for traversals
    return singles + pairs


def enumerate_programs(max_inputs: int, max_items: int, kinds=("calc", "tcalc", "wvar", "dist")):
    """
    All programs with 1..max_inputs inputs followed by derived items, total items
    <= max_items, simplest first. Input kinds: all-value, all-var, or (value, var).
    Derived item inputs: one earlier item, or an unordered pair with repetition.
    A dist attaches to an earlier var/wvar that has no dist yet and takes one parameter
    that does not descend from that variable (liesel rejects such graphs as cyclic).
    """
    out = []
    for k in range(1, max_inputs + 1):
        if k == 1:
            heads = [["value"], ["var"]]
        else:
            heads = [["value"] * k, ["var"] * k, ["value"] + ["var"] * (k - 1)]
        for head in heads:
            base = [{"kind": h} for h in head]
            for m in range(1, max_items - k + 1):
                out.extend(_extend(base, m, kinds))
    out.sort(key=lambda p: (len(p["items"]), str(p)))
    return out


def _descends(items, i, v) -> bool:
    """Does item i depend (transitively) on item v?"""
    if i == v:
        return True
    it = items[i]
    return any(_descends(items, j, v) for j in it.get("inputs", [])) or (
        it["kind"] in ("dist", "tdist") and _descends(items, it["var"], v)
    )


def _extend(items, m, kinds):
    if m == 0:
        yield {"items": [dict(x) for x in items]}
        return
    p = len(items)
    for kind in kinds:
        if kind == "dist":
            have = {it["var"] for it in items if it["kind"] in ("dist", "tdist")}
            for v in range(p):
                if items[v]["kind"] not in ("var", "wvar") or v in have:
                    continue
                for a in range(p):
                    if items[a]["kind"] in ("dist", "tdist"):
                        continue  # keep dists out of dist parameters
                    if _descends(items, a, v):
                        continue
                    new = items + [{"kind": "dist", "var": v, "inputs": [a]}]
                    if not sim_acyclic(new):
                        continue  # e.g. x ~ D(y), y ~ D(x): rejected by liesel's simulation order
                    yield from _extend(new, m - 1, kinds)
        else:
            for ins in _input_choices(p, [], None):
                yield from _extend(items + [{"kind": kind, "inputs": ins}], m - 1, kinds)


def sim_acyclic(items) -> bool:
    """Is the *simulation* graph (edge dist -> its variable, parameters -> dist) acyclic?"""
    n = len(items)
    succ = {i: set() for i in range(n)}
    for i, it in enumerate(items):
        for j in it.get("inputs", []):
            succ[j].add(i)
        if it["kind"] in ("dist", "tdist"):
            succ[i].add(it["var"])
    state = {}

    def dfs(u):
        state[u] = 1
        for w in succ[u]:
            if state.get(w) == 1:
                return False
            if w not in state and not dfs(w):
                return False
        state[u] = 2
        return True

    return all(dfs(i) for i in range(n) if i not in state)
