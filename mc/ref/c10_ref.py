"""
Reference side of C10 (plain numpy; no liesel imports).

* the initial values the harness supplies (per chain, all entries distinct),
* what the first stored sample has to be (initial value after the configured jitter),
* the key-lineage oracle: which recorded keys are derivable from which.
"""

from __future__ import annotations

import numpy as np


def log_capacity(schedule):
    # init + end_warmup + per epoch (start, end, tune, d transitions) + slack; constant
    # for all schedules of the lattice (<= 3 epochs of <= 6 transitions) so that array
    # shapes - and with them XLA programs - do not depend on the schedule
    need = 4 + sum(d + 3 for _, d, _ in schedule)
    cap = 32
    while cap < need:
        cap *= 2
    return cap


def initial_values(case, perturb=None):
    """dict name -> array [chains, ...]; row c is what chain c is supposed to start from.

    For the replicated form every chain starts from row 0 (the harness passes row 0 to
    set_initial_values and this function returns row 0 in every row)."""
    chains = case["chains"]
    out = {}
    if case["kind"] == "tracer":
        for i in range(case["nk"]):
            x = np.zeros((chains, 3), np.uint32)
            for c in range(chains):
                x[c] = [1000 * (c + 1) + 10 * i + 1, 40 + 3 * c + i, 70 + 5 * c + i]
            out[f"x{i}"] = x
        w = np.zeros((chains, 2), np.uint32)
        for c in range(chains):
            w[c] = [500 + c, 600 + 2 * c]
        out["w"] = w
        if perturb is not None:
            for i in range(case["nk"]):
                out[f"x{i}"][perturb, 0] += np.uint32(12345)
            out["w"][perturb, 0] += np.uint32(1)
    else:
        a = np.zeros((chains,), np.float32)
        b = np.zeros((chains, 2), np.float32)
        w = np.zeros((chains, 3), np.float32)
        for c in range(chains):
            a[c] = 0.5 * c - 0.5
            b[c] = [0.25 * c + 0.125, 0.5 - 0.25 * c]
            w[c] = [c + 1, 2 * c + 5, 3 * c + 9]
        out.update(a=a, b=b, w=w)
        if perturb is not None:
            out["a"][perturb] += np.float32(0.5)
            out["b"][perturb] += np.float32(0.25)
            out["w"][perturb, 0] += np.float32(1)
    if case["init"] == "replicated":
        if perturb is not None:
            raise ValueError("a replicated initial state cannot be perturbed per chain")
        out = {k: np.repeat(v[:1], chains, axis=0) for k, v in out.items()}
    return out


def jitter_kind(case, name):
    """
    Which jitter function the harness registers for a position key. Different position
    keys get genuinely different functions: the tracked-only key "w" always gets its own
    (+3), and in the "det" configurations every odd kernel key gets the non-element-wise
    "sum" function instead.
    """
    j = case["jitter"]
    if j == "none":
        return "none"
    if name == "w":
        return "w3"
    idx = int(name[1:]) if case["kind"] == "tracer" else {"a": 0, "b": 1}[name]
    if j == "det" and idx % 2 == 1:
        return "sum"
    return j


def jittered_names(case):
    if case["jitter"] == "none":
        return []
    base = [f"x{i}" for i in range(case["nk"])] if case["kind"] == "tracer" else ["a", "b"]
    return base + ["w"]


def expected_first_sample(case, leaves):
    """name -> expected array [chains, ...] of the first stored sample (where the
    jitter makes it a function of the initial value and observed key words)."""
    init = initial_values(case, None)
    exp = {}
    tracer = case["kind"] == "tracer"
    names = ([f"x{i}" for i in range(case["nk"])] if tracer else ["a", "b"]) + ["w"]
    for name in names:
        k = jitter_kind(case, name)
        x = init[name].copy()
        if k == "none":
            pass
        elif k == "w3":
            x = (x + x.dtype.type(3)).astype(x.dtype)
        elif tracer:
            if k == "det":
                x[:, 0] = x[:, 0] * np.uint32(2) + np.uint32(7)
            elif k == "sum":
                # non-element-wise: own first entry + sum of the chain's OWN entries
                for c in range(x.shape[0]):
                    x[c, 0] = np.uint32((int(x[c, 0]) + sum(int(v) for v in init[name][c])) % (1 << 32))
            elif k == "key":
                got = leaves[f"['positions']['{name}']"][:, 0]
                k0 = got[:, 1].astype(np.uint32)
                k1 = got[:, 2].astype(np.uint32)
                x = np.stack([x[:, 0] + (k0 ^ k1), k0, k1], axis=1).astype(np.uint32)
        else:
            # dyadic values: exact in float32
            if k == "det":
                x = x + np.float32(0.25)
            elif k == "sum":
                x = (x + x.reshape(x.shape[0], -1).sum(axis=1).reshape((-1,) + (1,) * (x.ndim - 1))).astype(np.float32)
            elif k == "key":
                continue  # value not a function of observables; range-checked by the harness
        exp[name] = x
    return exp


def _desc(children, keys, depth):
    """list over depth d=1..depth of arrays [n, cnt_d, 2]: descendants of each key."""
    keys = np.asarray(keys, np.uint32).reshape(-1, 2)
    n = len(keys)
    out = []
    cur = keys.reshape(n, 1, 2)
    for _ in range(depth):
        flat = cur.reshape(-1, 2)
        ch = children(flat)  # m -> [len(flat), m, 2]
        nxt = np.concatenate([ch[m] for m in sorted(ch)], axis=1)  # [len(flat), 10, 2]
        cur = nxt.reshape(n, -1, 2)
        out.append(cur)
    return out


def lineage(case, keys, carries, counts, builder_keys, children, depth=2):
    """
    keys      list of (k0, k1, label) recorded by harness objects (label[0] in
              kernel/generator/jitter; kernel labels: (who, chain, kernel, event, row))
    carries   Engine._prng_key [chains,2] after construction and after every epoch
    counts    per observation: list over kernels of the per-chain number of log rows
    Returns list of (sig, message, detail).
    """
    found = []
    if not keys:
        return found
    S = {}
    for k0, k1, lab in keys:
        S.setdefault((k0, k1), lab)
    arr = np.array([[k0, k1] for (k0, k1) in S], np.uint32)
    labs = list(S.values())

    # (1) no recorded key is derivable from another recorded key
    for d, desc in enumerate(_desc(children, arr, depth), start=1):
        for i in range(len(arr)):
            for k in map(tuple, desc[i].tolist()):
                if k in S and S[k] is not labs[i]:
                    a, b = labs[i], S[k]
                    found.append(
                        (
                            f"derivable-{b[0]}:{b[3]}-from-{a[0]}:{a[3]}-depth{d}",
                            f"key of {b} is split-derivable (depth {d}) from the key of {a}",
                            {"parent": a, "child": b},
                        )
                    )
                    break
            if found:
                break
        if found:
            break

    # (2) no key recorded so far equals / is derivable from the live carry
    last = len(carries) - 1
    for e, car in enumerate(carries):
        car = np.asarray(car, np.uint32).reshape(-1, 2)
        before = {}
        for (k0, k1), lab in S.items():
            if lab[0] == "kernel":
                if lab[4] < int(counts[e][lab[2]][lab[1]]):
                    before[(k0, k1)] = lab
            elif lab[0] == "jitter" or e == last:
                before[(k0, k1)] = lab
        hit = None
        for c in range(len(car)):
            k = tuple(int(v) for v in car[c])
            if k in before:
                hit = (0, c, before[k])
        if hit is None:
            for d, desc in enumerate(_desc(children, car, depth), start=1):
                for c in range(len(car)):
                    for k in map(tuple, desc[c].tolist()):
                        if k in before:
                            hit = (d, c, before[k])
                            break
                    if hit:
                        break
                if hit:
                    break
        if hit:
            d, c, lab = hit
            found.append(
                (
                    f"derivable-{lab[0]}:{lab[3]}-from-live-carry-depth{d}",
                    f"key of {lab} {'equals' if d == 0 else 'is split-derivable (depth %d) from' % d} Engine._prng_key of chain {c} as it stands after {e} epochs, i.e. future keys repeat it",
                    {"carry_after_epochs": e, "chain": c, "key_of": lab},
                )
            )
            break

    # (3) no recorded key equals a builder-level key or a direct child of one
    bk = np.asarray(builder_keys, np.uint32).reshape(-1, 2)
    names = ["_prng_key", "_engine_key", "_jitter_key"]
    for i in range(len(bk)):
        k = tuple(int(v) for v in bk[i])
        if k in S:
            found.append((f"equals-builder{names[i]}-{S[k][0]}:{S[k][3]}", f"key of {S[k]} is the builder's {names[i]}", {"key_of": S[k]}))
    desc = _desc(children, bk, 1)[0]
    for i in range(len(bk)):
        for k in map(tuple, desc[i].tolist()):
            if k in S:
                found.append((f"child-of-builder{names[i]}-{S[k][0]}:{S[k][3]}", f"key of {S[k]} is a direct split of the builder's {names[i]} (shared by all chains)", {"key_of": S[k]}))
                break
    return found
