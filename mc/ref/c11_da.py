"""
Reference dual averaging for C11: the Nesterov dual-averaging recurrence as written in
Hoffman & Gelman (2014, Algorithm 5/6) and in Stan's ``stepsize_adaptation`` class
(``learn_stepsize`` / ``complete_adaptation``), float64, plain Python. No liesel / jax.

    restart(eps):  mu = log(10 eps); s_bar = 0; x_bar = 0; counter = 0
    learn(a):      counter += 1
                   eta   = 1 / (counter + t0)
                   s_bar = (1 - eta) s_bar + eta (delta - a)
                   x     = mu - s_bar sqrt(counter) / gamma
                   x_eta = counter ** (-kappa)
                   x_bar = (1 - x_eta) x_bar + x_eta x
                   eps   = exp(x)
    complete():    eps = exp(x_bar)

(Stan additionally clamps a at 1; the alphabet never exceeds 1.)
"""

from __future__ import annotations

import math


class RefDA:
    def __init__(self, delta: float, gamma: float, kappa: float, t0: float):
        self.delta, self.gamma, self.kappa, self.t0 = float(delta), float(gamma), float(kappa), float(t0)
        self.eps = None
        self.mu = None
        self.s_bar = 0.0
        self.x_bar = 0.0
        self.counter = 0

    def copy(self) -> "RefDA":
        c = RefDA(self.delta, self.gamma, self.kappa, self.t0)
        c.eps, c.mu, c.s_bar, c.x_bar, c.counter = self.eps, self.mu, self.s_bar, self.x_bar, self.counter
        return c

    def restart(self, eps: float) -> "RefDA":
        self.eps = float(eps)
        self.mu = math.log(10.0 * self.eps)
        self.s_bar = 0.0
        self.x_bar = 0.0
        self.counter = 0
        return self

    def learn(self, a: float) -> "RefDA":
        a = min(1.0, float(a))
        self.counter += 1
        eta = 1.0 / (self.counter + self.t0)
        self.s_bar = (1.0 - eta) * self.s_bar + eta * (self.delta - a)
        x = self.mu - self.s_bar * math.sqrt(self.counter) / self.gamma
        x_eta = self.counter ** (-self.kappa)
        self.x_bar = (1.0 - x_eta) * self.x_bar + x_eta * x
        self.eps = math.exp(x)
        return self

    def complete(self) -> "RefDA":
        """Only defined after at least one learn() (counter >= 1)."""
        self.eps = math.exp(self.x_bar)
        return self

    # the sum of (delta - a_i), the quantity liesel stores instead of s_bar
    @property
    def error_sum(self) -> float:
        return self.s_bar * (self.counter + self.t0) if self.counter else 0.0
