"""
Reference model for C05 (plain Python floats = IEEE double, no liesel / jax imports).

The Metropolis-Hastings rule exactly as the property states it:

    r = (lp_proposed - lp_current) + log_correction          (inf - inf = NaN)
    r is NaN   -> error code 90, acceptance probability 0, rejected
    otherwise  -> error code 0,  alpha = min(1, exp(r)) in [0, 1]
    alpha == 0 -> never accepted;  alpha == 1 -> always accepted;
    else accepted iff u < alpha   (u == alpha exactly: either outcome is allowed)
"""

from __future__ import annotations

import math

NAN_CODE = 90


def f(x) -> float:
    """JSON label -> float ('nan', 'inf', '-inf' or a number)."""
    return float(x)


def log_ratio(cur: float, prop: float, corr: float) -> float:
    return (prop - cur) + corr


def rule(cur: float, prop: float, corr: float) -> dict:
    """Error code and acceptance probability demanded by the property."""
    r = log_ratio(cur, prop, corr)
    if math.isnan(r):
        return {"r": r, "code": NAN_CODE, "alpha": 0.0, "regime": "nan"}
    if r >= 0.0:
        return {"r": r, "code": 0, "alpha": 1.0, "regime": "one"}
    if r == -math.inf:
        return {"r": r, "code": 0, "alpha": 0.0, "regime": "zero"}
    return {"r": r, "code": 0, "alpha": math.exp(r), "regime": "interior"}


def decision(alpha: float, u: float):
    """True = must accept, False = must reject, None = either (u == alpha in (0,1))."""
    if not (alpha > 0.0):
        return False
    if alpha >= 1.0:
        return True
    if u < alpha:
        return True
    if u > alpha:
        return False
    return None


# ---------------------------------------------------------------------------------
# closed-form log densities of the test models (float64)
# ---------------------------------------------------------------------------------

LOG_2PI = math.log(2.0 * math.pi)


def liesel_lp(x: float, ys=(1.0, 2.0), slope=3.0) -> float:
    """x ~ Uniform(0, 1) (hard support boundary), y_i ~ Normal(slope * x, 1)."""
    if math.isnan(x):
        return math.nan
    if x < 0.0 or x > 1.0:
        return -math.inf
    return sum(-0.5 * (y - slope * x) ** 2 - 0.5 * LOG_2PI for y in ys)


def boundary_lp(x: float) -> float:
    """Kernel test target: NaN for x > 4, -x^2/2 on (0, 4], -inf for x <= 0."""
    if math.isnan(x) or x > 4.0:
        return math.nan
    if x > 0.0:
        return -0.5 * x * x
    return -math.inf
