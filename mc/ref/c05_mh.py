"""
Reference model for C05 (plain Python floats = IEEE double, no liesel / jax imports).

The Metropolis-Hastings rule exactly as the property states it:

    r = (lp_proposed - lp_current) + log_correction          (inf - inf = NaN)
    r is NaN   -> error code 90, acceptance probability 0, rejected
    otherwise  -> error code 0,  alpha = min(1, exp(r)) in [0, 1]
    alpha == 0 -> never accepted;  alpha == 1 -> always accepted;
    else accepted iff u < alpha   (u == alpha exactly: either outcome is allowed)
"""

from __future__ import annotations

import math

NAN_CODE = 90


def f(x) -> float:
    """JSON label -> float ('nan', 'inf', '-inf' or a number)."""
    return float(x)


def log_ratio(cur: float, prop: float, corr: float) -> float:
    return (prop - cur) + corr


def rule(cur: float, prop: float, corr: float) -> dict:
    """Error code and acceptance probability demanded by the property."""
    r = log_ratio(cur, prop, corr)
    if math.isnan(r):
        return {"r": r, "code": NAN_CODE, "alpha": 0.0, "regime": "nan"}
    if r >= 0.0:
        return {"r": r, "code": 0, "alpha": 1.0, "regime": "one"}
    if r == -math.inf:
        return {"r": r, "code": 0, "alpha": 0.0, "regime": "zero"}
    return {"r": r, "code": 0, "alpha": math.exp(r), "regime": "interior"}


def decision(alpha: float, u: float):
    """True = must accept, False = must reject, None = either (u == alpha in (0,1))."""
    if not (alpha > 0.0):
        return False
    if alpha >= 1.0:
        return True
    if u < alpha:
        return True
    if u > alpha:
        return False
    return None


# ---------------------------------------------------------------------------------
# closed-form log densities of the test models (float64)
# ---------------------------------------------------------------------------------

LOG_2PI = math.log(2.0 * math.pi)


def liesel_lp(x: float, ys=(1.0, 2.0), slope=3.0) -> float:
    """x ~ Uniform(0, 1) (hard support boundary), y_i ~ Normal(slope * x, 1)."""
    if math.isnan(x):
        return math.nan
    if x < 0.0 or x > 1.0:
        return -math.inf
    return sum(-0.5 * (y - slope * x) ** 2 - 0.5 * LOG_2PI for y in ys)


def boundary_lp(x: float) -> float:
    """Kernel test target: NaN for x > 4, -x^2/2 on (0, 4], -inf for x <= 0."""
    if math.isnan(x) or x > 4.0:
        return math.nan
    if x > 0.0:
        return -0.5 * x * x
    return -math.inf


# ---------------------------------------------------------------------------------
# smooth double well for the IWLS kernel: log pi(x) = -(x^2 - 1)^2. The information
# (negative Hessian) 12 x^2 - 4 is positive only for |x| > 1/sqrt(3); where it is not,
# the IWLS proposal density q(. | x) does not exist and every ratio that needs it is
# undefined (NaN).
# ---------------------------------------------------------------------------------


def dw_lp(x: float) -> float:
    return math.nan if math.isnan(x) else -((x * x - 1.0) ** 2)


def dw_score(x: float) -> float:
    return -4.0 * x * (x * x - 1.0)


def dw_info(x: float) -> float:
    return 12.0 * x * x - 4.0


def dw_mean_sd(x: float, s: float):
    """Mean and standard deviation of the documented IWLS proposal q(. | x), or None."""
    f = dw_info(x)
    if math.isnan(f) or f <= 0.0:
        return None
    return x + 0.5 * s * s * dw_score(x) / f, s / math.sqrt(f)


def dw_proposal(x: float, s: float, z: float) -> float:
    ms = dw_mean_sd(x, s)
    return math.nan if ms is None else ms[0] + ms[1] * z


def dw_log_q(to: float, frm: float, s: float) -> float:
    ms = dw_mean_sd(frm, s)
    if ms is None or math.isnan(to):
        return math.nan
    mu, sd = ms
    return -0.5 * ((to - mu) / sd) ** 2 - math.log(sd) - 0.5 * LOG_2PI


def dw_correction(x: float, xp: float, s: float) -> float:
    """log q(x | x') - log q(x' | x); NaN (undefined) if either density does not exist."""
    return dw_log_q(x, xp, s) - dw_log_q(xp, x, s)
