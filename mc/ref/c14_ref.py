"""
Reference for C14 (plain numpy float64 / scipy; no liesel, no jax, no TFP):
base log-densities and bijectors b with their log-derivatives in closed form.

Change of variables: if x = b(t) and x ~ p, the density of t is
    log q(t) = log p(b(t)) + log |b'(t)|.
"""

from __future__ import annotations

import math

import numpy as np
from scipy import stats

# ---------------------------------------------------------------------------------
# base densities (TFP parameter names)
# ---------------------------------------------------------------------------------


def base_logpdf(family: str, x, p: dict):
    x = np.asarray(x, np.float64)
    if family == "HalfCauchy":
        return stats.halfcauchy.logpdf(x, loc=p["loc"], scale=p["scale"])
    if family == "InverseGamma":
        return stats.invgamma.logpdf(x, p["concentration"], scale=p["scale"])
    if family == "Gamma":
        return stats.gamma.logpdf(x, p["concentration"], scale=1.0 / p["rate"])
    if family == "HalfNormal":
        return stats.halfnorm.logpdf(x, scale=p["scale"])
    if family == "Exponential":
        return stats.expon.logpdf(x, scale=1.0 / p["rate"])
    if family == "LogNormal":
        return stats.lognorm.logpdf(x, p["scale"], scale=math.exp(p["loc"]))
    if family == "Beta":
        return stats.beta.logpdf(x, p["concentration1"], p["concentration0"])
    if family == "Uniform":
        return stats.uniform.logpdf(x, loc=p["low"], scale=p["high"] - p["low"])
    if family == "Normal":
        return stats.norm.logpdf(x, loc=p["loc"], scale=p["scale"])
    if family == "TruncatedNormal":
        a = (p["low"] - p["loc"]) / p["scale"]
        b = (p["high"] - p["loc"]) / p["scale"]
        return stats.truncnorm.logpdf(x, a, b, loc=p["loc"], scale=p["scale"])
    raise KeyError(family)


# ---------------------------------------------------------------------------------
# bijectors: forward b(t), log|b'(t)|, inverse
# ---------------------------------------------------------------------------------


def _softplus(t):
    return np.logaddexp(0.0, t)


def _log_sigmoid(t):
    return -np.logaddexp(0.0, -t)


class Bij:
    """name in {Exp, Softplus, Sigmoid, AlgebraicSigmoid, Tanh, Scale, Shift, Identity,
    ShiftExp (x = loc + exp t), ReciprocalSoftplus (x = 1 / softplus t)}"""

    def __init__(self, name: str, **p):
        self.name, self.p = name, {k: float(v) for k, v in p.items()}

    def forward(self, t):
        t = np.asarray(t, np.float64)
        n, p = self.name, self.p
        if n == "Exp":
            return np.exp(t)
        if n == "Softplus":
            c = p.get("hinge_softness", 1.0)
            return c * _softplus(t / c)
        if n == "Sigmoid":
            lo, hi = p.get("low", 0.0), p.get("high", 1.0)
            return lo + (hi - lo) * np.exp(_log_sigmoid(t))
        if n == "AlgebraicSigmoid":
            return t / np.sqrt(1.0 + t * t)
        if n == "Tanh":
            return np.tanh(t)
        if n == "Scale":
            return p["scale"] * t
        if n == "Shift":
            return p["shift"] + t
        if n == "Identity":
            return t + 0.0
        if n == "ShiftExp":
            return p["loc"] + np.exp(t)
        if n == "ReciprocalSoftplus":
            return 1.0 / _softplus(t)
        raise KeyError(n)

    def logdet(self, t):
        """log |b'(t)|, closed form."""
        t = np.asarray(t, np.float64)
        n, p = self.name, self.p
        if n in ("Exp", "ShiftExp"):
            return t + 0.0
        if n == "Softplus":
            c = p.get("hinge_softness", 1.0)
            return _log_sigmoid(t / c)
        if n == "Sigmoid":
            lo, hi = p.get("low", 0.0), p.get("high", 1.0)
            return math.log(hi - lo) + _log_sigmoid(t) + _log_sigmoid(-t)
        if n == "AlgebraicSigmoid":
            return -1.5 * np.log1p(t * t)
        if n == "Tanh":
            return 2.0 * (math.log(2.0) - t - _softplus(-2.0 * t))
        if n == "Scale":
            return np.full_like(t, math.log(abs(p["scale"])))
        if n in ("Shift", "Identity"):
            return np.zeros_like(t)
        if n == "ReciprocalSoftplus":
            return _log_sigmoid(t) - 2.0 * np.log(_softplus(t))
        raise KeyError(n)

    def inverse(self, x):
        x = np.asarray(x, np.float64)
        n, p = self.name, self.p
        if n == "Exp":
            return np.log(x)
        if n == "Softplus":
            c = p.get("hinge_softness", 1.0)
            return c * np.log(np.expm1(x / c))
        if n == "Sigmoid":
            lo, hi = p.get("low", 0.0), p.get("high", 1.0)
            u = (x - lo) / (hi - lo)
            return np.log(u) - np.log1p(-u)
        if n == "AlgebraicSigmoid":
            return x / np.sqrt((1.0 - x) * (1.0 + x))
        if n == "Tanh":
            return np.arctanh(x)
        if n == "Scale":
            return x / p["scale"]
        if n == "Shift":
            return x - p["shift"]
        if n == "Identity":
            return x + 0.0
        if n == "ShiftExp":
            return np.log(x - p["loc"])
        if n == "ReciprocalSoftplus":
            return np.log(np.expm1(1.0 / x))
        raise KeyError(n)


def default_bijector(family: str, p: dict) -> Bij:
    """TFP's documented default event-space bijector of the family."""
    if family == "HalfCauchy":
        return Bij("ShiftExp", loc=p["loc"])
    if family == "InverseGamma":
        return Bij("ReciprocalSoftplus")
    if family in ("Gamma", "HalfNormal", "Exponential"):
        return Bij("Softplus")
    if family == "LogNormal":
        return Bij("Exp")
    if family == "Beta":
        return Bij("Sigmoid")
    if family in ("Uniform", "TruncatedNormal"):
        return Bij("Sigmoid", low=p["low"], high=p["high"])
    if family == "Normal":
        return Bij("Identity")
    raise KeyError(family)


def transformed_logpdf(family: str, p: dict, b: Bij, t):
    """Elementwise log-density of the unconstrained variable at t."""
    x = b.forward(t)
    return base_logpdf(family, x, p) + b.logdet(t)


def selftest() -> None:
    """Closed-form log-derivatives against central differences; inverse o forward;
    every transformed density integrates to one (trapezoid on a wide grid)."""
    ts = np.array([-3.0, -1.0, -0.25, 0.0, 0.5, 1.5, 4.0])
    bs = [Bij("Exp"), Bij("Softplus"), Bij("Softplus", hinge_softness=0.7), Bij("Sigmoid"), Bij("Sigmoid", low=0.5, high=3.0),
          Bij("AlgebraicSigmoid"), Bij("Tanh"), Bij("Scale", scale=2.0), Bij("Shift", shift=-0.5), Bij("Identity"),
          Bij("ShiftExp", loc=1.0), Bij("ReciprocalSoftplus")]
    for b in bs:
        h = 1e-5
        num = (b.forward(ts + h) - b.forward(ts - h)) / (2 * h)
        if not np.allclose(np.log(np.abs(num)), b.logdet(ts), atol=1e-6):
            raise AssertionError(f"reference log-derivative of {b.name}")
        if not np.allclose(b.inverse(b.forward(ts)), ts, atol=1e-6):
            raise AssertionError(f"reference inverse of {b.name}")
    grid = np.linspace(-40.0, 40.0, 400001)
    cases = [("Gamma", {"concentration": 2.5, "rate": 1.5}, Bij("Softplus", hinge_softness=0.7)),
             ("InverseGamma", {"concentration": 3.0, "scale": 2.0}, Bij("ReciprocalSoftplus")),
             ("Beta", {"concentration1": 2.0, "concentration0": 3.5}, Bij("Sigmoid")),
             ("Normal", {"loc": 0.4, "scale": 1.3}, Bij("Scale", scale=2.0)),
             ("Uniform", {"low": -1.0, "high": 1.0}, Bij("AlgebraicSigmoid")),
             ("HalfCauchy", {"loc": 1.0, "scale": 2.5}, Bij("ShiftExp", loc=1.0))]
    for fam, p, b in cases:
        with np.errstate(all="ignore"):
            q = np.exp(transformed_logpdf(fam, p, b, grid))
        q = np.where(np.isfinite(q), q, 0.0)
        m = float(np.sum(0.5 * (q[1:] + q[:-1]) * np.diff(grid)))
        tol = 2e-2 if b.name == "AlgebraicSigmoid" else 1e-4  # heavy t^-3 tails beyond +-40
        if abs(m - 1.0) > tol:
            raise AssertionError(f"reference transformed density of {fam} under {b.name} integrates to {m}")
