"""
Reference model for C16 (plain Python, no liesel imports).

* ``reasons(seq)`` / ``valid(seq)``: the validity predicate for an epoch schedule exactly
  as the property states it. A schedule is a sequence of (type, duration, thinning) with
  type in 0..4 = INITIAL_VALUES, FAST_ADAPTATION, SLOW_ADAPTATION, BURNIN, POSTERIOR.
* ``Clock``: what ``EpochManager.next()`` must hand out (consecutive indices, start
  times = prefix sums of the durations handed out before).
* ``stan_raises`` / ``stan_admissible`` / ``stan_schedule``: Stan-style warm-up
  arithmetic in closed form (no loop that mirrors the implementation).
"""

from __future__ import annotations

INITIAL, FAST, SLOW, BURNIN, POSTERIOR = range(5)
WARMUP_TYPES = (FAST, SLOW, BURNIN)
TYPE_NAMES = ("INITIAL_VALUES", "FAST_ADAPTATION", "SLOW_ADAPTATION", "BURNIN", "POSTERIOR")


def reasons(seq) -> tuple[str, ...]:
    """All clauses of the validity predicate that ``seq`` violates (empty = valid)."""
    out = []
    if len(seq) == 0:
        return ("empty",)
    t0, d0, _ = seq[0]
    if t0 != INITIAL:
        out.append("first-not-initial")
    elif d0 != 1:
        out.append("initial-duration-not-1")
    if any(t == INITIAL for t, _, _ in seq[1:]):
        out.append("second-initial")
    if any(d < 1 for _, d, _ in seq):
        out.append("duration<1")
    if any(th < 1 for _, _, th in seq):
        out.append("thinning<1")
    if any(th > d for _, d, th in seq if d >= 1 and th >= 1):
        out.append("thinning>duration")
    if any(d % th != 0 for t, d, th in seq if t == POSTERIOR and 1 <= th <= d):
        out.append("posterior-thinning-not-dividing")
    post = [i for i, (t, _, _) in enumerate(seq) if t == POSTERIOR]
    if post and any(t in WARMUP_TYPES for t, _, _ in seq[post[0] + 1:]):
        out.append("warmup-after-posterior")
    return tuple(out)


def valid(seq) -> bool:
    return not reasons(seq)


class Clock:
    """Reference for EpochManager.next(): index and start time of the k-th hand-out."""

    def __init__(self):
        self.accepted: list = []
        self.handed = 0

    def append(self, cfg) -> bool:
        ok = valid(self.accepted + [cfg])
        if ok:
            self.accepted.append(cfg)
        return ok

    def has_more(self) -> bool:
        return self.handed < len(self.accepted)

    def next(self):
        """None if nothing is left, else (index, start_time, config)."""
        if not self.has_more():
            return None
        k = self.handed
        start = sum(d for _, d, _ in self.accepted[:k])
        self.handed += 1
        return (k, start, self.accepted[k])


# ---------------------------------------------------------------------------------
# Stan warm-up
# ---------------------------------------------------------------------------------


def stan_raises(warmup, init, term, base) -> bool:
    """The documented error conditions of stan_epochs."""
    return warmup < 20 or warmup < init + term + base


def stan_admissible(warmup, posterior, init, term, base, thin_post, thin_warm) -> bool:
    return (
        min(warmup, posterior, init, term, base, thin_post, thin_warm) >= 1
        and thin_warm <= min(init, term, base)
        and posterior % thin_post == 0
        and not stan_raises(warmup, init, term, base)
    )


def slow_windows(total, base) -> list[int]:
    """
    Doubling slow windows base, 2 base, 4 base, ... filling ``total`` iterations, the
    last window absorbing the remainder. Stan's rule: a window of nominal size w is
    stretched to the end of the slow phase iff the next (doubled) window would not fit
    behind it, i.e. the last window k (nominal w_k = base 2^(k-1)) satisfies
    w_k <= last < 3 w_k. Closed form: k is the unique integer >= 1 with
    base (2^k - 1) <= total < base (2^(k+1) - 1).
    """
    if total < base or base < 1:
        raise ValueError("slow phase shorter than the base window")
    k = 1
    while not (base * (2**k - 1) <= total < base * (2 ** (k + 1) - 1)):
        k += 1
    head = [base * 2**j for j in range(k - 1)]
    last = total - sum(head)
    assert base * 2 ** (k - 1) <= last < 3 * base * 2 ** (k - 1)
    return head + [last]


def stan_schedule(warmup, posterior, init, term, base, thin_post, thin_warm):
    slow = slow_windows(warmup - init - term, base)
    return (
        [(INITIAL, 1, 1), (FAST, init, thin_warm)]
        + [(SLOW, s, thin_warm) for s in slow]
        + [(FAST, term, thin_warm), (POSTERIOR, posterior, thin_post)]
    )
