"""
Reference models for C18 (plain numpy float64 / scipy; no liesel, no jax).

* degenerate multivariate normal: range-space Gaussian density, pseudo-inverse, null space
* algebraic sigmoid  f(x) = x / sqrt(1 + x^2)  and its derivatives
* bivariate Gaussian copula density
* composite Gauss-Legendre rule on (0, 1) refined towards both ends
"""

from __future__ import annotations

import itertools
import math

import numpy as np
from scipy import stats

LOG_2PI = math.log(2.0 * math.pi)


# ---------------------------------------------------------------------------------
# penalty matrices (integer entries: exact in float32)
# ---------------------------------------------------------------------------------


def _tridiag(k: int) -> np.ndarray:
    a = 2.0 * np.eye(k)
    for i in range(k - 1):
        a[i, i + 1] = a[i + 1, i] = -1.0
    return a


def penalty(name: str, d: int) -> np.ndarray | None:
    """Returns the d x d penalty ``name`` or None if it does not exist for this d."""
    if name == "I":
        return np.eye(d)
    if name == "SPD":  # tridiag(2,-1) + a dense rank-one part; full rank, not diagonal
        if d < 2:
            return np.array([[3.0]])
        return _tridiag(d) + np.ones((d, d))
    if name == "RW1":
        if d < 2:
            return None
        D = np.diff(np.eye(d), 1, axis=0)
        return D.T @ D
    if name == "RW2":
        if d < 3:
            return None
        D = np.diff(np.eye(d), 2, axis=0)
        return D.T @ D
    if name == "ZB":  # SPD block followed by a zero block (rank 0 for d = 1)
        k = d // 2
        a = np.zeros((d, d))
        if k:
            a[:k, :k] = _tridiag(k) if k > 1 else np.array([[3.0]])
        return a
    if name == "ZB2":  # zero block first, scaled identity block last
        k = max(1, d // 2)
        a = np.zeros((d, d))
        a[k:, k:] = 4.0 * np.eye(d - k)
        return a if d > 1 else None
    raise KeyError(name)


PENALTIES = ("I", "SPD", "RW1", "RW2", "ZB", "ZB2")


def penalties(d: int) -> list[str]:
    return [n for n in PENALTIES if penalty(n, d) is not None]


# ---------------------------------------------------------------------------------
# degenerate MVN
# ---------------------------------------------------------------------------------


def spectral(P: np.ndarray) -> dict:
    """rank, log-pseudo-determinant, pseudo-inverse and orthonormal null basis of a
    symmetric positive semi-definite matrix (float64, relative tolerance 1e-9)."""
    P = np.asarray(P, dtype=np.float64)
    w, Q = np.linalg.eigh(0.5 * (P + P.T))
    cut = 1e-9 * max(1.0, float(np.max(np.abs(w))))
    pos = w > cut
    if np.any(w < -cut):
        raise ValueError("reference: matrix is not positive semi-definite")
    rank = int(np.sum(pos))
    log_pdet = float(np.sum(np.log(w[pos])))
    pinv = (Q[:, pos] / w[pos]) @ Q[:, pos].T
    null = Q[:, ~pos]
    return {"rank": rank, "log_pdet": log_pdet, "pinv": pinv, "null": null}


def mvn_logpdf(x: np.ndarray, loc: np.ndarray, P: np.ndarray) -> float:
    """log density of N(loc, P^+) with respect to Lebesgue measure on range(P)."""
    sp = spectral(P)
    xc = np.asarray(x, np.float64) - np.asarray(loc, np.float64)
    q = float(xc @ np.asarray(P, np.float64) @ xc)
    return -0.5 * (sp["rank"] * LOG_2PI - sp["log_pdet"]) - 0.5 * q


def mvn_scale(x: np.ndarray, loc: np.ndarray, P: np.ndarray) -> float:
    """Magnitude of the terms that are summed in the log density (for tolerances)."""
    sp = spectral(P)
    xc = np.abs(np.asarray(x, np.float64) - np.asarray(loc, np.float64))
    q = float(xc @ np.abs(np.asarray(P, np.float64)) @ xc)
    return 1.0 + 0.5 * q + 0.5 * sp["rank"] * LOG_2PI + 0.5 * abs(sp["log_pdet"])


def mvn_logpdf_many(X: np.ndarray, loc: np.ndarray, P: np.ndarray):
    """Vectorised over the rows of X: (log densities, tolerance scales)."""
    sp = spectral(P)
    P = np.asarray(P, np.float64)
    xc = np.asarray(X, np.float64) - np.asarray(loc, np.float64)
    q = np.einsum("ni,ij,nj->n", xc, P, xc)
    qa = np.einsum("ni,ij,nj->n", np.abs(xc), np.abs(P), np.abs(xc))
    const = -0.5 * (sp["rank"] * LOG_2PI - sp["log_pdet"])
    scale = 1.0 + 0.5 * qa + 0.5 * sp["rank"] * LOG_2PI + 0.5 * abs(sp["log_pdet"])
    return const - 0.5 * q, scale


def lattice(d: int, values=(-1.0, 0.0, 2.0)) -> np.ndarray:
    return np.array(list(itertools.product(values, repeat=d)), dtype=np.float64)


# ---------------------------------------------------------------------------------
# algebraic sigmoid
# ---------------------------------------------------------------------------------


def asig_forward(x):
    x = np.asarray(x, np.float64)
    return x / np.sqrt(1.0 + x * x)


def asig_inverse(y):
    y = np.asarray(y, np.float64)
    return y / np.sqrt((1.0 - y) * (1.0 + y))


def asig_dforward(x):
    """f'(x) = (1 + x^2)^(-3/2)."""
    x = np.asarray(x, np.float64)
    return np.exp(-1.5 * np.log1p(x * x))


def asig_dinverse(y):
    """(f^-1)'(y) = (1 - y^2)^(-3/2)."""
    y = np.asarray(y, np.float64)
    return np.exp(-1.5 * (np.log1p(-y) + np.log1p(y)))


def asig_dforward_numeric(x: float) -> float:
    """Independent of the closed form: Richardson-extrapolated central difference of
    asig_forward (used once, as a self-test of the reference)."""
    h = 1e-3 * max(1.0, abs(x))
    f = lambda t: float(asig_forward(t))  # noqa: E731
    d1 = (f(x + h) - f(x - h)) / (2 * h)
    d2 = (f(x + h / 2) - f(x - h / 2)) / h
    return (4 * d2 - d1) / 3


def asig_x_lattice() -> list[float]:
    """41 points on [-1e3, 1e3]: 0, +-1e-6, and a geometric ladder."""
    pos = [1e-6, 1e-4, 1e-3, 1e-2, 0.05, 0.1, 0.25, 0.5, 0.75, 1.0, 1.5, 2.0, 3.0, 5.0, 10.0,
           30.0, 100.0, 300.0, 700.0, 1000.0]
    return [-p for p in reversed(pos)] + [0.0] + pos


def asig_y_lattice() -> list[float]:
    """41 points in (-1, 1)."""
    pos = [1e-6, 1e-4, 1e-3, 1e-2, 0.05, 0.1, 0.2, 0.3, 0.4, 0.5, 0.6, 0.7, 0.8, 0.9, 0.95,
           0.99, 0.999, 0.9999, 0.99999, 0.999999]
    return [-p for p in reversed(pos)] + [0.0] + pos


# ---------------------------------------------------------------------------------
# Gaussian copula
# ---------------------------------------------------------------------------------


def copula_logpdf(u: float, v: float, rho: float) -> float:
    """log c(u, v; rho) = -0.5 log(1-rho^2) - (rho^2 (x^2+y^2) - 2 rho x y) / (2 (1-rho^2))"""
    x = float(stats.norm.ppf(u))
    y = float(stats.norm.ppf(v))
    om = (1.0 - rho) * (1.0 + rho)
    return -0.5 * math.log(om) - (rho * rho * (x * x + y * y) - 2.0 * rho * x * y) / (2.0 * om)


def copula_logpdf_scipy(u: float, v: float, rho: float) -> float:
    """The same through scipy's bivariate normal: log phi2(x,y;rho) - log phi(x) - log phi(y)."""
    x = float(stats.norm.ppf(u))
    y = float(stats.norm.ppf(v))
    mvn = stats.multivariate_normal(mean=[0.0, 0.0], cov=[[1.0, rho], [rho, 1.0]])
    return float(mvn.logpdf([x, y]) - stats.norm.logpdf(x) - stats.norm.logpdf(y))


def copula_scale(u: float, v: float, rho: float) -> float:
    x = float(stats.norm.ppf(u))
    y = float(stats.norm.ppf(v))
    om = (1.0 - rho) * (1.0 + rho)
    return 1.0 + abs(0.5 * math.log(om)) + (x * x + y * y + 2 * abs(x * y)) / (2.0 * om) + 0.5 * (x * x + y * y)


UNIT_LATTICE = (0.02, 0.1, 0.3, 0.5, 0.65, 0.9, 0.98)


GL_CUT = 1e-6  # the rule covers [GL_CUT, 1 - GL_CUT]


def gauss_legendre_01(nodes_per_panel: int = 11):
    """
    Composite Gauss-Legendre rule on [1e-6, 1 - 1e-6]. The panels shrink geometrically
    towards 0 and 1, so that a panel is at most ~1 unit wide on the normal-quantile scale
    and the copula density is smooth on every panel. Returns (nodes, weights); 18 panels
    x 11 nodes = 198 nodes. (The two end pieces are left out because float32 cannot
    resolve nodes closer than 6e-8 to 1; for |rho| <= 0.99 and u in [0.02, 0.98] the
    conditional mass outside the rule is < 2e-5.)
    """
    left = [GL_CUT, 1e-5, 1e-4, 1e-3, 1e-2, 0.04, 0.1, 0.2, 0.35, 0.5]
    breaks = left + [1.0 - b for b in reversed(left[:-1])]
    t, w = np.polynomial.legendre.leggauss(nodes_per_panel)
    xs, ws = [], []
    for a, b in zip(breaks[:-1], breaks[1:]):
        xs.append(0.5 * (b - a) * t + 0.5 * (a + b))
        ws.append(0.5 * (b - a) * w)
    return np.concatenate(xs), np.concatenate(ws)


def selftest() -> None:
    """Reference-internal consistency (raises on failure -> harness error)."""
    for x in asig_x_lattice():
        a, b = float(asig_dforward(x)), asig_dforward_numeric(x)
        if abs(a - b) > 1e-6 * abs(a) + 1e-300:
            raise AssertionError(f"reference derivative of the algebraic sigmoid at {x}: {a} vs {b}")
        y = float(asig_forward(x))
        if abs(float(asig_inverse(y)) - x) > 1e-6 * abs(x) * (1 + x * x):
            raise AssertionError("reference inverse")
    for rho in (-0.95, -0.5, 0.0, 0.42, 0.99):
        for u in UNIT_LATTICE:
            for v in UNIT_LATTICE:
                a, b = copula_logpdf(u, v, rho), copula_logpdf_scipy(u, v, rho)
                if abs(a - b) > 1e-8 * copula_scale(u, v, rho):
                    raise AssertionError(f"reference copula density at {(u, v, rho)}: {a} vs {b}")
    xs, ws = gauss_legendre_01()
    if abs(ws.sum() - (1.0 - 2 * GL_CUT)) > 1e-12:
        raise AssertionError("quadrature weights")
    for rho in (-0.95, 0.0, 0.99):
        for u in UNIT_LATTICE:
            m = sum(w * math.exp(copula_logpdf(u, v, rho)) for v, w in zip(xs, ws))
            if abs(m - 1.0) > 1e-4:
                raise AssertionError(f"reference marginal at u={u}, rho={rho}: {m}")
    for d in range(1, 5):
        for n in penalties(d):
            P = penalty(n, d)
            sp = spectral(P)
            if not np.allclose(P @ sp["pinv"] @ P, P, atol=1e-10):
                raise AssertionError("reference pinv")
            if sp["null"].size and not np.allclose(P @ sp["null"], 0, atol=1e-10):
                raise AssertionError("reference null space")
