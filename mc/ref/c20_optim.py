"""
Reference model for C20 (plain Python / numpy float64, no liesel, no jax).

* ``doc_stop``      - the pseudo-code in the Stopper docstring, literally.
* ``early_verdict`` - documented early-stopping verdict at iteration i: True / False /
                      None (None = not pinned by the documentation: the window is
                      complete but it is unclear whether "at least as many iterations as
                      the length of the patience window" have passed, i in {p-1, p}).
* ``allowed_stops`` - set of iterations at which a run over a given validation-loss
                      sequence may end.
* ``best_set``      - admissible values of ``iteration_best``.
* ``NormalMeanModel`` - losses of the one-parameter model used with the scripted optimiser.
"""

from __future__ import annotations

import math

import numpy as np


def doc_stop(window, atol: float, rtol: float) -> bool:
    """Docstring of liesel.goose.optim.Stopper, second pseudo-implementation."""
    recent_history = np.asarray(window, dtype=np.float64)
    oldest_within_patience = recent_history[0]
    best_within_patience = np.min(recent_history)
    diff = oldest_within_patience - best_within_patience
    with np.errstate(divide="ignore", invalid="ignore"):
        rel_diff = diff / np.abs(best_within_patience)
    abs_improvement_is_neglectable = diff <= atol
    rel_improvement_is_neglectable = rel_diff <= rtol
    return bool(abs_improvement_is_neglectable | rel_improvement_is_neglectable)


def early_verdict(history, i: int, p: int, atol: float, rtol: float):
    """history[0..i] are the recorded losses. Entries after i must not matter."""
    if i < p - 1:
        return False  # fewer than p losses recorded: no full patience window yet
    s = doc_stop(history[i - p + 1 : i + 1], atol, rtol)
    if i in (p - 1, p):
        return None if s else False
    return s


def stop_now_verdict(history, i, p, atol, rtol, max_iter):
    if i >= max_iter - 1:
        return True
    return early_verdict(history, i, p, atol, rtol)


def best_set(history, i: int, p: int):
    """Indices of the minimal loss among the last p recorded losses up to i."""
    lo = max(i - p + 1, 0)
    w = list(history[lo : i + 1])
    m = min(w)
    return {lo + k for k, v in enumerate(w) if v == m}


def allowed_stops(losses, max_iter: int, p: int, atol: float, rtol: float):
    """
    ``losses[i]`` = validation loss recorded at iteration i (0 = start). Returns the
    sorted list of iterations at which the loop may end, given that a don't-care verdict
    may go either way. The last element is the iteration at which it MUST end.
    """
    out = []
    i = 0
    while True:
        v = stop_now_verdict(losses, i, p, atol, rtol, max_iter)
        if v is True:
            out.append(i)
            return out
        if v is None:
            out.append(i)
        i += 1
        if i >= len(losses):
            raise RuntimeError("loss sequence shorter than max_iter")


class NormalMeanModel:
    """
    mu ~ N(prior_loc, prior_scale);  y_j ~ N(mu, 1).
    train loss  = -(sum_j log N(y_j; mu, 1) + log prior)
    validation  = -(n_train / n_val * sum_{j in val} log N(y_j; mu, 1) + log prior)
    """

    def __init__(self, y_train, y_val=None, prior_loc=0.0, prior_scale=10.0):
        self.yt = np.asarray(y_train, dtype=np.float64)
        self.yv = self.yt if y_val is None else np.asarray(y_val, dtype=np.float64)
        self.m, self.s = float(prior_loc), float(prior_scale)

    @staticmethod
    def _lognorm(x, loc, scale):
        z = (x - loc) / scale
        return -0.5 * z * z - math.log(scale) - 0.5 * math.log(2 * math.pi)

    def log_prior(self, mu):
        return float(self._lognorm(mu, self.m, self.s))

    def log_lik_train(self, mu):
        return float(np.sum(self._lognorm(self.yt, mu, 1.0)))

    def loss_train(self, mu):
        return -(self.log_lik_train(mu) + self.log_prior(mu))

    def loss_val(self, mu):
        ll = float(np.sum(self._lognorm(self.yv, mu, 1.0)))
        return -(len(self.yt) / len(self.yv) * ll + self.log_prior(mu))
