"""
Reference model of the Goose engine lifecycle (plain Python / numpy; no liesel, no jax).

Given a schedule, a kernel sequence of *tracer kernels* (mc/enginelab.py) and a chain
index, ``simulate`` produces

* per kernel the exact list of lifecycle calls the documentation promises, as rows
  ``{field: int | None}`` (``None`` = not pinned by the property), and
* the position chain the engine has to store (initial values, then per epoch the states
  after within-epoch iterations k, 2k, ... for thinning k), per epoch.

The tracer kernels are deterministic: in chain c, epoch number e, within-epoch
iteration t (0-based) a kernel writes, for each of its keys and flat element j,

    100000*code[key] + 10000*j + 1000*c + 100*e + (t+1)

so the model state is fully described by a *stamp* (e, t+1) per key; (0, 0) is the
initial value.
"""

from __future__ import annotations

import numpy as np

KEY_CODE = {"x": 1, "y": 2, "z": 3, "w": 4, "v": 5}

EV_START, EV_TRANS_STD, EV_TRANS_ADAPT, EV_END = 1, 2, 3, 4
EV_TUNE_FAST, EV_TUNE_SLOW, EV_END_WARMUP, EV_TRANS_PLAIN, EV_TUNE_PLAIN = 5, 6, 7, 8, 9
EV_NAMES = {
    1: "start", 2: "trans_std", 3: "trans_adapt", 4: "end", 5: "tune_fast",
    6: "tune_slow", 7: "end_warmup", 8: "trans", 9: "tune",
}
TYPES = {"INITIAL_VALUES": 0, "FAST_ADAPTATION": 1, "SLOW_ADAPTATION": 2, "BURNIN": 3, "POSTERIOR": 4}
ADAPTATION = ("FAST_ADAPTATION", "SLOW_ADAPTATION")

FIELDS = (
    "event", "nth_epoch", "type", "duration", "thinning", "time", "time_before", "time_in",
    "key0", "key1", "hist_len", "hist_digest", "seen0", "seen1", "tune_len", "tune_time",
)


def value(key, shape, c, e, t1):
    shape = tuple(shape)
    n = 1
    for s in shape:
        n *= s
    j = np.arange(n, dtype=np.int64).reshape(shape)
    return (100000 * KEY_CODE[key] + 10000 * j + 1000 * c + 100 * e + t1).astype(np.float64)


def first_element(key, c, stamp):
    e, t1 = stamp
    return 100000 * KEY_CODE[key] + 1000 * c + 100 * e + t1


def wrap32(x):
    return ((int(x) + 2**31) % 2**32) - 2**31


def digest(history_first):
    """history_first: {key: [first element at stored time 0, 1, ...]}"""
    tot = 0
    for p, k in enumerate(sorted(history_first)):
        for t, first in enumerate(history_first[k]):
            tot += (31 * (t + 1) + 7 * p + 1) * int(first)
    return wrap32(tot)


def stored_iterations(duration, thinning):
    """1-based within-epoch iterations whose state is stored under thinning k."""
    return [t1 for t1 in range(1, duration + 1) if t1 % thinning == 0]


def valid_schedule(schedule):
    """The validity predicate of the documentation (EpochManager invariants)."""
    if not schedule or schedule[0][0] != "INITIAL_VALUES" or schedule[0][1] != 1:
        return False
    seen_post = False
    for i, (typ, dur, thin) in enumerate(schedule):
        if i > 0 and typ == "INITIAL_VALUES":
            return False
        if dur < 1 or thin < 1 or dur < thin:
            return False
        if typ == "POSTERIOR":
            seen_post = True
            if dur % thin:
                return False
        elif seen_post:
            return False
    return True


def simulate(schedule, kernels, shapes, tracked, chain):
    """
    schedule  [[type name, duration, thinning], ...] starting with the initial epoch
    kernels   [{"keys": [...], "style": "mixin"|"plain", "needs_history": bool}, ...]
    shapes    {key: shape} of every model-state key
    tracked   keys stored in the position chain
    chain     chain index c

    Returns dict(events=[rows per kernel], epochs=[per epoch dict(type, stamps=[{key:
    stamp} per stored state], n_transitions)]).
    """
    c = chain
    seen_keys = [k["keys"][0] for k in kernels][:2]
    stamp = {k: (0, 0) for k in shapes}
    events = [[] for _ in kernels]
    epochs = []
    any_history = any(k.get("needs_history", False) for k in kernels)

    def seen():
        vals = [first_element(k, c, stamp[k]) for k in seen_keys]
        return (vals + [0, 0])[:2]

    def row(event, e=None, cfg=None, tb=None, time=None, time_in=None, **kw):
        r = {f: None for f in FIELDS}
        r["event"] = event
        if cfg is not None:
            r["nth_epoch"] = e
            r["type"] = TYPES[cfg[0]]
            r["duration"] = cfg[1]
            r["thinning"] = cfg[2]
            r["time_before"] = tb
            r["time"] = time
            r["time_in"] = time_in
        r["seen0"], r["seen1"] = seen()
        # defaults of the fields that only some calls carry
        r["hist_len"], r["hist_digest"] = -1, 0
        r["tune_len"], r["tune_time"] = -1, None
        r.update(kw)
        return r

    # initial-values epoch: no kernel call at all; stores the initial position
    epochs.append({"type": schedule[0][0], "thinning": schedule[0][2], "duration": 1,
                   "stamps": [dict(stamp)], "n_transitions": 0})
    time_now = 1  # the initial epoch counts 1
    warmup_ended = False
    n_tunings = 0

    for e, cfg in enumerate(schedule[1:], start=1):
        typ, dur, thin = cfg
        tb = time_now
        if typ == "POSTERIOR" and not warmup_ended:
            for i, _ in enumerate(kernels):
                events[i].append(row(EV_END_WARMUP, tune_len=(n_tunings if n_tunings else -1),
                                     hist_len=None, hist_digest=None))
            warmup_ended = True
        for i, _ in enumerate(kernels):
            events[i].append(row(EV_START, e, cfg, tb))
        stored = []
        adaptation = typ in ADAPTATION
        for t in range(dur):
            for i, ker in enumerate(kernels):
                if ker.get("style", "mixin") == "mixin":
                    ev = EV_TRANS_ADAPT if adaptation else EV_TRANS_STD
                else:
                    ev = EV_TRANS_PLAIN
                events[i].append(row(ev, e, cfg, tb, time=tb + t, time_in=t))
                for k in ker["keys"]:
                    stamp[k] = (e, t + 1)
            if (t + 1) % thin == 0:
                stored.append(dict(stamp))
        time_now = tb + dur
        for i, _ in enumerate(kernels):
            events[i].append(row(EV_END, e, cfg, tb))
        if adaptation:
            n_tunings += 1
            hist_first = {k: [first_element(k, c, s[k]) for s in stored] for k in tracked}
            for i, ker in enumerate(kernels):
                if ker.get("style", "mixin") == "mixin":
                    ev = EV_TUNE_SLOW if typ == "SLOW_ADAPTATION" else EV_TUNE_FAST
                else:
                    ev = EV_TUNE_PLAIN
                if ker.get("needs_history", False):
                    hl, hd = len(stored), digest(hist_first)
                elif any_history:
                    hl, hd = None, None     # another kernel asked; not pinned for this one
                else:
                    hl, hd = None, None     # nobody asked: what is passed is not pinned
                events[i].append(row(ev, e, cfg, tb, hist_len=hl, hist_digest=hd))
        epochs.append({"type": typ, "thinning": thin, "duration": dur, "stamps": stored, "n_transitions": dur})
    return {"events": events, "epochs": epochs}


def expected_positions(sim, tracked, shapes, chain, posterior_only=False):
    """{key: float64 array [time, ...]} the position chain must hold for this chain."""
    out = {}
    for k in tracked:
        vals = []
        for ep in sim["epochs"]:
            if posterior_only and ep["type"] != "POSTERIOR":
                continue
            for s in ep["stamps"]:
                vals.append(value(k, shapes[k], chain, *s[k]))
        out[k] = np.stack(vals) if vals else np.zeros((0,) + tuple(shapes[k]))
    return out


def compare_events(expected, observed):
    """
    Returns None if the observed rows match, else (signature, message).
    Signatures: "<event>-count" (a call is missing / extra), "order@<i>" (right multiset,
    wrong order), "<event>-<field>" (a pinned argument is wrong).
    """
    def counts(rows):
        d = {}
        for r in rows:
            d[r["event"]] = d.get(r["event"], 0) + 1
        return d

    ce, co = counts(expected), counts(observed)
    for ev in sorted(set(ce) | set(co)):
        if ce.get(ev, 0) != co.get(ev, 0):
            return (f"{EV_NAMES.get(ev, ev)}-count",
                    f"{co.get(ev, 0)} {EV_NAMES.get(ev, ev)} call(s), expected {ce.get(ev, 0)}")
    for i, (re_, ro) in enumerate(zip(expected, observed)):
        if re_["event"] != ro["event"]:
            return (f"order-{EV_NAMES[re_['event']]}-expected-{EV_NAMES.get(ro['event'], ro['event'])}-seen",
                    f"call #{i}: expected {EV_NAMES[re_['event']]}, observed {EV_NAMES.get(ro['event'], ro['event'])}")
        for f in FIELDS:
            if re_[f] is not None and re_[f] != ro[f]:
                return (f"{EV_NAMES[re_['event']]}-{f}",
                        f"call #{i} ({EV_NAMES[re_['event']]}, epoch {ro['nth_epoch']}): {f} = {ro[f]}, expected {re_[f]}")
    return None
