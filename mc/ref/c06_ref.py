"""
Reference model for C06 (proposal corrections of RW / IWLS / MH kernels).

Plain numpy float64 / scipy only - no liesel, no jax. Everything is written from the
statistical definition:

* model families with analytic log-density (up to a constant), gradient and Hessian
  over a parameter vector theta in R^d, with one extra scalar ``off`` that is never
  part of a kernel block (it enters the linear predictor / the mean),
* Gaussian proposal densities N(mean, cov) parameterised by the covariance,
* the documented proposal laws of RW / IWLS and of the user proposals used for MH,
* the Metropolis-Hastings ratio.
"""

from __future__ import annotations

import math

import numpy as np

# ---------------------------------------------------------------------------------
# constants shared with the jax twin of each family (the check builds its jnp model from
# the same numbers; the formulas are written twice on purpose)
# ---------------------------------------------------------------------------------

X_ROWS = [
    [1.0, -0.5, 0.3],
    [1.0, 0.8, -1.1],
    [1.0, 0.1, 0.9],
    [1.0, -1.2, -0.4],
    [1.0, 1.5, 0.2],
]
Y_BIN = [1.0, 0.0, 1.0, 1.0, 0.0]
Y_CNT = [2.0, 0.0, 5.0, 1.0, 3.0]
TAU = 1.5  # prior sd of the regression coefficients
G_MEAN = [0.4, -0.3, 0.8]
G_PREC = [
    [2.0, 0.6, -0.3],
    [0.6, 1.0, 0.2],
    [-0.3, 0.2, 1.5],
]
G_OFFDIR = [0.5, -0.25, 1.0]  # the mean is shifted by off * G_OFFDIR
GP_A = [2.0, 3.5, 1.2]  # Gamma shape per component
GP_B = [1.0, 0.5, 2.0]  # Gamma rate per component
GP_Y = [[3.0, 1.0, 4.0], [0.0, 2.0, 1.0], [6.0, 5.0, 7.0]]  # counts per component


class Family:
    """log pi(theta | off) up to a constant, gradient and Hessian (float64)."""

    def __init__(self, name: str, d: int):
        self.name = name
        self.d = d
        if name in ("logit", "pois"):
            self.X = np.array(X_ROWS, dtype=np.float64)[:, :d]
            self.y = np.array(Y_BIN if name == "logit" else Y_CNT, dtype=np.float64)
        elif name == "gauss":
            self.m = np.array(G_MEAN, dtype=np.float64)[:d]
            self.P = np.array(G_PREC, dtype=np.float64)[:d, :d]
            self.dir = np.array(G_OFFDIR, dtype=np.float64)[:d]
        elif name == "gampois":
            self.a = np.array(GP_A, dtype=np.float64)[:d]
            self.b = np.array(GP_B, dtype=np.float64)[:d]
            self.ysum = np.array([sum(r) for r in GP_Y], dtype=np.float64)[:d]
            self.n = np.array([len(r) for r in GP_Y], dtype=np.float64)[:d]
        else:
            raise ValueError(name)

    # -- density -------------------------------------------------------------------
    def logp(self, th, off) -> float:
        th = np.asarray(th, dtype=np.float64)
        if self.name == "gauss":
            r = th - (self.m + off * self.dir)
            return float(-0.5 * r @ self.P @ r)
        if self.name == "logit":
            eta = self.X @ th + off
            ll = np.sum(self.y * eta - np.logaddexp(0.0, eta))
            return float(ll - 0.5 * np.sum(th**2) / TAU**2)
        if self.name == "pois":
            eta = self.X @ th + off
            ll = np.sum(self.y * eta - np.exp(eta))
            return float(ll - 0.5 * np.sum(th**2) / TAU**2)
        if self.name == "gampois":
            # lambda_j = exp(theta_j) ~ Gamma(a_j, b_j); y_ji ~ Poisson(lambda_j exp(off));
            # density of theta includes the Jacobian lambda
            A = self.a + self.ysum
            B = self.b + self.n * math.exp(off)
            return float(np.sum(A * th - B * np.exp(th)))
        raise AssertionError

    def grad(self, th, off):
        th = np.asarray(th, dtype=np.float64)
        if self.name == "gauss":
            return -self.P @ (th - (self.m + off * self.dir))
        if self.name == "logit":
            eta = self.X @ th + off
            p = 1.0 / (1.0 + np.exp(-eta))
            return self.X.T @ (self.y - p) - th / TAU**2
        if self.name == "pois":
            eta = self.X @ th + off
            return self.X.T @ (self.y - np.exp(eta)) - th / TAU**2
        if self.name == "gampois":
            A = self.a + self.ysum
            B = self.b + self.n * math.exp(off)
            return A - B * np.exp(th)
        raise AssertionError

    def hess(self, th, off):
        th = np.asarray(th, dtype=np.float64)
        d = self.d
        if self.name == "gauss":
            return -self.P.copy()
        if self.name == "logit":
            eta = self.X @ th + off
            p = 1.0 / (1.0 + np.exp(-eta))
            return -(self.X.T * (p * (1 - p))) @ self.X - np.eye(d) / TAU**2
        if self.name == "pois":
            eta = self.X @ th + off
            return -(self.X.T * np.exp(eta)) @ self.X - np.eye(d) / TAU**2
        if self.name == "gampois":
            B = self.b + self.n * math.exp(off)
            return -np.diag(B * np.exp(th))
        raise AssertionError


def self_test_family(fam: Family, th, off, h=1e-5):
    """Finite-difference check of grad/hess (used once per unit; harness sanity)."""
    th = np.asarray(th, dtype=np.float64)
    g = fam.grad(th, off)
    H = fam.hess(th, off)
    for i in range(fam.d):
        e = np.zeros(fam.d)
        e[i] = h
        gn = (fam.logp(th + e, off) - fam.logp(th - e, off)) / (2 * h)
        if abs(gn - g[i]) > 1e-5 * (1 + abs(g[i])):
            raise RuntimeError(f"reference gradient wrong: {fam.name} {i} {gn} {g[i]}")
        Hn = (fam.grad(th + e, off) - fam.grad(th - e, off)) / (2 * h)
        if np.max(np.abs(Hn - H[:, i])) > 1e-5 * (1 + np.max(np.abs(H))):
            raise RuntimeError(f"reference Hessian wrong: {fam.name} {i}")


# ---------------------------------------------------------------------------------
# Gaussian density by covariance
# ---------------------------------------------------------------------------------


def mvn_logpdf(x, mean, cov) -> float:
    x = np.atleast_1d(np.asarray(x, dtype=np.float64))
    mean = np.atleast_1d(np.asarray(mean, dtype=np.float64))
    cov = np.atleast_2d(np.asarray(cov, dtype=np.float64))
    k = x.size
    r = x - mean
    sign, logdet = np.linalg.slogdet(cov)
    if sign <= 0:
        raise RuntimeError("reference covariance is not positive definite")
    return float(-0.5 * (k * math.log(2 * math.pi) + logdet + r @ np.linalg.solve(cov, r)))


# ---------------------------------------------------------------------------------
# user information matrices for IWLS(chol_info_fn)
# ---------------------------------------------------------------------------------

U_CONST = [
    [1.8, 0.4, -0.2],
    [0.4, 0.9, 0.3],
    [-0.2, 0.3, 2.5],
]


def user_info(kind: str, xb):
    """User supplied information matrix on the block (float64)."""
    xb = np.asarray(xb, dtype=np.float64)
    k = xb.size
    C = np.array(U_CONST, dtype=np.float64)[:k, :k]
    if kind == "const":
        return C
    if kind == "statedep":
        return C + np.diag(0.5 * xb**2) + 0.25 * np.outer(np.tanh(xb), np.tanh(xb))
    raise ValueError(kind)


# ---------------------------------------------------------------------------------
# documented proposal laws: (mean, covariance) of q(. | x) on the block
# ---------------------------------------------------------------------------------


class Block:
    """A kernel block: ``idx`` = indices of theta that the kernel moves."""

    def __init__(self, fam: Family, idx: list[int], off: float):
        self.fam = fam
        self.idx = list(idx)
        self.off = off

    def full(self, rest, xb):
        th = np.array(rest, dtype=np.float64)
        th[self.idx] = xb
        return th

    def logp(self, rest, xb):
        return self.fam.logp(self.full(rest, xb), self.off)

    def grad(self, rest, xb):
        return self.fam.grad(self.full(rest, xb), self.off)[self.idx]

    def neg_hess(self, rest, xb):
        return -self.fam.hess(self.full(rest, xb), self.off)[np.ix_(self.idx, self.idx)]


def law_rw(xb, s):
    xb = np.asarray(xb, dtype=np.float64)
    return xb.copy(), s * s * np.eye(xb.size)


def law_iwls(block: Block, rest, xb, s, info: str | None):
    """N(x + s^2/2 F^-1 grad, s^2 F^-1), F = negative Hessian or the user's matrix."""
    xb = np.asarray(xb, dtype=np.float64)
    F = block.neg_hess(rest, xb) if info is None else user_info(info, xb)
    g = block.grad(rest, xb)
    Finv = np.linalg.inv(F)
    return xb + 0.5 * s * s * Finv @ g, s * s * Finv


# user proposals for the MH kernel: map (x, z, s) -> x', and log q(x'|x)
MH_DRIFT = 0.7
MH_CENTER = [0.3, -0.2, 0.6]


def mh_map(kind: str, xb, z, s):
    xb = np.asarray(xb, dtype=np.float64)
    z = np.asarray(z, dtype=np.float64)
    if kind == "drift":
        return xb + s * MH_DRIFT + s * z
    if kind == "mult":
        return xb * np.exp(s * z)
    if kind == "indep":
        return np.array(MH_CENTER)[: xb.size] + s * z
    if kind == "onesided":
        return xb + s * np.abs(z)
    if kind == "gate":
        return xb + s * z
    raise ValueError(kind)


MH_GATE = 0.55


def mh_logcorr(kind: str, x_from, x_to, s) -> float:
    """The log-correction log[q(x_from|x_to) / q(x_to|x_from)] the user DECLARES for the move."""
    if kind == "gate":
        # a user proposal that declares moves with (x'_0 - x_0)/s beyond +-MH_GATE as
        # one-directional: correction +inf one way, -inf the other way, 0 in between
        d = (np.asarray(x_to, dtype=np.float64)[0] - np.asarray(x_from, dtype=np.float64)[0]) / s
        if d > MH_GATE:
            return math.inf
        if d < -MH_GATE:
            return -math.inf
        return 0.0
    fwd = mh_logq(kind, x_to, x_from, s)
    bwd = mh_logq(kind, x_from, x_to, s)
    if fwd == -math.inf and bwd == -math.inf:
        return float("nan")
    return bwd - fwd


def mh_logq(kind: str, xto, xfrom, s) -> float:
    """log q(xto | xfrom) of the user proposal ``kind`` with step size s."""
    xto = np.asarray(xto, dtype=np.float64)
    xfrom = np.asarray(xfrom, dtype=np.float64)
    k = xto.size
    if kind == "drift":
        return mvn_logpdf(xto, xfrom + s * MH_DRIFT, s * s * np.eye(k))
    if kind == "indep":
        return mvn_logpdf(xto, np.array(MH_CENTER)[:k], s * s * np.eye(k))
    if kind == "onesided":
        # every component moves up by s|z_i|: half-normal on [xfrom, inf); at xto == xfrom the
        # (degenerate) move is its own reverse
        if np.any(xto < xfrom):
            return -math.inf
        return mvn_logpdf(xto, xfrom, s * s * np.eye(k)) + k * math.log(2.0)
    if kind == "mult":
        # log-normal: log xto ~ N(log xfrom, s^2), density w.r.t. xto
        if np.any(xto <= 0) or np.any(xfrom <= 0):
            return -math.inf
        return mvn_logpdf(np.log(xto), np.log(xfrom), s * s * np.eye(k)) - float(np.sum(np.log(xto)))
    raise ValueError(kind)


# ---------------------------------------------------------------------------------
# Metropolis-Hastings
# ---------------------------------------------------------------------------------


def log_ratio(lp_x, lp_xp, lq_fwd, lq_bwd) -> float:
    """log [ pi(x') q(x|x') / (pi(x) q(x'|x)) ]"""
    return (lp_xp - lp_x) + (lq_bwd - lq_fwd)


def alpha_of(logr: float) -> float:
    if math.isnan(logr):
        return float("nan")
    return 1.0 if logr >= 0 else math.exp(logr)
