"""
Counting reference for C19 (plain numpy, no liesel imports).

Input everywhere: ``codes`` = dict kernel id -> int array [chains, T] holding the error
code each transition returned, ``phases`` = list of length T with "w" (warm-up) or "p"
(posterior) per transition, ``books`` = dict kernel id -> {code: message}.
"""

from __future__ import annotations

import numpy as np


def expected_log(codes, phases, posterior_only):
    """kernel id -> (transition indices, error code columns [chains, n])."""
    out = {}
    ph = np.array(phases)
    for kid, arr in codes.items():
        arr = np.asarray(arr)
        if posterior_only:
            arr = arr[:, ph == "p"]
        idx = [t for t in range(arr.shape[1]) if any(int(arr[c, t]) != 0 for c in range(arr.shape[0]))]
        out[kid] = (np.array(idx, dtype=int), arr[:, idx])
    return out


def expected_summary(codes, phases, books):
    """kernel -> code -> dict(msg, total[chains], posterior[chains] | None, warmup[chains])."""
    has_post = "p" in phases
    out = {}
    for kid, arr in codes.items():
        arr = np.asarray(arr)
        chains, T = arr.shape
        entry = {}
        for code in sorted({int(v) for v in arr.ravel()} - {0}):
            tot = [sum(1 for t in range(T) if int(arr[c, t]) == code) for c in range(chains)]
            post = [sum(1 for t in range(T) if int(arr[c, t]) == code and phases[t] == "p") for c in range(chains)]
            warm = [sum(1 for t in range(T) if int(arr[c, t]) == code and phases[t] == "w") for c in range(chains)]
            entry[code] = {"msg": books[kid][code], "total": tot, "posterior": post if has_post else None, "warmup": warm}
        out[kid] = entry
    return out


def expected_rows(summary, per_chain):
    """(kernel, code, msg, phase[, chain]) -> count, the content of Summary.error_df()."""
    rows = {}
    for kid, entry in summary.items():
        for code, e in entry.items():
            for phase in ("warmup", "posterior"):
                per = e[phase]
                if per_chain:
                    for c, n in enumerate(per):
                        rows[(kid, code, e["msg"], phase, c)] = n
                else:
                    rows[(kid, code, e["msg"], phase)] = sum(per)
    return rows


def pattern_class(codes, phases):
    """where errors occur: none / warmup-only / posterior-only / both, and in how many chains."""
    w = p = False
    chains_with = set()
    for arr in codes.values():
        arr = np.asarray(arr)
        for c in range(arr.shape[0]):
            for t in range(arr.shape[1]):
                if int(arr[c, t]) != 0:
                    chains_with.add(c)
                    if phases[t] == "w":
                        w = True
                    else:
                        p = True
    where = "none" if not (w or p) else "both" if (w and p) else "warmup-only" if w else "posterior-only"
    n = next(iter(codes.values())).shape[0]
    some = "no-chain" if not chains_with else "all-chains" if len(chains_with) == n else "some-chains"
    return where, some
