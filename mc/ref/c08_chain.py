"""
Reference model of what the Goose engine has to store (plain Python / numpy).

Builds on the lifecycle simulation of ``c07_lifecycle`` (which yields, per epoch, the
model-state stamps after the stored iterations) and adds the other recorded streams:
transition infos (one per transition, never thinned), kernel states (one after the
initial epoch plus one per transition), generated quantities (thinned like positions)
and the posterior-only views. Also the reference for ``ListEpochChain`` alone.
"""

from __future__ import annotations

import numpy as np

from . import c07_lifecycle as lc

TRANSITION_EVENTS = (lc.EV_TRANS_STD, lc.EV_TRANS_ADAPT, lc.EV_TRANS_PLAIN)


def thinned_indices(sizes, thinning):
    """
    Documentation of ListEpochChain: with thinning k only every k-th state *of the
    epoch* is kept, whatever the chunking. ``sizes`` are the chunk lengths; returns the
    0-based epoch-global indices that must be stored.
    """
    total = sum(sizes)
    return [i for i in range(total) if (i + 1) % thinning == 0]


def expected(schedule, kernels, shapes, tracked, chain):
    """
    Everything the results object must hold for ``chain``:

    positions / posterior_positions   {key: array[time, ...]}
    tags / posterior_tags             iteration tags 1000*c + 100*e + (t+1), one per transition
    kernel_counts                     per kernel: number of logged calls after the initial
                                      epoch and after every transition
    quantity / posterior_quantity     2 * first element of the first kernel's first key, thinned
    """
    sim = lc.simulate(schedule, kernels, shapes, tracked, chain)
    out = {"sim": sim}
    out["positions"] = lc.expected_positions(sim, tracked, shapes, chain)
    out["posterior_positions"] = lc.expected_positions(sim, tracked, shapes, chain, posterior_only=True)
    tags, ptags = [], []
    for e, (typ, dur, _thin) in enumerate(schedule):
        if e == 0:
            continue
        for t in range(dur):
            tag = 1000 * chain + 100 * e + t + 1
            tags.append(tag)
            if typ == "POSTERIOR":
                ptags.append(tag)
    out["tags"], out["posterior_tags"] = tags, ptags
    counts = []
    for rows in sim["events"]:
        c = [0]
        for i, r in enumerate(rows):
            if r["event"] in TRANSITION_EVENTS:
                c.append(i + 1)
        counts.append(c)
    out["kernel_counts"] = counts
    qkey = kernels[0]["keys"][0]
    q, pq = [], []
    for ep in sim["epochs"]:
        for s in ep["stamps"]:
            v = 2.0 * lc.first_element(qkey, chain, s[qkey])
            q.append(v)
            if ep["type"] == "POSTERIOR":
                pq.append(v)
    out["quantity"], out["posterior_quantity"] = q, pq
    out["n_posterior_epochs"] = sum(1 for s in schedule if s[0] == "POSTERIOR")
    return out


def compositions(n):
    """All ordered ways of writing n as a sum of positive integers."""
    if n == 0:
        return [[]]
    out = []
    for first in range(1, n + 1):
        for rest in compositions(n - first):
            out.append([first] + rest)
    return out


def arrays_equal(a, b):
    a, b = np.asarray(a), np.asarray(b)
    return a.shape == b.shape and bool(np.array_equal(a.astype(np.float64), b.astype(np.float64)))
