"""
Reference model for C13 (plain Python / numpy float64 / scipy; no liesel, no jax).

tau2:      closed-form full conditional of a smoothing variance,
           tau2 | beta ~ IG(a + rk(K)/2, b + beta' K beta / 2), and the inverse-gamma
           log-density used for the ratio test against the model's joint.
discrete:  exact full conditional of a finite-valued variable z from a small model spec:
           p(z = o | rest)  proportional to  P_prior(o) * prod_i N(y_i; loc_i(o), sd_i(o)).
"""

from __future__ import annotations

import math

import numpy as np
from scipy.special import gammaln

PENALTIES = {
    "I2": np.eye(2),
    "SPD3": np.array([[2.0, -1.0, 0.0], [-1.0, 2.0, -1.0], [0.0, -1.0, 2.0]]),
    "RW1_3": np.diff(np.eye(3), axis=0).T @ np.diff(np.eye(3), axis=0),
    "RW2_4": np.diff(np.eye(4), n=2, axis=0).T @ np.diff(np.eye(4), n=2, axis=0),
    "ZERO2": np.zeros((2, 2)),
}
EXPECTED_RANK = {"I2": 2, "SPD3": 3, "RW1_3": 2, "RW2_4": 2, "ZERO2": 0}
# penalties whose numerical rank (np.linalg.matrix_rank, relative tolerance) differs from
# the number of float32 eigenvalues above an ABSOLUTE threshold of 1e-6: a small overall
# scale pushes true eigenvalues below 1e-6, a large scale lifts the null-space noise above
_D2_20 = np.diff(np.eye(20), n=2, axis=0)
_D1_20 = np.diff(np.eye(20), axis=0)
PENALTIES_SCALED = {
    "RW2_20_x1e-5": 1e-5 * (_D2_20.T @ _D2_20),
    "RW1_20_x100": 100.0 * (_D1_20.T @ _D1_20),
}
EXPECTED_RANK.update({"RW2_20_x1e-5": 18, "RW1_20_x100": 19})
# thorough tier only
PENALTIES_EXTRA = {
    "RW1_5": np.diff(np.eye(5), axis=0).T @ np.diff(np.eye(5), axis=0),
    "BLOCK4": np.block([[np.array([[1.0, -1.0], [-1.0, 1.0]]), np.zeros((2, 2))], [np.zeros((2, 2)), 2.0 * np.eye(2)]]),
}
EXPECTED_RANK.update({"RW1_5": 4, "BLOCK4": 3})


def penalty(name: str):
    for d in (PENALTIES, PENALTIES_SCALED, PENALTIES_EXTRA):
        if name in d:
            return d[name]
    raise KeyError(name)


def betas(name: str) -> list[list[float]]:
    """Coefficient lattice: zero, unit vector, null-space vectors, generic, scaled."""
    d = penalty(name).shape[0]
    out = [[0.0] * d, [1.0] + [0.0] * (d - 1), [1.0] * d, [float(i) for i in range(d)]]
    generic = ([1.0, -1.0, 2.0, 0.5, -1.5] * 4)[:d]
    out.append(generic)
    out.append([3.0 * v for v in generic])
    return out


def reweighted(K):
    """Same-rank variant of a penalty: S K S with S = diag(1, 2, 1, 2, ...) (S is
    invertible, so the rank is kept while range and null space change)."""
    K = np.asarray(K, dtype=np.float64)
    s = np.array([1.0 + (i % 2) for i in range(K.shape[0])])
    return K * np.outer(s, s)


def rank_one(K):
    """Penalty e1 e1' of the same dimension (rank 1)."""
    out = np.zeros_like(np.asarray(K, dtype=np.float64))
    out[0, 0] = 1.0
    return out


def rank(K) -> int:
    return int(np.linalg.matrix_rank(np.asarray(K, dtype=np.float64)))


def tau2_conditional(K, a: float, b: float, beta, rank_in_state=None):
    """rank_in_state: the rank hyper-parameter the model state carries (the model's
    coefficient prior uses tau2^(-rank/2) with exactly that value); default rk(K)."""
    K = np.asarray(K, dtype=np.float64)
    beta = np.asarray(beta, dtype=np.float64)
    r = rank(K) if rank_in_state is None else rank_in_state
    return a + 0.5 * r, b + 0.5 * float(beta @ K @ beta)


def ig_logpdf(x: float, a: float, b: float) -> float:
    return a * math.log(b) - float(gammaln(a)) - (a + 1.0) * math.log(x) - b / x


# ---------------------------------------------------------------------------------
# finite discrete
# ---------------------------------------------------------------------------------


def _lognorm(x, loc, scale):
    z = (np.asarray(x, dtype=np.float64) - loc) / scale
    return -0.5 * z * z - math.log(scale) - 0.5 * math.log(2 * math.pi)


def prior_logp(spec: dict, theta: dict, o: float) -> float:
    if spec["prior"] == "bernoulli":
        p = float(theta["probs"])
        if o == 1:
            return math.log(p)
        if o == 0:
            return math.log1p(-p)
        return -math.inf
    sup = list(spec["support"])
    if o not in sup:
        return -math.inf
    p = float(theta["probs"][sup.index(o)])
    return math.log(p) if p > 0 else -math.inf


def y_of(spec: dict) -> list[float]:
    """Observed data of a spec: an explicit list, or ``ny`` generated values in [-0.5, 1.5)."""
    if "ny" in spec:
        return [((i * 37) % 100) / 50.0 - 0.5 for i in range(int(spec["ny"]))]
    return list(spec["y"])


def lik_logp(spec: dict, theta: dict, o: float) -> float:
    if spec["lik"] == "none":
        return 0.0
    y = np.asarray(y_of(spec), dtype=np.float64)
    if spec["lik"] == "diamond":
        # sigma = sd * (1 + z^2 / 4) is shared by the scale and by the mean
        sig = theta["sd"] * (1.0 + 0.25 * o * o)
        return float(np.sum(_lognorm(y, theta["icpt"] + theta["slope"] * o * sig, sig)))
    if spec["lik"] == "resid":
        # the variable enters through the VALUE of a weak variable with a distribution:
        # r = y - slope * z,  r ~ N(icpt, sd)
        return float(np.sum(_lognorm(y - theta["slope"] * o, theta["icpt"], theta["sd"])))
    if spec["lik"] == "mean":
        loc = theta["icpt"] + theta["slope"] * o
        return float(np.sum(_lognorm(y, loc, theta["sd"])))
    if spec["lik"] == "mixture":
        k = int(o)
        return float(np.sum(_lognorm(y, theta["mus"][k], theta["sds"][k])))
    raise ValueError(spec["lik"])


def joint_logp(spec, theta, o) -> float:
    return prior_logp(spec, theta, o) + lik_logp(spec, theta, o)


def discrete_conditional(spec: dict, theta: dict, outcomes) -> np.ndarray:
    lp = np.asarray([joint_logp(spec, theta, float(o)) for o in outcomes], dtype=np.float64)
    m = np.max(lp)
    w = np.exp(lp - m)
    return w / np.sum(w)


def softmax(logits) -> np.ndarray:
    l = np.asarray(logits, dtype=np.float64)
    w = np.exp(l - np.max(l))
    return w / np.sum(w)
