"""
G-stat: statistical model programs (C02, C03) - spec grammar, enumeration, reference
evaluator. Plain Python / numpy float64 / scipy only; no liesel, no jax, no TFP.

A *program* is a JSON-able dict

  {"label": str, "kind": "gb" | "distreg", "items": [item, ...],
   "user": {"log_lik"|"log_prior"|"log_prob": {"fn": str, "args": [REF, ...]}}}

item kinds (REFs only point to EARLIER items):

  {"k": "strong", "name": n, "lattice": [v0, v1, v2], "wrap": "var"|"value",
   "dist": DIST|None, "flag": "obs"|"par"|"none"|"both", "per_obs": bool,
   "transform": None | {"how": HOW, ...}}
        strong variable (lsl.Var) or bare lsl.Value node; value v0 at build time; the
        lattice is what the check assigns. With a transform the assignable variable is
        "<n>_transformed" (lattice = values on the unconstrained scale), v0 is given
        on the constrained scale as "init".
  {"k": "weak", "name": n, "fn": FN, "args": [REF...], "consts": {...},
   "wrap": "var"|"calc"|"tcalc", "dist": DIST|None, "flag": ..., "per_obs": ...}
        weak variable / Calc / TransientCalc computing FN(consts, *args)
  {"k": "bare", "name": n, "dist": DIST, "at": REF, "per_obs": bool}
        a Dist node that belongs to no variable, `at` set by hand

  DIST = {"fam": FAMILY, "args": {param: REF}, "pos": bool}     pos: pass positionally
  REF  = {"c": literal} | {"r": item name} | {"d": item name} (the item's Dist node;
         only in user nodes)

The reference evaluator (`evaluate`) computes, for a valuation of the assignable
names, the element-wise log-density of every distribution (scipy, float64) and the
three totals according to the property text. It knows nothing about per_obs (the totals
must not depend on it) except for the shape Var.log_prob is expected to have.
"""

from __future__ import annotations

import itertools
import math
from typing import Any

import numpy as np
from scipy import special, stats

FLAGS = ("obs", "par", "none", "both")


def f64(x) -> np.ndarray:
    """The float32 rounding of x, as float64 (what a float32 program actually sees)."""
    return np.asarray(np.asarray(x, dtype=np.float32), dtype=np.float64)


# ---------------------------------------------------------------------------------
# node functions of the programs (xp = numpy for the reference, jax.numpy for liesel;
# they are part of the *program*, not of the system under test)
# ---------------------------------------------------------------------------------


def _fn_id(xp, c, x):
    return x


def _fn_exp(xp, c, x):
    return xp.exp(x)


def _fn_affine(xp, c, x):
    return c["a"] + c["b"] * x


def _fn_matvec(xp, c, beta):
    return xp.asarray(c["X"]) @ beta


def _fn_matvec_icpt(xp, c, b0, beta):
    return b0 + xp.asarray(c["X"]) @ beta


def _fn_add(xp, c, *xs):
    out = xs[0]
    for x in xs[1:]:
        out = out + x
    return out


def _fn_sq(xp, c, x):
    return x * x + 0.5


def _fn_usum(xp, c, *xs):
    """user total: weighted sum of fully reduced inputs (so per_obs storage of an
    input Dist node does not matter)."""
    out = c.get("a", 0.0)
    for i, x in enumerate(xs):
        out = out + (i + 2.0) * xp.sum(xp.asarray(x))
    return out


def _fn_add_opt(xp, c, x, off):
    """optional offset: the input may be None"""
    return x if off is None else x + off


def _fn_uvec(xp, c, x):
    """user total that is NOT a scalar (e.g. a pointwise log-likelihood)."""
    return c.get("a", 0.0) + 2.0 * xp.asarray(x)


def _fn_sqrt(xp, c, x):
    return xp.sqrt(x)


FN = {
    "add_opt": _fn_add_opt,
    "uvec": _fn_uvec,
    "sqrt": _fn_sqrt,
    "id": _fn_id,
    "exp": _fn_exp,
    "affine": _fn_affine,
    "matvec": _fn_matvec,
    "matvec_icpt": _fn_matvec_icpt,
    "add": _fn_add,
    "sq": _fn_sq,
    "usum": _fn_usum,
}


# ---------------------------------------------------------------------------------
# densities (float64)
# ---------------------------------------------------------------------------------


def _softplus(z):
    return np.logaddexp(0.0, z)


def _log_sigmoid(z):
    return -np.logaddexp(0.0, -z)


def mvnd_from_penalty_logpdf(x, loc, var, pen, rank):
    """Degenerate MVN with precision pen/var: closed form."""
    x = np.asarray(x, dtype=np.float64) - np.asarray(loc, dtype=np.float64)
    pen = np.asarray(pen, dtype=np.float64)
    ev = np.linalg.eigvalsh(pen)
    rank = int(rank)
    log_pdet_pen = float(np.sum(np.log(ev[len(ev) - rank:]))) if rank > 0 else 0.0
    log_pdet = log_pdet_pen - rank * np.log(var)
    quad = x @ pen @ x / var
    return np.asarray(0.5 * (-quad - (rank * np.log(2 * np.pi) - log_pdet)))


def logpdf(fam: str, a: dict, x) -> np.ndarray:
    x = np.asarray(x, dtype=np.float64)
    g = lambda k: np.asarray(a[k], dtype=np.float64)  # noqa: E731
    if fam == "Normal":
        return stats.norm.logpdf(x, loc=g("loc"), scale=g("scale"))
    if fam == "Gamma":
        return stats.gamma.logpdf(x, a=g("concentration"), scale=1.0 / g("rate"))
    if fam == "InverseGamma":
        return stats.invgamma.logpdf(x, a=g("concentration"), scale=g("scale"))
    if fam == "HalfCauchy":
        return stats.halfcauchy.logpdf(x, loc=g("loc"), scale=g("scale"))
    if fam == "Bernoulli":
        eta = g("logits")
        return x * _log_sigmoid(eta) + (1.0 - x) * _log_sigmoid(-eta)
    if fam == "Poisson":
        eta = g("log_rate")
        return x * eta - np.exp(eta) - special.gammaln(x + 1.0)
    if fam == "MVND":
        return mvnd_from_penalty_logpdf(x, g("loc"), g("var"), g("pen"), g("rank"))
    raise ValueError(fam)


#: number of trailing dimensions of the value that form one event
EVENT_NDIMS = {"MVND": 1}


# transformations: forward map (unconstrained z -> constrained x) and log|dx/dz|
def transform_forward(how: dict, z, dist_args: dict):
    z = np.asarray(z, dtype=np.float64)
    h = how["how"]
    if h in ("exp_inst", "gb_exp_inst", "exp_cls", "gb_exp_cls"):
        return np.exp(z), z
    if h == "softplus_cls":
        s = how["hinge_softness"]
        return s * _softplus(z / s), _log_sigmoid(z / s)
    if h == "scale_cls":
        s = float(how["scale"])
        return s * z, np.full_like(z, math.log(abs(s)))
    if h in ("default", "auto", "gb_default"):
        fam = how["fam"]
        if fam == "Gamma":
            return _softplus(z), _log_sigmoid(z)
        if fam == "InverseGamma":
            sp = _softplus(z)
            return 1.0 / sp, _log_sigmoid(z) - 2.0 * np.log(sp)
        if fam == "HalfCauchy":
            return np.asarray(dist_args["loc"], dtype=np.float64) + np.exp(z), z
    raise ValueError(how)


def transform_inverse(how: dict, x, dist_args: dict):
    x = np.asarray(x, dtype=np.float64)
    h = how["how"]
    inv_softplus = lambda y: y + np.log(-np.expm1(-y))  # noqa: E731
    if h in ("exp_inst", "gb_exp_inst", "exp_cls", "gb_exp_cls"):
        return np.log(x)
    if h == "softplus_cls":
        s = how["hinge_softness"]
        return s * inv_softplus(x / s)
    if h == "scale_cls":
        return x / float(how["scale"])
    if h in ("default", "auto", "gb_default"):
        fam = how["fam"]
        if fam == "Gamma":
            return inv_softplus(x)
        if fam == "InverseGamma":
            return inv_softplus(1.0 / x)
        if fam == "HalfCauchy":
            return np.log(x - np.asarray(dist_args["loc"], dtype=np.float64))
    raise ValueError(how)


# ---------------------------------------------------------------------------------
# reference evaluator
# ---------------------------------------------------------------------------------


def akey(it: dict) -> str:
    """The key of a strong item in a valuation."""
    if it.get("transform"):
        return it["name"] + "_transformed"
    return it["name"]


def assignable(program: dict) -> list[dict]:
    """The strong items the check may assign: [{name (valuation key), target (liesel
    variable or node name), lattice, via}]."""
    out = []
    for it in program["items"]:
        if it["k"] == "opt":
            out.append({"name": it["name"], "target": it["name"], "item": it["name"], "lattice": it["lattice"], "via": "node", "optional": True})
            continue
        if it["k"] != "strong":
            continue
        if len(it["lattice"]) < 1:
            continue
        value = it.get("wrap") == "value"
        target = it.get("node_name", it["name"]) if value else akey(it)
        out.append({"name": akey(it), "target": target, "item": it["name"], "lattice": it["lattice"], "via": "node" if value else "var"})
    return out


def initial_valuation(program: dict) -> dict:
    """Valuation of the assignable names right after the model was built."""
    val = {}
    env: dict[str, Any] = {}
    for it in program["items"]:
        if it["k"] == "strong":
            if it.get("transform"):
                dargs = {k: _ref_value(r, env, {}) for k, r in it["dist"]["args"].items()}
                z0 = transform_inverse(_resolve_how(it["transform"], env), f64(it["init"]), dargs)
                val[it["name"] + "_transformed"] = z0
                env[it["name"]] = f64(it["init"])
            else:
                val[akey(it)] = f64(it["lattice"][0])
                env[it["name"]] = val[akey(it)]
        elif it["k"] == "opt":
            val[it["name"]] = None if it["lattice"][0] is None else f64(it["lattice"][0])
            env[it["name"]] = val[it["name"]]
        elif it["k"] == "weak":
            env[it["name"]] = FN[it["fn"]](np, _consts(it), *[_ref_value(r, env, {}) for r in it["args"]])
    return val


def _resolve_how(how: dict, env: dict) -> dict:
    """bijector arguments may be model quantities ({"r": name})"""
    return {k: (_ref_value(v, env, {}) if isinstance(v, dict) else v) for k, v in how.items()}


def _consts(it):
    return {k: (f64(v) if not isinstance(v, (int, float)) else float(v)) for k, v in it.get("consts", {}).items()}


def _ref_value(ref: dict, env: dict, dist_sums: dict):
    if "c" in ref:
        return f64(ref["c"])
    if "r" in ref:
        return env[ref["r"]]
    if "d" in ref:
        return dist_sums[ref["d"]]
    if "dv" in ref:
        return dist_sums["__elem__"][ref["dv"]]
    raise ValueError(ref)


def evaluate(program: dict, valuation: dict) -> dict:
    """
    Returns {"dists": {label: {...}}, "log_prob", "log_lik", "log_prior", "scale",
    "decomposable", "values": env}. `scale` = sum of |element-wise log-density| (for
    tolerances). valuation: assignable name -> value (already float32-rounded floats).
    """
    env: dict[str, np.ndarray] = {}
    dists: dict[str, dict] = {}
    dist_sums: dict[str, Any] = {"__elem__": {}}

    def add_dist(label, owner, spec, at_value, obs, par, per_obs, extra=0.0):
        args = {k: _ref_value(r, env, dist_sums) for k, r in spec["args"].items()}
        lp = np.asarray(logpdf(spec["fam"], args, at_value) + extra, dtype=np.float64)
        dists[label] = {"owner": owner, "logp": lp, "obs": obs, "par": par, "per_obs": per_obs}
        dist_sums[label] = float(lp.sum())
        dist_sums["__elem__"][label] = lp

    for it in program["items"]:
        k = it["k"]
        name = it.get("name")
        flag = it.get("flag", "none")
        obs, par = flag in ("obs", "both"), flag in ("par", "both")
        if k == "strong":
            tr = it.get("transform")
            if tr:
                z = np.asarray(valuation[name + "_transformed"], dtype=np.float64)
                dargs = {kk: _ref_value(r, env, dist_sums) for kk, r in it["dist"]["args"].items()}
                x, ldj = transform_forward(_resolve_how(tr, env), z, dargs)
                env[name] = x
                env[name + "_transformed"] = z
                # the distribution moves to the new variable; `parameter` moves with it,
                # `observed` stays on the (now distribution-less) original variable
                add_dist(name + "_transformed", name + "_transformed", it["dist"], x, False, par, it.get("per_obs", True), extra=ldj)
            else:
                env[name] = np.asarray(valuation[akey(it)], dtype=np.float64)
                if it.get("dist"):
                    add_dist(name, name, it["dist"], env[name], obs, par, it.get("per_obs", True))
        elif k == "weak":
            env[name] = np.asarray(FN[it["fn"]](np, _consts(it), *[_ref_value(r, env, dist_sums) for r in it["args"]]), dtype=np.float64)
            if it.get("dist"):
                add_dist(name, name if it.get("wrap", "var") == "var" else None, it["dist"], env[name], obs, par, it.get("per_obs", True))
        elif k == "opt":
            v = valuation[name]
            env[name] = None if v is None else np.asarray(v, dtype=np.float64)
        elif k == "bare":
            add_dist(name, None, it["dist"], _ref_value(it["at"], env, dist_sums), False, False, it.get("per_obs", True))
        else:
            raise ValueError(k)

    tot = {
        "log_prob": sum(d["logp"].sum() for d in dists.values()),
        "log_lik": sum(d["logp"].sum() for d in dists.values() if d["obs"]),
        "log_prior": sum(d["logp"].sum() for d in dists.values() if d["par"]),
    }
    scale = {
        "log_prob": sum(np.abs(d["logp"]).sum() for d in dists.values()),
        "log_lik": sum(np.abs(d["logp"]).sum() for d in dists.values() if d["obs"]),
        "log_prior": sum(np.abs(d["logp"]).sum() for d in dists.values() if d["par"]),
    }
    user = program.get("user") or {}
    for key, u in user.items():
        args = [_ref_value(r, env, dist_sums) for r in u["args"]]
        if u.get("as_value"):
            tot[key] = np.asarray(f64(u["value"]))
        else:
            tot[key] = np.asarray(FN[u["fn"]](np, _consts(u), *args), dtype=np.float64)
        scale[key] = float(sum(np.abs(np.asarray(a)).sum() * (i + 2.0) for i, a in enumerate(args)) + np.abs(tot[key]).sum())
    decomposable = (not user) and all(d["owner"] is not None and (d["obs"] != d["par"]) for d in dists.values())
    return {
        "dists": dists,
        # scalars, except for user-supplied nodes, which are forwarded with their shape
        "log_prob": np.asarray(tot["log_prob"], dtype=np.float64),
        "log_lik": np.asarray(tot["log_lik"], dtype=np.float64),
        "log_prior": np.asarray(tot["log_prior"], dtype=np.float64),
        "scale": {k: float(v) for k, v in scale.items()},
        "decomposable": decomposable,
        "values": env,
    }


# ---------------------------------------------------------------------------------
# valuation lattice walks
# ---------------------------------------------------------------------------------


def euler_walk(sizes: list[int]) -> list[tuple[int, int]]:
    """
    A closed walk through the lattice prod(range(s) for s in sizes) that starts and ends
    at (0,...,0) and traverses EVERY directed single-assignment transition (state,
    coordinate i, new value a != state[i]) exactly once (the directed Hamming graph is
    symmetric, hence Eulerian; Hierholzer's algorithm, deterministic).
    Returns the list of assignments (i, a).
    """
    k = len(sizes)
    if k == 0 or all(s <= 1 for s in sizes):
        return []
    start = tuple(0 for _ in sizes)

    def out_edges(s):
        return [(i, a) for i in range(k) for a in range(sizes[i]) if a != s[i]]

    nxt_idx: dict[tuple, int] = {}
    edges_of: dict[tuple, list] = {}
    stack = [(start, None)]
    circuit: list = []
    while stack:
        s, _ = stack[-1]
        if s not in edges_of:
            edges_of[s] = out_edges(s)
            nxt_idx[s] = 0
        if nxt_idx[s] < len(edges_of[s]):
            i, a = edges_of[s][nxt_idx[s]]
            nxt_idx[s] += 1
            t = s[:i] + (a,) + s[i + 1:]
            stack.append((t, (i, a)))
        else:
            circuit.append(stack.pop()[1])
    circuit = [e for e in circuit if e is not None][::-1]
    return circuit


def star_walk(sizes: list[int]) -> dict[str, list[tuple[int, int]]]:
    """Short walk for the structural product: with auto-update every coordinate is set to
    its value 1, then with manual update() every coordinate to its last value (2 if it
    has three), then with targeted updates every coordinate back to 0. 3k assignments;
    all but the first start from a non-initial state."""
    k = len(sizes)
    return {
        "auto": [(i, 1) for i in range(k) if sizes[i] > 1],
        "manual": [(i, sizes[i] - 1) for i in reversed(range(k)) if sizes[i] > 1],
        "targeted": [(i, 0) for i in range(k) if sizes[i] > 1],
    }


# ---------------------------------------------------------------------------------
# program enumeration
# ---------------------------------------------------------------------------------

C = lambda v: {"c": v}  # noqa: E731
R = lambda n: {"r": n}  # noqa: E731

Y3 = [[0.25, -0.5, 1.25], [1.5, 0.75, -2.0]]
X4 = [[1.0, -0.5], [1.0, 0.25], [1.0, 1.5], [1.0, -1.25]]
XS4 = [[-0.5, 0.25], [0.25, 1.0], [1.5, -0.75], [-1.25, 0.5]]
YB4 = [[1.0, 0.0, 1.0, 1.0], [0.0, 0.0, 1.0, 0.0]]
YP4 = [[0.0, 2.0, 1.0, 4.0], [3.0, 0.0, 0.0, 1.0]]
Y4 = [[0.25, -0.5, 1.25, 2.0], [1.5, 0.75, -2.0, 0.5]]
X43 = [[1.0, -0.5, 0.25], [1.0, 0.25, 0.5], [1.0, 1.5, -1.0], [1.0, -1.25, 0.75]]
K3_DEF = [[1.0, -1.0, 0.0], [-1.0, 2.0, -1.0], [0.0, -1.0, 1.0]]  # rank 2 (RW1 penalty)
K3_FULL = [[2.0, -1.0, 0.0], [-1.0, 2.0, -1.0], [0.0, -1.0, 2.0]]  # rank 3
MU = [0.5, -1.25, 2.0]
MUV = [[0.5, -1.25, 2.0], [0.0, 0.75, -0.5], [1.5, 1.5, -2.5]]
M = [0.25, -0.75, 1.5]
SIG = [1.5, 0.5, 2.75]
ZSIG = [0.25, -0.75, 1.25]  # unconstrained scale for transformed variables
BETA2 = [[0.0, 0.0], [0.5, -0.25], [-0.75, 1.25]]
BETA3 = [[0.0, 0.0, 0.0], [0.5, -0.25, 0.75], [-0.75, 1.25, 0.25]]
TAU = [1.0, 0.5, 2.5]


def N(loc, scale, pos=False):
    return {"fam": "Normal", "args": {"loc": loc, "scale": scale}, "pos": pos}


def scale_prior(fam):
    if fam == "Gamma":
        return {"fam": "Gamma", "args": {"concentration": C(2.0), "rate": C(1.5)}}
    if fam == "InverseGamma":
        return {"fam": "InverseGamma", "args": {"concentration": C(2.5), "scale": C(1.5)}}
    if fam == "HalfCauchy":
        return {"fam": "HalfCauchy", "args": {"loc": C(0.0), "scale": C(2.0)}}
    raise ValueError(fam)


def strong(name, lattice, dist=None, wrap="var", **kw):
    return {"k": "strong", "name": name, "lattice": lattice, "dist": dist, "wrap": wrap, "flag": "none", "per_obs": True, "transform": None, **kw}


def weak(name, fn, args, consts=None, wrap="var", dist=None, **kw):
    return {"k": "weak", "name": name, "fn": fn, "args": args, "consts": consts or {}, "wrap": wrap, "dist": dist, "flag": "none", "per_obs": True, **kw}


def skeletons() -> dict[str, dict]:
    """Model skeletons: flags / per_obs of the distributed items are free slots.
    `canon` gives the canonical flags (in order of the distributed items)."""
    sk = {}
    sk["S1"] = {"items": [strong("y", Y3, N(C(0.5), C(2.0)))], "canon": ["obs"]}
    sk["S1s"] = {"items": [strong("y", [0.25, -1.5], N(C(0.5), C(2.0), pos=True))], "canon": ["obs"]}
    sk["S2"] = {"items": [strong("mu", MU, N(C(0.0), C(4.0))), strong("y", Y3, N(R("mu"), C(1.5)))], "canon": ["par", "obs"]}
    sk["S2v"] = {"items": [strong("mu", MUV, N(C(0.0), C(4.0))), strong("y", Y3, N(R("mu"), C(1.5), pos=True))], "canon": ["par", "obs"]}
    sk["S2w"] = {
        "items": [strong("mu", MU, N(C(0.0), C(4.0))), weak("eta", "affine", [R("mu")], {"a": 0.5, "b": -2.0}), strong("y", Y3, N(R("eta"), C(1.5)))],
        "canon": ["par", "obs"],
    }
    for fam in ("InverseGamma", "Gamma", "HalfCauchy"):
        sk[f"S3{fam[0]}"] = {
            "items": [strong("mu", MU, N(C(0.0), C(4.0))), strong("sigma", SIG, scale_prior(fam)), strong("y", Y3, N(R("mu"), R("sigma")))],
            "canon": ["par", "par", "obs"],
        }
    sk["S4"] = {
        "items": [
            strong("m", M, N(C(0.0), C(8.0))),
            strong("mu", MU, N(R("m"), C(2.0))),
            strong("sigma", SIG, scale_prior("Gamma")),
            strong("y", Y3, N(R("mu"), R("sigma"))),
        ],
        "canon": ["par", "par", "par", "obs"],
    }
    sk["S4c"] = {
        "items": [
            strong("m", M, N(C(0.0), C(8.0))),
            strong("mu", MUV, N(R("m"), C(2.0))),
            weak("eta", "sq", [R("mu")], wrap="calc"),
            strong("sigma", SIG, scale_prior("HalfCauchy")),
            weak("s2", "affine", [R("sigma")], {"a": 0.25, "b": 1.0}, wrap="tcalc"),
            strong("y", Y3, N(R("eta"), R("s2"))),
        ],
        "canon": ["par", "par", "par", "obs"],
    }
    sk["GLMB"] = {
        "items": [
            strong("beta", BETA2, N(C(0.0), C(2.0))),
            weak("eta", "matvec", [R("beta")], {"X": X4}),
            strong("y", YB4, {"fam": "Bernoulli", "args": {"logits": R("eta")}}),
        ],
        "canon": ["par", "obs"],
    }
    sk["GLMP"] = {
        "items": [
            strong("tau", TAU, scale_prior("HalfCauchy")),
            strong("b0", [0.25, -0.5, 1.0], N(C(0.0), C(2.0))),
            strong("beta", BETA2, N(C(0.0), R("tau"))),
            weak("eta", "matvec_icpt", [R("b0"), R("beta")], {"X": XS4}),
            strong("y", YP4, {"fam": "Poisson", "args": {"log_rate": R("eta")}}),
        ],
        "canon": ["par", "par", "par", "obs"],
    }
    # shared CACHED intermediates feeding two distributions
    sk["SH2"] = {
        "items": [
            strong("b", MU, N(C(0.0), C(4.0))),
            weak("mu_w", "affine", [R("b")], {"a": 0.5, "b": -2.0}),
            strong("y1", Y3, N(R("mu_w"), C(1.5))),
            strong("y2", [[1.0, -0.25, 0.5], [0.0, 2.0, -1.5]], N(R("mu_w"), C(0.75), pos=True)),
        ],
        "canon": ["par", "obs", "obs"],
    }
    sk["SHsd"] = {
        "items": [
            strong("tau", TAU, scale_prior("InverseGamma")),
            weak("sd", "sqrt", [R("tau")], wrap="calc"),
            strong("bb", [0.5, -0.75, 1.25], N(C(0.0), R("sd"))),
            strong("aa", BETA2, N(C(0.25), R("sd"))),
        ],
        "canon": ["par", "par", "par"],
    }
    for nm, K, rk in (("MVNd", K3_DEF, 2), ("MVNf", K3_FULL, 3)):
        sk[nm] = {
            "items": [
                strong("tau2", TAU, scale_prior("InverseGamma")),
                strong("beta", BETA3, {"fam": "MVND", "args": {"loc": C(0.0), "var": R("tau2"), "pen": C(K), "rank": C(rk)}}),
                weak("eta", "matvec", [R("beta")], {"X": X43}),
                strong("y", Y4, N(R("eta"), C(1.25))),
            ],
            "canon": ["par", "par", "obs"],
        }
    return sk


def dist_items(items):
    return [i for i, it in enumerate(items) if it.get("dist") and it["k"] != "bare"]


def instantiate(label, sk, flags, per_obs, walk, user=None):
    items = [dict(it) for it in sk["items"]]
    for j, i in enumerate(dist_items(items)):
        items[i]["flag"] = flags[j]
        items[i]["per_obs"] = bool(per_obs[j])
    # the targeted-update mode depends on the graph shape, not on flags/per_obs: it runs
    # for canonical programs and for every program with shared cached intermediates
    targeted = walk != "star" or label.split("/")[0] in ("SH2", "SHsd")
    return {"label": label, "kind": "gb", "items": items, "user": user or {}, "walk": walk, "targeted": targeted,
            "base": f"{label.split('/')[0]}/{''.join(f[0] for f in flags)}"}


def per_obs_patterns(nd, full):
    allp = list(itertools.product((True, False), repeat=nd))
    if full or nd <= 2:
        return allp
    keep = {tuple([True] * nd), tuple([False] * nd), tuple(i % 2 == 0 for i in range(nd)), tuple(i % 2 == 1 for i in range(nd))}
    return [p for p in allp if p in keep]


def family_A(tier):
    """Hierarchies: every flag combination x per_obs subsets; deep lattice walk for the
    canonical flags, star walk for the others."""
    progs = []
    for name, sk in skeletons().items():
        nd = len(dist_items(sk["items"]))
        for flags in itertools.product(FLAGS, repeat=nd):
            canon = list(flags) == sk["canon"]
            for po in per_obs_patterns(nd, full=(tier == "thorough" or canon)):
                if canon:
                    walk = "euler3" if (tier == "thorough" or all(po) or not any(po)) else "euler2"
                else:
                    walk = "star"
                lab = f"{name}/{''.join(f[0] for f in flags)}/{''.join('TF'[not p] for p in po)}"
                progs.append(instantiate(lab, sk, flags, po, walk))
    return progs


def family_B(tier):
    """Special structures."""
    progs = []

    def add(label, items, walk="euler3", user=None, base=None, kind="gb", **extra):
        progs.append({"label": label, "kind": kind, "items": items, "user": user or {}, "walk": walk, "targeted": True, "base": base or label, **extra})

    # B1: a Dist that belongs to no variable, `at` set by hand
    for at_kind in ("var", "value", "calc"):
        for xflag in ("none", "par", "obs"):
            for xdist in (False, True):
                for po in (True, False):
                    items = []
                    if at_kind == "value":
                        items.append(strong("x", MUV, wrap="value"))
                    else:
                        items.append(strong("x", MUV, N(C(0.5), C(3.0)) if xdist else None, flag=xflag))
                    if at_kind == "calc":
                        items.append(weak("cx", "sq", [R("x")], wrap="calc"))
                    if at_kind == "value" and (xdist or xflag != "none"):
                        continue
                    items.append({"k": "bare", "name": "d0", "dist": N(C(-0.5), C(1.5)), "at": R("cx" if at_kind == "calc" else "x"), "per_obs": po})
                    add(f"B1/{at_kind}/{xflag}/{int(xdist)}/{'TF'[not po]}", items, base=f"B1/{at_kind}/{xflag}/{int(xdist)}")

    # B2: a weak variable with a distribution; B3: flagged variables without distribution
    for flag in FLAGS:
        for po in (True, False):
            for wrap in ("var",):
                items = [
                    strong("a", MUV, N(C(0.0), C(2.0)), flag="par"),
                    weak("w", "exp", [R("a")], dist={"fam": "Gamma", "args": {"concentration": C(2.0), "rate": C(0.75)}}, flag=flag, per_obs=po, wrap=wrap),
                ]
                add(f"B2/{flag}/{'TF'[not po]}", items, base=f"B2/{flag}")
    for f1 in FLAGS:
        for f2 in FLAGS:
            items = [
                strong("x", MU, None, flag=f1),
                strong("p", SIG, None, flag=f2),
                weak("wv", "add", [R("x"), R("p")], flag=f1),
                strong("y", Y3, N(R("wv"), R("p")), flag="obs"),
            ]
            add(f"B3/{f1}/{f2}", items, walk="star" if (f1, f2) != ("obs", "par") else "euler3")

    # B4: transformed variables
    hows = [
        {"how": "exp_inst"}, {"how": "softplus_cls", "hinge_softness": 2.0}, {"how": "default"}, {"how": "auto"},
        {"how": "gb_exp_inst"}, {"how": "gb_default"}, {"how": "gb_exp_cls"},
    ]
    for fam in ("Gamma", "InverseGamma", "HalfCauchy"):
        for how in hows:
            for flag in FLAGS:
                for po in (True, False):
                    for parvar in (False, True):
                        if parvar and (fam != "Gamma" or flag in ("none", "both")):
                            continue
                        prior = scale_prior(fam)
                        items = []
                        if parvar:
                            items.append(strong("r", [1.5, 0.75], N(C(1.0), C(1.0)), flag="par"))
                            prior = {"fam": "Gamma", "args": {"concentration": C(2.0), "rate": R("r")}}
                        sig = strong("sigma", ZSIG, prior, flag=flag, per_obs=po, transform={**how, "fam": fam}, init=1.5)
                        items += [sig, strong("y", Y3, N(C(0.5), R("sigma")), flag="obs")]
                        canon = flag == "par"
                        add(f"B4/{fam}/{how['how']}/{flag}/{'TF'[not po]}/{int(parvar)}", items, walk="euler3" if canon else "star",
                            base=f"B4/{fam}/{how['how']}/{flag}/{int(parvar)}")
    # a vector-valued transformed variable and a Normal variable rescaled by a bijector class with argument
    for po in (True, False):
        items = [
            strong("sv", [[0.25, -0.75, 1.25], [0.5, 0.0, -1.0], [-0.25, 0.75, 0.25]], scale_prior("Gamma"), flag="par", per_obs=po,
                   transform={"how": "exp_inst", "fam": "Gamma"}, init=[1.5, 0.5, 2.0]),
            strong("y", Y3, N(C(0.5), R("sv")), flag="obs"),
        ]
        add(f"B4/vec/{'TF'[not po]}", items, base="B4/vec")
        items = [
            strong("mu", MU, N(C(0.5), C(2.0)), flag="par", per_obs=po, transform={"how": "scale_cls", "scale": 4.0, "fam": "Normal"}, init=1.0),
            strong("y", Y3, N(R("mu"), C(1.5)), flag="obs"),
        ]
        add(f"B4/scale/{'TF'[not po]}", items, base="B4/scale")

    # B5: user-supplied nodes for the totals (every non-empty subset; three node kinds)
    sk = skeletons()["S3I"]
    keys = ("log_lik", "log_prior", "log_prob")
    for r in range(1, 4):
        for subset in itertools.combinations(keys, r):
            for kind in ("values", "dists", "const"):
                for po in ((True, True, True), (False, True, False)):
                    user = {}
                    for j, key in enumerate(subset):
                        if kind == "values":
                            user[key] = {"fn": "usum", "args": [R("mu"), R("y")][: 1 + (j % 2)], "consts": {"a": 0.5 + j}}
                        elif kind == "dists":
                            user[key] = {"fn": "usum", "args": [{"d": "y"}, {"d": "sigma"}][j % 2:], "consts": {"a": -1.0 * j}}
                        else:
                            user[key] = {"fn": "usum", "args": [], "consts": {"a": -3.5 - j}, "as_value": True, "value": -3.5 - j}
                    p = instantiate(f"B5/{'+'.join(k[4:] for k in subset)}/{kind}/{''.join('TF'[not x] for x in po)}", sk, sk["canon"], po,
                                    "euler3" if all(po) else "star", user=user)
                    p["base"] = f"B5/{'+'.join(k[4:] for k in subset)}/{kind}"
                    progs.append(p)

    # B5v: NON-SCALAR user nodes (pointwise log-likelihood etc.) must be forwarded unchanged
    for subset in (("log_lik",), ("log_prior",), ("log_prob",), keys):
        for kind in ("vec_values", "vec_dist", "vec_const", "mat_const"):
            for po in ((True, True, True), (False, False, True)):
                user = {}
                for j, key in enumerate(subset):
                    if kind == "vec_values":
                        user[key] = {"fn": "uvec", "args": [R("y")], "consts": {"a": 0.5 + j}}
                    elif kind == "vec_dist":
                        user[key] = {"fn": "uvec", "args": [{"dv": "y"}], "consts": {"a": -1.0 * j}}
                    elif kind == "vec_const":
                        user[key] = {"fn": "id", "args": [], "as_value": True, "value": [-1.5 - j, 0.25, -3.0]}
                    else:
                        user[key] = {"fn": "id", "args": [], "as_value": True, "value": [[-1.5 - j, 0.25], [-3.0, -0.5]]}
                lab = f"B5v/{'+'.join(k[4:] for k in subset)}/{kind}/{''.join('TF'[not x] for x in po)}"
                p = instantiate(lab, sk, sk["canon"], po, "star" if (len(subset) == 1 and not all(po)) else "euler2", user=user)
                p["base"] = f"B5v/{'+'.join(k[4:] for k in subset)}/{kind}"
                progs.append(p)

    # B7: distributions from TFP's NUMPY substrate (legal in liesel), alone and mixed with
    # jax-substrate distributions, non-scalar log-densities
    def npd(d):
        return {**d, "np": True}

    for po in itertools.product((True, False), repeat=2):
        tag = "".join("TF"[not x] for x in po)
        items = [strong("mu", MUV, npd(N(C(0.0), C(4.0))), flag="par", per_obs=po[0]),
                 strong("y", Y3, N(R("mu"), C(1.5)), flag="obs", per_obs=po[1])]
        add(f"B7/np-prior/{tag}", items, base="B7/np-prior")
        items = [strong("sv", [[1.5, 0.5, 2.0], [0.75, 2.5, 1.0], [2.0, 2.0, 0.5]], npd(scale_prior("Gamma")), flag="par", per_obs=po[0]),
                 strong("y", Y3, npd(N(C(0.5), R("sv"))), flag="obs", per_obs=po[1])]
        add(f"B7/np-all/{tag}", items, base="B7/np-all")
        items = [strong("mu", MU, N(C(0.0), C(4.0)), flag="par", per_obs=po[0]),
                 strong("y", Y3, npd(N(R("mu"), C(1.5), pos=True)), flag="obs", per_obs=po[1])]
        add(f"B7/np-lik/{tag}", items, base="B7/np-lik")

    # B6: hyper-parameters given as python constants / lsl.Value / lsl.Var without distribution
    for hyp in ("value", "var"):
        for po in ((True, True), (False, False)):
            items = [
                strong("h_loc", [0.0, 1.5], None, wrap=hyp),
                strong("h_scale", [4.0, 0.5], None, wrap=hyp),
                strong("mu", MU, N(R("h_loc"), R("h_scale")), flag="par", per_obs=po[0]),
                strong("y", Y3, N(R("mu"), C(1.5), pos=True), flag="obs", per_obs=po[1]),
            ]
            add(f"B6/{hyp}/{''.join('TF'[not x] for x in po)}", items, base=f"B6/{hyp}")
    return progs


def distreg_programs(tier):
    """DistRegBuilder models; the reference sees the equivalent item list."""
    progs = []
    for resp in ("Normal", "Poisson"):
        for smooths in (("p",), ("np_def",), ("np_full",), ("p", "np_def"), ("p", "np_full", "np_def")):
            for scale_smooth in ((False, True) if resp == "Normal" else (False,)):
                label = f"DR/{resp}/{'+'.join(smooths)}/{int(scale_smooth)}"
                main = "loc" if resp == "Normal" else "log_rate"
                dr = {"response": resp, "y": Y4[0] if resp == "Normal" else YP4[0], "predictors": [], "smooths": []}
                dr["predictors"].append({"name": main, "link": "Identity"})
                if resp == "Normal":
                    dr["predictors"].append({"name": "scale", "link": "Exp"})
                for j, s in enumerate(smooths):
                    if s == "p":
                        dr["smooths"].append({"type": "p", "X": X4 if j == 0 else XS4, "m": 0.5, "s": 2.0, "predictor": main, "lattice": BETA2})
                    else:
                        dr["smooths"].append({"type": "np", "X": X43, "K": K3_DEF if s == "np_def" else K3_FULL, "a": 2.5, "b": 0.75, "predictor": main,
                                              "lattice": BETA3, "tau2_lattice": [10000.0, 0.5, 2.5]})
                if resp == "Normal":
                    # the scale predictor needs at least one smooth
                    dr["smooths"].append({"type": "p", "X": [[1.0], [1.0], [1.0], [1.0]] if not scale_smooth else XS4, "m": 0.0, "s": 1.5, "predictor": "scale",
                                          "lattice": [[0.0], [0.5], [-0.75]] if not scale_smooth else BETA2})
                items = distreg_items(dr)
                nstrong = sum(1 for it in items if it["k"] == "strong" and len(it["lattice"]) > 1)
                walk = "euler3" if nstrong <= 3 else ("euler2" if nstrong <= 5 else "star")
                progs.append({"label": label, "kind": "distreg", "distreg": dr, "items": items, "user": {}, "walk": walk, "targeted": True, "base": label})
    return progs


def distreg_items(dr: dict) -> list[dict]:
    """The item list equivalent to what DistRegBuilder documents to build (names follow
    its naming scheme: <predictor>_<p|np><k>_beta, ..._tau2)."""
    items = []
    counters: dict[tuple, int] = {}
    smooth_names: dict[str, list[str]] = {p["name"]: [] for p in dr["predictors"]}
    for s in dr["smooths"]:
        kind = "p" if s["type"] == "p" else "np"
        k = counters.get((s["predictor"], kind), 0)
        counters[(s["predictor"], kind)] = k + 1
        name = f"{s['predictor']}_{kind}{k}"
        if s["type"] == "p":
            items.append(strong(name + "_beta", s["lattice"], N(C(s["m"]), C(s["s"])), flag="par"))
        else:
            rank = int(np.linalg.matrix_rank(np.asarray(s["K"], dtype=np.float64)))
            items.append(strong(name + "_tau2", s["tau2_lattice"], {"fam": "InverseGamma", "args": {"concentration": C(s["a"]), "scale": C(s["b"])}}, flag="par"))
            items.append(strong(name + "_beta", s["lattice"], {"fam": "MVND", "args": {"loc": C(0.0), "var": R(name + "_tau2"), "pen": C(s["K"]), "rank": C(rank)}}, flag="par"))
        items.append(weak(name, "matvec", [R(name + "_beta")], {"X": s["X"]}))
        smooth_names[s["predictor"]].append(name)
    args = {}
    for p in dr["predictors"]:
        items.append(weak(p["name"] + "_pdt", "add", [R(n) for n in smooth_names[p["name"]]]))
        items.append(weak(p["name"], "id" if p["link"] == "Identity" else "exp", [R(p["name"] + "_pdt")]))
        args[p["name"]] = R(p["name"])
    items.append(strong("response", [dr["y"]], {"fam": dr["response"], "args": args}, flag="obs"))
    return items


def all_programs(tier: str) -> list[dict]:
    return family_A(tier) + family_B(tier) + distreg_programs(tier)
