"""
Harness-side seams: liesel (and blackjax) draw all randomness through ``jax.random.*``
attribute lookups, so patching those attributes puts every draw under harness control.
No source hook in liesel is needed.
"""

from __future__ import annotations

import contextlib
from typing import Any, Callable


class ScriptExhausted(RuntimeError):
    pass


class ScriptedPRNG:
    """
    Context manager replacing jax.random.{normal, uniform, bernoulli, gamma,
    categorical, permutation, truncated_normal} (and blackjax.util.normal's source of
    normals) by scripted answers.

    ``script`` is a list of answers consumed in call order, or a callable
    ``(fn_name, call_index, shape, info) -> answer``. Every call is logged in ``log``
    as dict(fn, shape, info). An exhausted script raises ScriptExhausted; use
    ``assert_consumed()`` to make sure the whole script was used (proves the seam saw
    every draw).

    Answers: normal/uniform/gamma/truncated_normal -> array broadcastable to the
    requested shape; bernoulli -> a uniform u in [0,1) (result is ``u < p``; p is
    logged); categorical -> integer index (logits are logged); permutation -> a
    permutation (list).
    """

    FUNCS = ("normal", "uniform", "bernoulli", "gamma", "categorical", "permutation", "truncated_normal")

    def __init__(self, script: list | Callable[..., Any], passthrough: tuple[str, ...] = ()):
        self.script = script
        self.pos = 0
        self.log: list[dict] = []
        self.keys: list = []  # raw key data of every draw (None if not concrete)
        self.passthrough = passthrough
        self._orig: dict[str, Any] = {}

    # -- answers -------------------------------------------------------------------
    def _next(self, fn: str, shape, info: dict):
        self.log.append({"fn": fn, "shape": tuple(shape), **info})
        self.keys.append(info.pop("key", None))
        i = self.pos
        self.pos += 1
        if callable(self.script):
            return self.script(fn, i, tuple(shape), info)
        if i >= len(self.script):
            raise ScriptExhausted(f"draw #{i} ({fn}{tuple(shape)}) beyond the script")
        return self.script[i]

    def duplicate_keys(self):
        """Keys that were consumed by more than one draw (None entries are ignored)."""
        seen, dup = set(), []
        for k in self.keys:
            if k is None:
                continue
            if k in seen:
                dup.append(k)
            seen.add(k)
        return dup

    def assert_consumed(self):
        if not callable(self.script) and self.pos != len(self.script):
            raise RuntimeError(f"script has {len(self.script)} answers, {self.pos} were consumed")

    # -- patching --------------------------------------------------------------------
    def __enter__(self):
        import jax
        import jax.numpy as jnp
        import numpy as np

        R = jax.random
        seam = self

        def conc(x):
            """Concrete value for the log if available (not under tracing)."""
            try:
                return np.asarray(x).tolist()
            except Exception:
                return None

        def keyd(key):
            try:
                k = key if not hasattr(key, "dtype") or not jax.dtypes.issubdtype(key.dtype, jax.dtypes.prng_key) else jax.random.key_data(key)
                return tuple(int(x) for x in np.asarray(k).ravel())
            except Exception:
                return None

        def normal(key, shape=(), dtype=float):
            a = seam._next("normal", shape, {"key": keyd(key)})
            return jnp.broadcast_to(jnp.asarray(a, dtype=dtype), shape)

        def uniform(key, shape=(), dtype=float, minval=0.0, maxval=1.0):
            a = seam._next("uniform", shape, {"minval": conc(minval), "maxval": conc(maxval), "key": keyd(key)})
            return jnp.broadcast_to(jnp.asarray(a, dtype=dtype), shape)

        def truncated_normal(key, lower, upper, shape=None, dtype=float):
            shp = shape if shape is not None else jnp.broadcast_shapes(jnp.shape(lower), jnp.shape(upper))
            a = seam._next("truncated_normal", shp, {"lower": conc(lower), "upper": conc(upper), "key": keyd(key)})
            return jnp.broadcast_to(jnp.asarray(a, dtype=dtype), shp)

        def bernoulli(key, p=0.5, shape=None):
            shp = shape if shape is not None else jnp.shape(p)
            u = seam._next("bernoulli", shp, {"p": conc(p), "key": keyd(key)})
            return jnp.asarray(u) < p

        def gamma(key, a, shape=None, dtype=float):
            shp = shape if shape is not None else jnp.shape(a)
            g = seam._next("gamma", shp, {"a": conc(a), "key": keyd(key)})
            return jnp.broadcast_to(jnp.asarray(g, dtype=jnp.result_type(float)), shp)

        def categorical(key, logits, axis=-1, shape=None):
            i = seam._next("categorical", jnp.shape(logits), {"logits": conc(logits), "key": keyd(key)})
            return jnp.asarray(i, dtype=jnp.int32)

        def permutation(key, x, axis=0, independent=False):
            n = x if isinstance(x, int) else len(x)
            p = seam._next("permutation", (n,), {"key": keyd(key)})
            p = jnp.asarray(p)
            return p if isinstance(x, int) else jnp.asarray(x)[p]

        repl = dict(normal=normal, uniform=uniform, bernoulli=bernoulli, gamma=gamma,
                    categorical=categorical, permutation=permutation, truncated_normal=truncated_normal)
        for name, fn in repl.items():
            if name in self.passthrough:
                continue
            self._orig[name] = getattr(R, name)
            setattr(R, name, fn)
        # blackjax binds `normal` by name (from jax.random import normal)
        if "normal" not in self.passthrough:
            try:
                import blackjax.util as bu

                self._bj = (bu, bu.normal)
                bu.normal = normal
            except ImportError:  # pragma: no cover
                self._bj = None
        return self

    def __exit__(self, *exc):
        import jax

        for name, fn in self._orig.items():
            setattr(jax.random, name, fn)
        self._orig.clear()
        if getattr(self, "_bj", None):
            self._bj[0].normal = self._bj[1]
            self._bj = None
        return False


def find_zero_uniform_key(limit: int = 1 << 25):
    """Smallest i with jax.random.uniform(PRNGKey(i)) == 0.0 (enumeration, vmapped)."""
    import jax
    import jax.numpy as jnp

    f = jax.jit(jax.vmap(lambda i: jax.random.uniform(jax.random.PRNGKey(i))))
    step = 1 << 20
    for lo in range(0, limit, step):
        u = f(jnp.arange(lo, lo + step))
        idx = jnp.where(u == 0.0)[0]
        if idx.size:
            return int(lo + idx[0])
    return None


@contextlib.contextmanager
def quiet():
    """Silences liesel's loggers and tqdm progress bars inside checks."""
    import logging

    lg = logging.getLogger("liesel")
    old = lg.level
    lg.setLevel(logging.ERROR)
    try:
        yield
    finally:
        lg.setLevel(old)
