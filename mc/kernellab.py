"""
Kernel lab shared by C09 and C04: small models with closed-form float64 references,
transparent logging proxies for kernels, and scripted environment answers.
"""

from __future__ import annotations

import math

import numpy as np

X = np.array([[1.0, -0.5], [0.2, 0.8], [-1.0, 0.3], [0.5, 0.5]], dtype=np.float64)
Y = np.array([0.3, -0.2, 1.1, 0.4], dtype=np.float64)
LOG2PI = math.log(2 * math.pi)


# ---------------------------------------------------------------------------------
# Liesel regression model with derived nodes and a discrete indicator
# ---------------------------------------------------------------------------------


def build_liesel_model():
    """
    mu ~ N(0, 3); beta ~ N(0, 2) (vector 2); log_sigma ~ N(0, 1); z ~ Bernoulli(0.3)
    offset: a bare Value node (no Var) with a var-less Dist N(0, 0.5) evaluated at it
    sigma = exp(log_sigma) is a WEAK variable that also carries a distribution IG(2, 1)
    eta = mu + X beta + 0.5 z + offset; y ~ N(eta, sigma)  (observed)
    pred = eta_twice + 1, eta_twice = 2 eta a bare Calc node: derived quantities that feed no distribution
    """
    import jax.numpy as jnp
    import liesel.model as lsl
    import tensorflow_probability.substrates.jax.distributions as tfd

    mu = lsl.param(jnp.float32(0.1), lsl.Dist(tfd.Normal, loc=0.0, scale=3.0), name="mu")
    beta = lsl.param(jnp.array([0.2, -0.1], dtype=jnp.float32), lsl.Dist(tfd.Normal, loc=0.0, scale=2.0), name="beta")
    log_sigma = lsl.param(jnp.float32(-0.2), lsl.Dist(tfd.Normal, loc=0.0, scale=1.0), name="log_sigma")
    z = lsl.param(jnp.int32(1), lsl.Dist(tfd.Bernoulli, probs=0.3), name="z")
    offset = lsl.Value(jnp.float32(0.05), _name="offset")
    offset_dist = lsl.Dist(tfd.Normal, loc=0.0, scale=0.5, _name="offset_log_prob")
    offset_dist.at = offset
    sigma = lsl.Var(lsl.Calc(jnp.exp, log_sigma), lsl.Dist(tfd.InverseGamma, concentration=2.0, scale=1.0), name="sigma")
    sigma.parameter = True
    xm = lsl.Var(jnp.asarray(X, dtype=jnp.float32), name="X")
    eta = lsl.Var(lsl.Calc(lambda m, x, b, zz, off: m + x @ b + 0.5 * zz + off, mu, xm, beta, z, offset), name="eta")
    y = lsl.obs(jnp.asarray(Y, dtype=jnp.float32), lsl.Dist(tfd.Normal, loc=eta, scale=sigma), name="y")
    # a BARE Calc (no Var around it) between a parameter's descendants and a downstream variable
    eta_twice = lsl.Calc(lambda e: 2.0 * e, eta, _name="eta_twice")
    pred = lsl.Var(lsl.Calc(lambda t: t + 1.0, eta_twice), name="pred")
    # posterior-predictive replicate: a strong variable WITHOUT distribution (not an ancestor
    # of any log-prob) and a cached statistic derived from it
    y_rep = lsl.Var(jnp.asarray(Y, dtype=jnp.float32) * 0.0, name="y_rep")
    rep_stat = lsl.Var(lsl.Calc(lambda r: jnp.sum(r) + 0.5, y_rep), name="rep_stat")
    # a parameter transformed with a bijector CLASS whose argument is a model quantity:
    # w = sigma * w_transformed, w ~ N(0, 1)
    w = lsl.param(jnp.float32(0.4), lsl.Dist(tfd.Normal, loc=0.0, scale=1.0), name="w")
    import tensorflow_probability.substrates.jax.bijectors as tfb

    w.transform(tfb.Scale, scale=sigma)
    return lsl.GraphBuilder().add(y, pred, offset_dist, rep_stat, w).build_model()


PARAMS = ["mu", "beta", "log_sigma", "z", "offset", "y_rep", "w_transformed"]


def param_node(p: str) -> str:
    """Name of the node that stores parameter p in a model state."""
    return "offset" if p == "offset" else f"{p}_value"


_ETA = {"eta_value", "eta_var_value", "y_log_prob", "eta_twice", "pred_value", "pred_var_value"}
# node names that may change when a parameter changes (reference adjacency, by hand)
DESCENDANTS = {
    "mu": {"mu_value", "mu_var_value", "mu_log_prob"} | _ETA,
    "beta": {"beta_value", "beta_var_value", "beta_log_prob"} | _ETA,
    "log_sigma": {"log_sigma_value", "log_sigma_var_value", "log_sigma_log_prob", "sigma_value", "sigma_var_value", "sigma_log_prob", "y_log_prob",
                  "w_value", "w_var_value", "w_transformed_log_prob"},
    "y_rep": {"y_rep_value", "y_rep_var_value", "rep_stat_value", "rep_stat_var_value"},
    "w_transformed": {"w_transformed_value", "w_transformed_var_value", "w_transformed_log_prob", "w_value", "w_var_value"},
    "z": {"z_value", "z_var_value", "z_log_prob"} | _ETA,
    "offset": {"offset", "offset_log_prob"} | _ETA,
}
MODEL_NODES = {"_model_log_prob", "_model_log_prior", "_model_log_lik"}


def ref_liesel(params: dict) -> dict:
    """float64 reference of every derived quantity from the parameter values."""
    mu = float(params["mu"])
    beta = np.asarray(params["beta"], dtype=np.float64)
    ls = float(params["log_sigma"])
    z = int(params["z"])
    off = float(params["offset"])
    sigma = math.exp(ls)
    eta = mu + X @ beta + 0.5 * z + off

    def norm_lp(x, m, s):
        return -0.5 * ((x - m) / s) ** 2 - math.log(s) - 0.5 * LOG2PI

    lp_mu = norm_lp(mu, 0.0, 3.0)
    lp_beta = norm_lp(beta, 0.0, 2.0)
    lp_ls = norm_lp(ls, 0.0, 1.0)
    lp_z = math.log(0.3) if z == 1 else math.log(0.7)
    lp_off = norm_lp(off, 0.0, 0.5)
    a, b = 2.0, 1.0
    lp_sigma = a * math.log(b) - math.lgamma(a) - (a + 1) * math.log(sigma) - b / sigma
    lp_y = norm_lp(Y, eta, sigma)
    y_rep = np.asarray(params["y_rep"], dtype=np.float64)
    wt = float(params["w_transformed"])
    w = sigma * wt
    lp_wt = norm_lp(w, 0.0, 1.0) + ls  # |d w / d w_t| = sigma
    # the var-less offset dist is neither observed nor parameter: it enters log_prob only
    prior = lp_mu + lp_beta.sum() + lp_ls + lp_z + lp_sigma + lp_wt
    lik = lp_y.sum()
    return {
        "sigma_value": sigma,
        "eta_value": eta,
        "eta_twice": 2.0 * eta,
        "pred_value": 2.0 * eta + 1.0,
        "rep_stat_value": float(np.sum(y_rep)) + 0.5,
        "w_value": w,
        "w_transformed_log_prob": lp_wt,
        "mu_log_prob": lp_mu,
        "beta_log_prob": lp_beta,
        "log_sigma_log_prob": lp_ls,
        "sigma_log_prob": lp_sigma,
        "z_log_prob": lp_z,
        "offset_log_prob": lp_off,
        "y_log_prob": lp_y,
        "_model_log_prior": prior,
        "_model_log_lik": lik,
        "_model_log_prob": prior + lik + lp_off,
    }


def params_of_state(state) -> dict:
    return {p: np.asarray(state[param_node(p)].value) for p in PARAMS}


def state_leaves(state) -> dict:
    """name -> numpy value (None for transient nodes) for a Liesel model state."""
    out = {}
    for k, ns in state.items():
        v = ns.value
        out[k] = None if v is None else np.asarray(v)
    return out


def leaves_equal(a, b) -> bool:
    if a is None or b is None:
        return a is None and b is None
    return a.shape == b.shape and bool(np.array_equal(a, b, equal_nan=True))


# ---------------------------------------------------------------------------------
# dict model
# ---------------------------------------------------------------------------------


def dict_log_prob_np(s) -> float:
    a, b, c = float(s["a"]), np.asarray(s["b"], dtype=np.float64), float(s["c"])
    return -0.5 * (a - 0.3 * c) ** 2 - 0.5 * float(np.sum((b - a) ** 2)) / 0.8 - 0.5 * (c / 1.5) ** 2 + 0.1 * a * float(b[0])


def dict_log_prob_jax(s):
    import jax.numpy as jnp

    a, b, c = s["a"], s["b"], s["c"]
    return -0.5 * (a - 0.3 * c) ** 2 - 0.5 * jnp.sum((b - a) ** 2) / 0.8 - 0.5 * (c / 1.5) ** 2 + 0.1 * a * b[0]


def dict_state():
    import jax.numpy as jnp

    return {"a": jnp.float32(0.2), "b": jnp.array([0.1, -0.3], dtype=jnp.float32), "c": jnp.float32(0.5)}


# ---------------------------------------------------------------------------------
# logging proxy
# ---------------------------------------------------------------------------------


class Proxy:
    """Transparent wrapper around a kernel that records every transition's input/output."""

    def __init__(self, kernel, log: list):
        object.__setattr__(self, "_k", kernel)
        object.__setattr__(self, "_log", log)

    def __getattr__(self, name):
        return getattr(self._k, name)

    def __setattr__(self, name, value):
        setattr(self._k, name, value)

    def transition(self, prng_key, kernel_state, model_state, epoch):
        out = self._k.transition(prng_key, kernel_state, model_state, epoch)
        try:
            kd = tuple(int(x) for x in np.asarray(prng_key).ravel())
        except Exception:
            kd = None
        self._log.append({"kernel": self._k.identifier, "keys": tuple(self._k.position_keys), "in": model_state, "out": out.model_state, "info": out.info, "ks_in": kernel_state, "ks_out": out.kernel_state, "prng_key": kd})
        return out


def make_kernel(spec: dict, model=None):
    """spec: {"type": RW|IWLS|HMC|NUTS|MH|GIBBS, "keys": [...]} -> liesel kernel."""
    import jax
    import jax.numpy as jnp
    import liesel.goose as gs

    t, keys = spec["type"], spec["keys"]
    if t == "RW":
        return gs.RWKernel(keys, initial_step_size=spec.get("step", 0.4))
    if t == "IWLS":
        return gs.IWLSKernel(keys, initial_step_size=spec.get("step", 0.7))
    if t == "HMC":
        return gs.HMCKernel(keys, initial_step_size=spec.get("step", 0.15), num_integration_steps=2)
    if t == "NUTS":
        return gs.NUTSKernel(keys, initial_step_size=spec.get("step", 0.15), max_treedepth=2)
    if t == "MH":
        key0 = keys[0]

        def proposal(key, model_state, step_size):
            # asymmetric multiplicative-free proposal: x' = x + step * (0.3 + |n|) with a
            # declared correction of log q(x'|x) - log q(x|x') = 0 for the symmetric part;
            # here: symmetric shift, so the correction is 0
            pos = model_state[param_node(key0)].value if param_node(key0) in model_state else model_state[key0]
            n = jax.random.normal(key, jnp.shape(pos))
            return gs.MHProposal({key0: pos + step_size * 0.5 * n}, jnp.float32(0.0))

        return gs.MHKernel(keys, proposal, initial_step_size=spec.get("step", 0.6))
    if t == "PPGIBBS":

        def pp(key, model_state):
            eta = model_state["eta_value"].value
            sig = model_state["sigma_value"].value
            return {"y_rep": eta + sig * jax.random.normal(key, jnp.shape(eta))}

        return gs.GibbsKernel(["y_rep"], pp)
    if t == "GIBBS":
        import liesel.model as lsl  # noqa

        from liesel.model.goose import finite_discrete_gibbs_kernel

        return finite_discrete_gibbs_kernel(keys[0], model, outcomes=[0, 1])
    raise ValueError(t)


def key_problems(log, input_key=None):
    """Premise of every law reconstruction: kernels of one sweep get pairwise distinct keys."""
    ks = [e["prng_key"] for e in log if e.get("prng_key") is not None]
    out = []
    if len(set(ks)) != len(ks):
        out.append("two kernel calls received the same PRNG key")
    if input_key is not None:
        ik = tuple(int(x) for x in np.asarray(input_key).ravel())
        if ik in ks:
            out.append("a kernel received the sequence's own (unsplit) PRNG key")
    return out


def kernel_state_changed(ks_in, ks_out) -> bool:
    import jax

    a, b = jax.tree_util.tree_leaves(ks_in), jax.tree_util.tree_leaves(ks_out)
    if len(a) != len(b):
        return True
    return any(not np.array_equal(np.asarray(x), np.asarray(y)) for x, y in zip(a, b))


# ---------------------------------------------------------------------------------
# Liesel model with a TRANSFORMED parameter (Var.transform(tfb.Exp()))
# ---------------------------------------------------------------------------------

Y_TR = np.array([0.7, -1.1, 0.4, 1.6, -0.3], dtype=np.float64)


def build_transformed_model():
    """
    tau2 ~ InverseGamma(2, 1.5), transformed with tfb.Exp(): t = log tau2 is the parameter
    m ~ N(0, 2);  y_i ~ N(m, sqrt(tau2))  (observed)
    """
    import jax.numpy as jnp
    import liesel.model as lsl
    import tensorflow_probability.substrates.jax.bijectors as tfb
    import tensorflow_probability.substrates.jax.distributions as tfd

    tau2 = lsl.param(jnp.float32(0.8), lsl.Dist(tfd.InverseGamma, concentration=2.0, scale=1.5), name="tau2")
    tau2.transform(tfb.Exp())
    m = lsl.param(jnp.float32(0.2), lsl.Dist(tfd.Normal, loc=0.0, scale=2.0), name="m")
    sd = lsl.Var(lsl.Calc(jnp.sqrt, tau2), name="sd")
    y = lsl.obs(jnp.asarray(Y_TR, dtype=jnp.float32), lsl.Dist(tfd.Normal, loc=m, scale=sd), name="y")
    return lsl.GraphBuilder().add(y).build_model()


TR_PARAMS = ["tau2_transformed", "m"]


def ref_transformed(params: dict) -> float:
    """float64 log posterior in (t, m) with the change-of-variables term."""
    t = float(params["tau2_transformed"])
    m = float(params["m"])
    tau2 = math.exp(t)
    a, b = 2.0, 1.5
    lp_tau2 = a * math.log(b) - math.lgamma(a) - (a + 1) * math.log(tau2) - b / tau2
    lp_t = lp_tau2 + t  # |d tau2 / d t| = exp(t)
    lp_m = -0.5 * (m / 2.0) ** 2 - math.log(2.0) - 0.5 * LOG2PI
    lik = float(np.sum(-0.5 * (Y_TR - m) ** 2 / tau2 - 0.5 * math.log(tau2) - 0.5 * LOG2PI))
    return lp_t + lp_m + lik


def build_class_transformed_model():
    """
    log_tau ~ N(0, 1); tau = exp(log_tau)
    b ~ N(0, 1.5), transformed with the bijector CLASS tfb.Scale and a model-dependent
    argument scale=tau:  b = tau * z,  z = "b_transformed" is the sampled parameter
    y_i ~ N(b, 1)  (observed)
    """
    import jax.numpy as jnp
    import liesel.model as lsl
    import tensorflow_probability.substrates.jax.bijectors as tfb
    import tensorflow_probability.substrates.jax.distributions as tfd

    log_tau = lsl.param(jnp.float32(0.3), lsl.Dist(tfd.Normal, loc=0.0, scale=1.0), name="log_tau")
    tau = lsl.Var(lsl.Calc(jnp.exp, log_tau), name="tau")
    b = lsl.param(jnp.float32(0.6), lsl.Dist(tfd.Normal, loc=0.0, scale=1.5), name="b")
    b.transform(tfb.Scale, scale=tau)
    y = lsl.obs(jnp.asarray(Y_TR[:4], dtype=jnp.float32), lsl.Dist(tfd.Normal, loc=b, scale=1.0), name="y")
    return lsl.GraphBuilder().add(y).build_model()


TRC_PARAMS = ["b_transformed", "log_tau"]


def ref_class_transformed(params: dict) -> float:
    z = float(params["b_transformed"])
    lt = float(params["log_tau"])
    tau = math.exp(lt)
    b = tau * z
    lp_b = -0.5 * (b / 1.5) ** 2 - math.log(1.5) - 0.5 * LOG2PI
    lp_z = lp_b + lt  # |d b / d z| = tau
    lp_lt = -0.5 * lt**2 - 0.5 * LOG2PI
    lik = float(np.sum(-0.5 * (Y_TR[:4] - b) ** 2 - 0.5 * LOG2PI))
    return lp_z + lp_lt + lik


def build_auto_transformed_model():
    """
    tau2 ~ Gamma(2, rate 1) with auto_transform=True: build_model() itself transforms it with the
    default event-space bijector (Softplus): t = "tau2_transformed" is the sampled parameter
    m ~ N(0, 2);  y_i ~ N(m, sqrt(tau2))  (observed)
    """
    import jax.numpy as jnp
    import liesel.model as lsl
    import tensorflow_probability.substrates.jax.distributions as tfd

    tau2 = lsl.param(jnp.float32(0.8), lsl.Dist(tfd.Gamma, concentration=2.0, rate=1.0), name="tau2")
    tau2.auto_transform = True
    m = lsl.param(jnp.float32(0.2), lsl.Dist(tfd.Normal, loc=0.0, scale=2.0), name="m")
    sd = lsl.Var(lsl.Calc(jnp.sqrt, tau2), name="sd")
    y = lsl.obs(jnp.asarray(Y_TR, dtype=jnp.float32), lsl.Dist(tfd.Normal, loc=m, scale=sd), name="y")
    return lsl.GraphBuilder().add(y).build_model()


def ref_auto_transformed(params: dict) -> float:
    t = float(params["tau2_transformed"])
    m = float(params["m"])
    tau2 = math.log1p(math.exp(t))  # softplus
    log_jac = -math.log1p(math.exp(-t))  # log sigmoid(t)
    a, r = 2.0, 1.0
    lp_tau2 = a * math.log(r) - math.lgamma(a) + (a - 1) * math.log(tau2) - r * tau2
    lp_m = -0.5 * (m / 2.0) ** 2 - math.log(2.0) - 0.5 * LOG2PI
    lik = float(np.sum(-0.5 * (Y_TR - m) ** 2 / tau2 - 0.5 * math.log(tau2) - 0.5 * LOG2PI))
    return lp_tau2 + log_jac + lp_m + lik
