"""
Runner:  python -m mc.run <ID> [--tier quick|thorough] [--replay file] [--jobs N]

Exit status: 0 property held on everything explored (known findings are printed as
KNOWN-FINDING lines), 1 at least one VIOLATION, 2 harness error.
"""

from __future__ import annotations

import argparse
import importlib
import json
import os
import sys
import time

# environment for this process and all workers, before anything imports jax
os.environ.setdefault("JAX_PLATFORMS", "cpu")
os.environ.setdefault(
    "XLA_FLAGS",
    "--xla_force_host_platform_device_count=1 --xla_cpu_multi_thread_eigen=false "
    "intra_op_parallelism_threads=1",
)
os.environ.setdefault("OMP_NUM_THREADS", "1")
os.environ.setdefault("OPENBLAS_NUM_THREADS", "1")
os.environ.setdefault("MKL_NUM_THREADS", "1")
os.environ.setdefault("TF_CPP_MIN_LOG_LEVEL", "3")
os.environ.setdefault("PYTHONHASHSEED", "0")
os.environ.setdefault("PYTHONWARNINGS", "ignore")

from . import core  # noqa: E402

LEVEL = "model_checking"


def _pool(jobs: int):
    import multiprocessing as mp
    from concurrent.futures import ProcessPoolExecutor

    ctx = mp.get_context("spawn")
    return ProcessPoolExecutor(max_workers=jobs, mp_context=ctx)


def run_units(modname: str, units: list[dict], jobs: int) -> list[dict]:
    if jobs <= 1 or len(units) <= 1:
        return [core.worker_run(modname, u) for u in units]
    results: list[dict | None] = [None] * len(units)
    with _pool(min(jobs, len(units))) as ex:
        futs = {ex.submit(core.worker_run, modname, u): i for i, u in enumerate(units)}
        from concurrent.futures import as_completed

        for f in as_completed(futs):
            results[futs[f]] = f.result()
    return results  # type: ignore


def write_evidence(prop, tier, seed, cov, assumptions, wall, nviol):
    ev = {
        "property_id": prop,
        "tier": tier,
        "seed": seed,
        "level": LEVEL,
        "coverage": cov,
        "assumptions": assumptions,
        "wall_s": round(wall, 2),
        "violations": nviol,
    }
    try:
        import jsonschema

        schema = json.load(open("/root/.vp/EVIDENCE.schema.json"))
        jsonschema.validate(ev, schema)
    except ImportError:
        pass
    except FileNotFoundError:
        pass
    os.makedirs(os.path.join(core.VERIF, "evidence"), exist_ok=True)
    path = os.path.join(core.VERIF, "evidence", f"{prop}.json")
    tmp = path + ".tmp"
    with open(tmp, "w") as fh:
        json.dump(ev, fh, indent=1, sort_keys=True)
        fh.write("\n")
    os.replace(tmp, path)
    return path


def main(argv=None) -> int:
    ap = argparse.ArgumentParser()
    ap.add_argument("prop")
    ap.add_argument("--tier", default=os.environ.get("VERIF_TIER", "quick"))
    ap.add_argument("--replay")
    ap.add_argument("--jobs", type=int, default=int(os.environ.get("VERIF_JOBS", os.cpu_count() or 4)))
    ap.add_argument("--only", help="substring filter on unit JSON (debugging; evidence is not written)")
    args = ap.parse_args(argv)
    prop = args.prop.upper()
    tier = args.tier if args.tier in ("quick", "thorough") else "quick"
    seed = int(os.environ.get("VERIF_SEED", "0") or 0)
    modname = f"mc.checks.{prop.lower()}"
    core._setup_repo_path()
    core.settle_arviz_stamp()
    t0 = time.time()

    if args.replay:
        rec = json.load(open(args.replay))
        res = core.worker_run(modname, rec["unit"])
        if "harness_error" in res:
            print(res["traceback"])
            return 2
        same = [v for v in res["violations"] if v["check"] == rec["check"] and v["sig"] == rec["sig"]]
        for v in res["violations"]:
            print(f"replayed violation: {v['check']}:{v['sig']}: {v['message']}")
        if same:
            print(f"VIOLATION property={prop} replay={args.replay}")
            return 1
        print("replay: the recorded violation did not reproduce")
        return 0

    mod = importlib.import_module(modname)
    units = mod.units(tier, seed)
    if args.only:
        units = [u for u in units if args.only in json.dumps(u, sort_keys=True)]
    print(f"[{prop}] tier={tier} seed={seed} units={len(units)} jobs={args.jobs} repo={os.environ.get('VERIF_REPO', '/repo')}")
    sys.stdout.flush()

    # determinism: the first unit is additionally run a second time in another process
    todo = list(units)
    if units and not args.only:
        todo.append(units[0])
    results = run_units(modname, todo, args.jobs)
    twin = None
    if units and not args.only:
        twin = results.pop()

    herr = [r for r in results if "harness_error" in r]
    if twin is not None and "harness_error" in twin:
        herr.append(twin)
    if herr:
        for r in herr[:3]:
            print(f"HARNESS-ERROR unit={json.dumps(r['unit'], sort_keys=True)[:400]}: {r['harness_error']}")
            print(r["traceback"])
        print(f"[{prop}] {len(herr)} harness error(s); no verdict")
        return 2
    if twin is not None and twin["digest"] != results[0]["digest"]:
        # two runs of the same unit differ. If both runs report the same non-empty set of violations
        # the system under test itself is nondeterministic (that can be the very property violated,
        # e.g. C10); only a difference WITHOUT a verdict is a harness problem.
        sa = sorted({f"{v['check']}:{v['sig']}" for v in twin.get("violations", [])})
        sb = sorted({f"{v['check']}:{v['sig']}" for v in results[0].get("violations", [])})
        if not sa or sa != sb:
            print(f"HARNESS-ERROR nondeterminism: unit 0 digests differ {twin['digest']} != {results[0]['digest']}")
            return 2
        print(f"note: unit 0 is not reproducible across processes, but both runs report the same violations {sa[:3]}")

    violations = [v for r in results for v in r["violations"]]
    if hasattr(mod, "finalize"):
        violations.extend(mod.finalize(results, tier, seed) or [])

    # a violating unit is re-run once and must fail identically
    if violations:
        u = violations[0]["unit"]
        if u is not None:
            again = core.worker_run(modname, u)
            a = sorted(f"{v['check']}:{v['sig']}" for v in again.get("violations", []))
            b = sorted(f"{v['check']}:{v['sig']}" for v in violations if v["unit"] == u)
            if "harness_error" in again or a != b:
                print("HARNESS-ERROR a violating unit did not fail identically on re-run")
                print(a, b, again.get("harness_error"))
                return 2

    findings = core.load_findings()
    known, new = {}, {}
    for v in violations:
        f = core.match_finding(findings, prop, v)
        key = f"{v['check']}:{v['sig']}"
        if f is not None:
            known.setdefault(f["sig"], (f, v))
        else:
            new.setdefault(key, v)

    for sig, (f, v) in known.items():
        print(f"KNOWN-FINDING: property={prop} {f['what']}")

    rc = 0
    os.makedirs(os.path.join(core.VERIF, "replays", prop), exist_ok=True)
    for key, v in list(new.items())[:20]:
        d = core.digest([v["check"], v["sig"], v["case"]])
        path = os.path.join(core.VERIF, "replays", prop, f"{d}.json")
        with open(path, "w") as fh:
            json.dump(v, fh, indent=1, sort_keys=True)
        print(f"  {v['check']}:{v['sig']}: {v['message']}")
        print(f"VIOLATION property={prop} replay={path}")
        rc = 1

    # evidence
    states = sum(r["states"] for r in results)
    transitions = sum(r["transitions"] for r in results)
    executions = sum(r["executions"] for r in results)
    outcomes = set()
    for r in results:
        outcomes.update(r["outcomes"])
    caps = sorted({c for r in results for c in r["caps"]})
    samples = []
    for r in results:
        for s in r["samples"]:
            if len(samples) < 4:
                samples.append(s)
    extra = {}
    for r in results:
        for k, val in r.get("extra", {}).items():
            if isinstance(val, (int, float)) and not isinstance(val, bool):
                extra[k] = extra.get(k, 0) + val
            else:
                extra.setdefault(k, val)
    cov = {
        "states": states,
        "transitions": transitions,
        "traces_validated_against_impl": executions,
        "evaluations": executions,
        "distinct_nontrivial": len(outcomes),
        "distinct_outcomes": len(outcomes),
        "rule": getattr(mod, "RULE", ""),
        "samples": samples or [{"unit": units[0]}] if units else [],
        "units": len(units),
        "caps_hit": caps,
        "exhaustive": not caps,
        "bounds": getattr(mod, "bounds", lambda t: {})(tier),
        "known_findings_reproduced": len(known),
        "determinism_twin_digest_equal": twin is not None,
        "extra": extra,
    }
    wall = time.time() - t0
    foreign = os.path.realpath(os.environ.get("VERIF_REPO", "/repo")) != "/repo" or os.environ.get("VERIF_NO_EVIDENCE")
    if not args.only and not foreign:
        path = write_evidence(prop, tier, seed, cov, getattr(mod, "ASSUMPTIONS", []), wall, len(new))
    print(
        f"[{prop}] states={states} transitions={transitions} executions={executions} "
        f"distinct_outcomes={len(outcomes)} caps={caps} violations={len(new)} known={len(known)} wall={wall:.1f}s"
    )
    return rc


def _main_guarded() -> int:
    try:
        return main()
    except SystemExit:
        raise
    except BaseException:  # a problem of the harness is never a verdict
        import traceback

        traceback.print_exc()
        print("HARNESS-ERROR exception in the runner; no verdict")
        return 2


if __name__ == "__main__":
    sys.exit(_main_guarded())
