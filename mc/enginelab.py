"""
enginelab - shared harness for engine-level checks (C07, C08; importable by C10, C19).

Everything here is harness-side: *tracer kernels* that implement liesel's ``Kernel``
protocol and whose kernel state is a fixed-shape ``int32[L, F]`` event log plus a
cursor. Every lifecycle call appends one row, so after a run the complete sequence of
calls a kernel received (per chain) can be decoded from ``engine._kernel_states``. It is
pure data flow and therefore works under ``jit`` / ``vmap`` / ``scan`` / ``lax.cond``.

Public API (keep it small):

    FIELDS, EV_*                      layout of a log row, event codes
    KEY_CODE                          position key -> digit used in generated values
    value(key, shape, c, e, t1)       numpy: the value a tracer kernel writes in chain c,
                                      epoch number e, within-epoch iteration t1 = t+1
                                      (e = 0, t1 = 0: the initial value)
    initial_state(chains, shapes)     stacked (chain axis first) DictInterface state
    TracerKernel / MixinTracerKernel  the kernels (``make_kernel(spec, index)``)
    TracerQuantity                    a QuantityGenerator ("value" = 2 * first element of a key,
                                      "tag" = epoch clock it saw)
    build(cfg) -> Lab                 builds a real Engine from a JSON-able config,
                                      through ``EngineBuilder`` or the ``Engine`` constructor
    Lab.run(path)                     executes an append/sample interleaving
    Lab.logs()                        decoded logs: [kernel][chain] -> list of row dicts
    paths(n, p, min_pending_for_all)  all interleavings of append_epoch / sample_next_epoch /
                                      sample_all_epochs for n epochs of which p are given
                                      at construction
    TracerBase(..., error_fn=, update="key")   hooks for C19 (scripted error codes) and C10
                                      (key-driven positions; key words are in every log row).
    Notes for importers: the builder route falls back to writing ``_model_state`` when
    ``set_initial_values(multiple_chains=True)`` raises UnboundLocalError (pre-fix trees);
    values encode c <= 9 chains, e <= 9 epochs, t+1 <= 99 (more chains: pass your own
    initial state / decode modulo); log overflow raises in ``Lab.logs()``.
    enable_compilation_cache()        per-run XLA compilation cache (deleted at exit)
    release_memory()                  drops jax's in-memory executables (build() does it every 20 engines)

Config (all JSON-able)::

    {"via": "ctor" | "builder",
     "schedule": [["INITIAL_VALUES",1,1], ["BURNIN",2,1], ...],   # full schedule
     "prefix": 1,            # number of epochs handed over at construction
     "chunk": 2,             # jitted_sample_duration (ctor only; builder uses its gcd)
     "chains": 2,
     "kernels": [{"keys": ["x"], "style": "mixin"|"plain", "needs_history": false}, ...],
     "shapes": {"x": [], "y": [3], "w": []},   # every key of the model state but "c"
     "tracked": null | [...] # ctor: position_keys argument (null -> engine default)
     "included": [], "excluded": [],            # builder: positions_included/_excluded
     "store_kernel_states": false, "qg": false, "minimize": false,
     "seed": 0, "log_len": 48, "update": "det" | "key"}

Values written by the (default, key-ignoring) kernels::

    value = 100000*KEY_CODE[key] + 10000*j + 1000*c + 100*e + (t+1)

for flat leaf element j, chain c, epoch number e and within-epoch time t as *reported by
the engine's epoch clock* (which C07 validates against the reference), exact in float32.
"""

from __future__ import annotations

import atexit
import os
import shutil
import tempfile

import numpy as np

# -------------------------------------------------------------------------------------
# log layout
# -------------------------------------------------------------------------------------

FIELDS = (
    "event",        # EV_* code
    "nth_epoch",    # epoch.nth_epoch               (0 for end_warmup: no epoch given)
    "type",         # int(epoch.config.type)
    "duration",     # epoch.config.duration
    "thinning",     # epoch.config.thinning
    "time",         # epoch.time
    "time_before",  # epoch.time_before_epoch
    "time_in",      # epoch.time_in_epoch
    "key0",         # the two words of the PRNG key handed to the call (bit-cast to int32)
    "key1",
    "hist_len",     # tune: length of the history (-1 if None)
    "hist_digest",  # tune: weighted int32 sum over the history (0 if None)
    "seen0",        # int32 of the first element of model_state[seen_keys[0]]
    "seen1",        # same for seen_keys[1] (0 if there is no second key)
    "tune_len",     # end_warmup: number of entries in the tuning history (-1 if None)
    "tune_time",    # end_warmup: sum of the tuning history's `time` entries (0 if None)
)
F = len(FIELDS)
IDX = {n: i for i, n in enumerate(FIELDS)}

EV_START = 1
EV_TRANS_STD = 2      # mixin kernel: _standard_transition
EV_TRANS_ADAPT = 3    # mixin kernel: _adaptive_transition
EV_END = 4
EV_TUNE_FAST = 5      # mixin kernel: _tune_fast
EV_TUNE_SLOW = 6      # mixin kernel: _tune_slow
EV_END_WARMUP = 7
EV_TRANS_PLAIN = 8    # plain kernel: transition
EV_TUNE_PLAIN = 9     # plain kernel: tune
EV_NAMES = {
    1: "start", 2: "trans_std", 3: "trans_adapt", 4: "end", 5: "tune_fast",
    6: "tune_slow", 7: "end_warmup", 8: "trans", 9: "tune",
}

TYPES = {"INITIAL_VALUES": 0, "FAST_ADAPTATION": 1, "SLOW_ADAPTATION": 2, "BURNIN": 3, "POSTERIOR": 4}
TYPE_NAMES = {v: k for k, v in TYPES.items()}

KEY_CODE = {"x": 1, "y": 2, "z": 3, "w": 4, "v": 5}


def value(key: str, shape, c: int, e: int, t1: int) -> np.ndarray:
    """Reference value of position ``key`` (numpy float32), see module docstring."""
    shape = tuple(shape)
    n = int(np.prod(shape)) if shape else 1
    j = np.arange(n).reshape(shape)
    return (100000 * KEY_CODE[key] + 10000 * j + 1000 * c + 100 * e + t1).astype(np.float32)


def wrap32(x: int) -> int:
    """Two's complement wrap of a Python int to int32 (what XLA's int32 arithmetic does)."""
    return ((int(x) + 2**31) % 2**32) - 2**31


def hist_digest(history: dict) -> int:
    """
    Reference digest of a history ``{key: array[time, ...]}`` (numpy): over the keys in
    sorted order (position p) and times t, sum of (31*(t+1) + 7*p + 1) * int(first
    element), wrapped to int32.
    """
    tot = 0
    for p, k in enumerate(sorted(history)):
        a = np.asarray(history[k])
        for t in range(a.shape[0]):
            first = int(a[t].reshape(-1)[0])
            tot += (31 * (t + 1) + 7 * p + 1) * first
    return wrap32(tot)


# -------------------------------------------------------------------------------------
# XLA compilation cache (per process, removed at exit)
# -------------------------------------------------------------------------------------

_CACHE_DIR = None


def enable_compilation_cache():
    """
    Engines re-``jit`` their scan for every instance; identical HLO is then served from
    a persistent compilation cache that lives in a per-run temporary directory (shared by
    the workers of one runner) and is deleted at exit (nothing survives a run; the cache
    key is the HLO itself, so code changes in liesel can never be masked; unreadable
    entries are ignored by jax and recompiled).
    """
    global _CACHE_DIR
    if _CACHE_DIR is not None:
        return _CACHE_DIR
    import multiprocessing

    import jax

    # one directory per check run: workers of one runner share it (keyed by the runner's
    # pid), so each distinct computation is compiled once per run instead of once per worker
    owner = os.getppid() if multiprocessing.parent_process() is not None else os.getpid()
    root = "/dev/shm" if os.path.isdir("/dev/shm") else tempfile.gettempdir()
    d = os.path.join(root, f"verif-xla-{os.getuid()}-{owner}")
    os.makedirs(d, exist_ok=True)
    atexit.register(shutil.rmtree, d, True)
    jax.config.update("jax_compilation_cache_dir", d)
    for opt, val in (
        ("jax_persistent_cache_min_compile_time_secs", 0.0),
        ("jax_persistent_cache_min_entry_size_bytes", -1),
    ):
        try:
            jax.config.update(opt, val)
        except Exception:  # option not known to this jax
            pass
    _CACHE_DIR = d
    return d


# -------------------------------------------------------------------------------------
# tracer kernels
# -------------------------------------------------------------------------------------


def _liesel():
    import liesel.goose as gs
    from liesel.goose.kernel import (
        DefaultTransitionInfo,
        DefaultTuningInfo,
        TransitionMixin,
        TransitionOutcome,
        TuningMixin,
        TuningOutcome,
        WarmupOutcome,
    )

    return locals()


def _i32(x):
    """Python ints / IntEnums -> np.int32 (no device dispatch); arrays and tracers pass."""
    if isinstance(x, (int, np.integer)):
        return np.int32(int(x))
    return x


_CORE = {}


def _append_core():
    if "append" not in _CORE:
        import jax
        import jax.numpy as jnp

        i32 = jnp.int32

        @jax.jit
        def core(log, n, event, ep, prng_key, hist, seen, tune_time):
            row = [jnp.asarray(0, i32)] * F
            row[IDX["event"]] = jnp.asarray(event, i32)
            if ep is not None:
                for name, v in zip(("nth_epoch", "type", "duration", "thinning", "time", "time_before", "time_in"), ep):
                    row[IDX[name]] = jnp.asarray(v, i32)
            kw = jax.lax.bitcast_convert_type(jnp.asarray(prng_key, jnp.uint32), i32)
            row[IDX["key0"]], row[IDX["key1"]] = kw[0], kw[1]
            row[IDX["hist_len"]] = jnp.asarray(-1, i32)
            if hist is not None:
                m = jax.tree_util.tree_leaves(hist)[0].shape[0]
                row[IDX["hist_len"]] = jnp.asarray(m, i32)
                dig = jnp.asarray(0, i32)
                w = 31 * (jnp.arange(m, dtype=i32) + 1)
                for p, k in enumerate(sorted(hist)):
                    first = hist[k].reshape(m, -1)[:, 0].astype(i32)
                    dig = dig + jnp.sum((w + 7 * p + 1) * first)
                row[IDX["hist_digest"]] = dig
            for slot, v in zip(("seen0", "seen1"), seen):
                row[IDX[slot]] = jnp.reshape(v, (-1,))[0].astype(i32)
            row[IDX["tune_len"]] = jnp.asarray(-1, i32)
            if tune_time is not None:
                t = jnp.atleast_1d(jnp.asarray(tune_time, i32))
                row[IDX["tune_len"]] = jnp.asarray(t.shape[0], i32)
                row[IDX["tune_time"]] = jnp.sum(t)
            return log.at[n].set(jnp.stack(row), mode="drop"), n + 1

        _CORE["append"] = core
    return _CORE["append"]


def _values_core():
    if "values" not in _CORE:
        import functools

        import jax
        import jax.numpy as jnp

        @functools.partial(jax.jit, static_argnums=(3,))
        def core(c, e, t, spec):
            out = {}
            for k, shape, dtype in spec:
                m = int(np.prod(shape)) if shape else 1
                j = jnp.arange(m, dtype=jnp.int32).reshape(shape)
                out[k] = (100000 * KEY_CODE[k] + 10000 * j + 1000 * c + 100 * e + t + 1).astype(dtype)
            tag = (1000 * c + 100 * e + t + 1).astype(jnp.int32)
            return out, tag

        _CORE["values"] = core
    return _CORE["values"]


class TracerBase:
    """
    Implements everything of the ``Kernel`` protocol except ``transition`` and ``tune``.

    Parameters
    ----------
    position_keys   keys this kernel writes
    index           position of the kernel in the sequence (only used for the identifier)
    needs_history   value of the protocol attribute of the same name
    seen_keys       up to two model-state keys whose first element is logged on each call
    log_len         number of rows of the log (an overflow is a harness error at decode)
    update          "det": key-ignoring values (module docstring); "key": uniform draws
                    from the transition key (for reproducibility checks)
    error_fn        optional (chain c, epoch e, time_in t) -> int32 error code of a
                    transition (jax-traceable); default 0
    """

    error_book = {0: "no errors", 1: "scripted error 1", 2: "scripted error 2", 90: "nan acceptance prob"}

    def __init__(self, position_keys, index=0, needs_history=False, seen_keys=(), log_len=48,
                 update="det", identifier=None, error_fn=None):
        self.position_keys = tuple(position_keys)
        self.needs_history = bool(needs_history)
        self.identifier = identifier if identifier is not None else f"tracer_{index:02d}"
        self.seen_keys = tuple(seen_keys)[:2]
        self.log_len = int(log_len)
        self.update = update
        self.error_fn = error_fn
        self._model = None

    # -- model plumbing ------------------------------------------------------------
    def set_model(self, model):
        self._model = model

    def has_model(self):
        return self._model is not None

    # -- the log -----------------------------------------------------------------------
    def _append(self, kernel_state, event, prng_key, model_state, epoch=None, hist=None, tune_hist=None):
        """Appends one row; the arithmetic lives in the module-level jitted ``_append_core``
        (traced once per signature and shared by all kernels and engines of a process)."""
        if epoch is not None:
            ep = tuple(
                _i32(x)
                for x in (epoch.nth_epoch, epoch.config.type, epoch.config.duration, epoch.config.thinning,
                          epoch.time, epoch.time_before_epoch, epoch.time_in_epoch)
            )
        else:
            ep = None
        seen = tuple(model_state[k] for k in self.seen_keys)
        tune_time = None if tune_hist is None else tune_hist.time
        log, n = _append_core()(kernel_state["log"], kernel_state["n"], _i32(event), ep, prng_key, hist, seen, tune_time)
        return {"log": log, "n": n}

    # -- protocol --------------------------------------------------------------------
    def init_state(self, prng_key, model_state):
        import jax.numpy as jnp

        return {"log": jnp.zeros((self.log_len, F), jnp.int32), "n": jnp.asarray(0, jnp.int32)}

    def start_epoch(self, prng_key, kernel_state, model_state, epoch):
        return self._append(kernel_state, EV_START, prng_key, model_state, epoch)

    def end_epoch(self, prng_key, kernel_state, model_state, epoch):
        return self._append(kernel_state, EV_END, prng_key, model_state, epoch)

    def end_warmup(self, prng_key, kernel_state, model_state, tuning_history):
        L = _liesel()
        ks = self._append(kernel_state, EV_END_WARMUP, prng_key, model_state, None, tune_hist=tuning_history)
        return L["WarmupOutcome"](error_code=0, kernel_state=ks)

    # -- building blocks for transition / tune -------------------------------------------
    def _do_transition(self, event, prng_key, kernel_state, model_state, epoch):
        import jax
        import jax.numpy as jnp

        L = _liesel()
        ks = self._append(kernel_state, event, prng_key, model_state, epoch)
        c = jnp.asarray(model_state["c"], jnp.int32)
        e = jnp.asarray(epoch.nth_epoch, jnp.int32)
        t = jnp.asarray(epoch.time_in_epoch, jnp.int32)
        spec = tuple((k, tuple(jnp.shape(model_state[k])), str(model_state[k].dtype)) for k in self.position_keys)
        pos, tag = _values_core()(c, e, t, spec)
        if self.update == "key":
            pos = {
                k: jax.random.uniform(jax.random.fold_in(prng_key, i), jnp.shape(model_state[k]), model_state[k].dtype)
                for i, k in enumerate(self.position_keys)
            }
        new_state = self._model.update_state(pos, model_state)
        code = jnp.asarray(0, jnp.int32) if self.error_fn is None else jnp.asarray(self.error_fn(c, e, t), jnp.int32)
        info = L["DefaultTransitionInfo"](
            error_code=code,
            acceptance_prob=jnp.asarray(1.0, jnp.float32),
            # iteration tag: identifies chain, epoch and within-epoch iteration
            position_moved=tag,
        )
        return L["TransitionOutcome"](info=info, kernel_state=ks, model_state=new_state)

    def _do_tune(self, event, prng_key, kernel_state, model_state, epoch, history):
        import jax.numpy as jnp

        L = _liesel()
        ks = self._append(kernel_state, event, prng_key, model_state, epoch, hist=history)
        info = L["DefaultTuningInfo"](error_code=jnp.asarray(0, jnp.int32), time=jnp.asarray(epoch.time, jnp.int32))
        return L["TuningOutcome"](info=info, kernel_state=ks)


class TracerKernel(TracerBase):
    """Plain kernel: implements ``transition`` and ``tune`` itself (no mixins)."""

    style = "plain"

    def transition(self, prng_key, kernel_state, model_state, epoch):
        return self._do_transition(EV_TRANS_PLAIN, prng_key, kernel_state, model_state, epoch)

    def tune(self, prng_key, kernel_state, model_state, epoch, history):
        return self._do_tune(EV_TUNE_PLAIN, prng_key, kernel_state, model_state, epoch, history)


_MIXIN_CLS = None


def mixin_kernel_class():
    """``MixinTracerKernel``: liesel's TransitionMixin/TuningMixin do the dispatching."""
    global _MIXIN_CLS
    if _MIXIN_CLS is None:
        L = _liesel()

        class MixinTracerKernel(L["TransitionMixin"], L["TuningMixin"], TracerBase):
            style = "mixin"

            def _standard_transition(self, prng_key, kernel_state, model_state, epoch):
                return self._do_transition(EV_TRANS_STD, prng_key, kernel_state, model_state, epoch)

            def _adaptive_transition(self, prng_key, kernel_state, model_state, epoch):
                return self._do_transition(EV_TRANS_ADAPT, prng_key, kernel_state, model_state, epoch)

            def _tune_fast(self, prng_key, kernel_state, model_state, epoch, history):
                return self._do_tune(EV_TUNE_FAST, prng_key, kernel_state, model_state, epoch, history)

            def _tune_slow(self, prng_key, kernel_state, model_state, epoch, history):
                return self._do_tune(EV_TUNE_SLOW, prng_key, kernel_state, model_state, epoch, history)

        _MIXIN_CLS = MixinTracerKernel
    return _MIXIN_CLS


def make_kernel(spec: dict, index: int, seen_keys=(), log_len=48, update="det", error_fn=None):
    cls = mixin_kernel_class() if spec.get("style", "mixin") == "mixin" else TracerKernel
    return cls(spec["keys"], index=index, needs_history=spec.get("needs_history", False),
               seen_keys=seen_keys, log_len=log_len, update=update, error_fn=error_fn)


class TracerQuantity:
    """
    QuantityGenerator: ``value`` = 2 * first element of model_state[key];
    ``tag`` = 100 * nth_epoch + time_in_epoch as seen by ``generate``.
    """

    error_book = {0: "no errors"}

    def __init__(self, key="x", identifier="tq"):
        self.key = key
        self.identifier = identifier
        self._model = None

    def set_model(self, model):
        self._model = model

    def has_model(self):
        return self._model is not None

    def generate(self, prng_key, model_state, epoch):
        import jax.numpy as jnp

        first = jnp.reshape(model_state[self.key], (-1,))[0]
        return {
            "error_code": jnp.asarray(0, jnp.int32),
            "value": 2.0 * first,
            "tag": (100 * jnp.asarray(epoch.nth_epoch, jnp.int32) + jnp.asarray(epoch.time_in_epoch, jnp.int32)),
        }


# -------------------------------------------------------------------------------------
# building and driving engines
# -------------------------------------------------------------------------------------


def initial_state(chains: int, shapes: dict) -> dict:
    """Stacked DictInterface state: ``c`` = chain id (int32), every key at value(e=0,t1=0)."""
    import jax.numpy as jnp

    st = {"c": jnp.arange(chains, dtype=jnp.int32)}
    for k, shp in shapes.items():
        st[k] = jnp.asarray(np.stack([value(k, shp, c, 0, 0) for c in range(chains)]))
    return st


def epoch_config(item):
    import liesel.goose as gs

    typ, dur, thin = item
    return gs.EpochConfig(gs.EpochType[typ], int(dur), int(thin), None)


def paths(n: int, p: int, min_pending_for_all: int = 1) -> list[str]:
    """
    All operation histories that take an engine constructed with ``p`` of ``n`` epochs
    to the state (n appended, n sampled): 'a' = append_epoch(next), 'n' =
    sample_next_epoch(), 's' = sample_all_epochs() (only where at least
    ``min_pending_for_all`` epochs are pending; with one pending epoch it does exactly
    what sample_next_epoch does). Sorted, shortest first.
    """
    out = []

    def rec(a, s, hist):
        if a == n and s == n:
            out.append(hist)
            return
        if a < n:
            rec(a + 1, s, hist + "a")
        if s < a:
            rec(a, s + 1, hist + "n")
            if a - s >= min_pending_for_all:
                rec(a, a, hist + "s")

    rec(p, 0, "")
    return sorted(set(out), key=lambda h: (len(h), h))


class Lab:
    """A real engine plus what is needed to decode what it did."""

    def __init__(self, cfg, engine, kernels, tracked):
        self.cfg = cfg
        self.engine = engine
        self.kernels = kernels
        self.tracked = tracked          # keys the reference expects in the position chain
        self.appended = cfg.get("prefix", len(cfg["schedule"]))
        self.sampled = 0

    # -- driving -----------------------------------------------------------------------
    def op(self, o: str):
        sched = self.cfg["schedule"]
        if o == "a":
            self.engine.append_epoch(epoch_config(sched[self.appended]))
            self.appended += 1
        elif o == "n":
            self.engine.sample_next_epoch()
            self.sampled += 1
        elif o == "s":
            self.engine.sample_all_epochs()
            self.sampled = self.appended
        else:
            raise ValueError(o)

    def run(self, path: str | None = None):
        """Executes an interleaving (default: append everything, then sample_all_epochs)."""
        n = len(self.cfg["schedule"])
        if path is None:
            path = "a" * (n - self.appended) + "s"
        for o in path:
            self.op(o)
        if self.appended != n or self.sampled != n or not self.engine.is_sampling_done():
            raise RuntimeError(f"path {path!r} did not exhaust the schedule")
        return self

    # -- decoding --------------------------------------------------------------------
    def logs(self, kernel_states=None):
        """[kernel][chain] -> list of {field: int}. Raises on log overflow."""
        ks = self.engine._kernel_states if kernel_states is None else kernel_states
        out = []
        for k, st in enumerate(ks):
            log = np.asarray(st["log"])
            n = np.asarray(st["n"])
            per_chain = []
            for c in range(log.shape[0]):
                if n[c] > log.shape[1]:
                    raise RuntimeError(f"event log overflow: {int(n[c])} events, {log.shape[1]} rows")
                rows = [dict(zip(FIELDS, map(int, log[c, i]))) for i in range(int(n[c]))]
                if np.any(log[c, int(n[c]):] != 0):
                    raise RuntimeError("event log has rows beyond its cursor")
                per_chain.append(rows)
            out.append(per_chain)
        return out

    def results(self):
        return self.engine.get_results()


def default_tracked(cfg) -> list[str]:
    """Keys the documentation says are tracked for this config."""
    kernel_keys = [k for spec in cfg["kernels"] for k in spec["keys"]]
    if cfg["via"] in ("builder", "set_duration"):
        keys = kernel_keys + list(cfg.get("included", []))
        keys = [k for k in keys if k not in cfg.get("excluded", [])]
    else:
        keys = list(cfg.get("tracked") or kernel_keys)
    return list(dict.fromkeys(keys))


_BUILDS = 0


def release_memory():
    """
    Every Engine jits its own scan; jax keeps those executables in process-wide caches
    (about 4 MB per engine). Dropping them is always safe (anything still needed is
    re-traced and served from the compilation cache again).
    """
    import gc

    import jax

    jax.clear_caches()
    gc.collect()


def build(cfg: dict) -> Lab:
    """Builds a real engine for ``cfg`` (see module docstring)."""
    import jax

    global _BUILDS
    _BUILDS += 1
    if _BUILDS % 20 == 0:
        release_memory()
    import liesel.goose as gs
    from liesel.goose.engine import Engine
    from liesel.goose.kernel_sequence import KernelSequence
    from liesel.option import Option

    sched = cfg["schedule"]
    prefix = cfg.get("prefix", len(sched))
    chains = cfg["chains"]
    seen = [spec["keys"][0] for spec in cfg["kernels"]][:2]
    kernels = [
        make_kernel(spec, i, seen_keys=seen, log_len=cfg.get("log_len", 48), update=cfg.get("update", "det"))
        for i, spec in enumerate(cfg["kernels"])
    ]
    model = gs.DictInterface(lambda s: 0.0)
    state = initial_state(chains, cfg["shapes"])
    qgs = [TracerQuantity(cfg["kernels"][0]["keys"][0])] if cfg.get("qg") else []
    seed = cfg.get("seed", 0)

    if cfg["via"] in ("builder", "set_duration"):
        b = gs.EngineBuilder(seed=seed, num_chains=chains)
        b.show_progress = False
        b.set_model(model)
        try:
            b.set_initial_values(state, multiple_chains=True)
        except UnboundLocalError:
            # trees before commit d2946a2 (C10's defect): hand the per-chain state over
            # directly so that this harness can still observe the engine
            b._model_state = Option(state)
        for k in kernels:
            b.add_kernel(k)
        for q in qgs:
            b.add_quantity_generator(q)
        if cfg["via"] == "set_duration":
            w, p_, t, tp, tw = cfg["set_duration"]
            b.set_duration(w, p_, term_duration=t, thinning_posterior=tp, thinning_warmup=tw)
        else:
            b.set_epochs([epoch_config(e) for e in sched[:prefix]])
        b.positions_included = list(cfg.get("included", []))
        b.positions_excluded = list(cfg.get("excluded", []))
        b.store_kernel_states = bool(cfg.get("store_kernel_states", False))
        b.minimize_transition_infos = bool(cfg.get("minimize", False))
        engine = b.build()
    else:
        for k in kernels:
            k.set_model(model)
        for q in qgs:
            q.set_model(model)
        seeds = jax.random.split(jax.random.PRNGKey(seed), chains)
        engine = Engine(
            seeds=seeds,
            model_states=state,
            kernel_sequence=KernelSequence(kernels),
            epoch_configs=[epoch_config(e) for e in sched[:prefix]],
            jitted_sample_duration=int(cfg["chunk"]),
            model=model,
            position_keys=cfg.get("tracked"),
            minimize_transition_infos=bool(cfg.get("minimize", False)),
            store_kernel_states=bool(cfg.get("store_kernel_states", False)),
            quantity_generators=qgs,
            show_progress=False,
        )
    return Lab(cfg, engine, kernels, default_tracked(cfg))
