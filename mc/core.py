"""
Common machinery: unit results, parallel map, explorers, evidence, findings.

A *check* is a module ``mc.checks.cXX`` exposing

    PROPERTY      "C01"
    RULE          str  - how cases are enumerated / what makes one distinct
    ASSUMPTIONS   list[str]
    units(tier, seed) -> list[dict]       JSON-able, deterministic, simplest first
    run_unit(unit)    -> dict             see ``UnitResult.as_dict``
    finalize(results, tier, seed) -> list[violation]   (optional, cross-unit oracles)

Every unit is executed on the real liesel code in a worker process. Nothing here
samples: units enumerate a finite space completely and say so (``exhaustive``).
"""

from __future__ import annotations

import hashlib
import json
import os
import re
import sys
import time
import traceback
from collections import deque
from typing import Any, Callable, Iterable

VERIF = os.path.dirname(os.path.dirname(os.path.abspath(__file__)))


# ---------------------------------------------------------------------------------
# canonical JSON / digests
# ---------------------------------------------------------------------------------


def jsonable(x: Any) -> Any:
    """Converts numpy / jax scalars and arrays, tuples, sets to plain JSON data."""
    try:
        import numpy as np
    except Exception:  # pragma: no cover
        np = None
    if isinstance(x, dict):
        return {str(k): jsonable(v) for k, v in x.items()}
    if isinstance(x, (list, tuple)):
        return [jsonable(v) for v in x]
    if isinstance(x, (set, frozenset)):
        return sorted((jsonable(v) for v in x), key=lambda v: json.dumps(v, sort_keys=True))
    if isinstance(x, (str, int, bool)) or x is None:
        return x
    if isinstance(x, float):
        if x != x:
            return "nan"
        if x in (float("inf"), float("-inf")):
            return "inf" if x > 0 else "-inf"
        return x
    if np is not None:
        if isinstance(x, np.generic):
            return jsonable(x.item())
        if hasattr(x, "shape") and hasattr(x, "dtype"):
            return jsonable(np.asarray(x).tolist())
    return repr(x)


def digest(x: Any) -> str:
    s = json.dumps(jsonable(x), sort_keys=True, separators=(",", ":"))
    return hashlib.sha256(s.encode()).hexdigest()[:16]


# ---------------------------------------------------------------------------------
# unit results
# ---------------------------------------------------------------------------------


class UnitResult:
    """Accumulates what one unit covered. All counts are measured."""

    def __init__(self, unit: dict):
        self.unit = unit
        self.states = 0
        self.transitions = 0
        self.executions = 0
        self.outcomes: set[str] = set()
        self.violations: list[dict] = []
        self.samples: list[Any] = []
        self.caps: list[str] = []
        self.trace = hashlib.sha256()
        self.extra: dict[str, Any] = {}

    # -- recording ---------------------------------------------------------------
    def outcome(self, *parts: Any) -> None:
        self.outcomes.add("|".join(str(p) for p in parts))

    def note(self, x: Any) -> None:
        """Feeds the determinism digest."""
        self.trace.update(json.dumps(jsonable(x), sort_keys=True).encode())

    def sample(self, x: Any, limit: int = 2) -> None:
        if len(self.samples) < limit:
            self.samples.append(jsonable(x))

    def violation(self, check: str, sig: str, case: Any, message: str) -> None:
        """
        check    sub-check name
        sig      short signature of *what* fails (used to match known findings; must
                 identify the failing input/call site, not just the property)
        case     JSON-able description sufficient to replay
        """
        if len(self.violations) < 50:
            self.violations.append(
                {
                    "check": check,
                    "sig": sig,
                    "case": jsonable(case),
                    "message": message,
                    "unit": self.unit,
                }
            )
        else:
            self.extra["violations_truncated"] = True

    def as_dict(self) -> dict:
        return {
            "unit": self.unit,
            "states": self.states,
            "transitions": self.transitions,
            "executions": self.executions,
            "outcomes": sorted(self.outcomes),
            "violations": self.violations,
            "samples": self.samples,
            "caps": self.caps,
            "digest": self.trace.hexdigest()[:16],
            "extra": self.extra,
        }


# ---------------------------------------------------------------------------------
# explorers
# ---------------------------------------------------------------------------------


def closure(
    init: Any,
    enabled: Callable[[Any], Iterable[Any]],
    step: Callable[[Any, Any], Any],
    canon: Callable[[Any], Any],
    on_transition: Callable[[Any, Any, Any, list], None] | None = None,
    max_states: int = 20000,
    max_depth: int | None = None,
    resume: dict | None = None,
):
    """
    Breadth-first explicit-state search to closure.

    ``init`` is a state *snapshot* (opaque to the explorer). ``step(snapshot, op)``
    must execute ``op`` on the REAL object restored from ``snapshot`` and return the
    successor snapshot. ``on_transition(src, op, dst, history)`` is the oracle hook,
    called for EVERY transition (not only those reaching a new state).

    Returns dict(states, transitions, max_depth, closed, parents) where ``parents``
    maps canon -> (parent canon, op) for counterexample histories.
    """
    if resume is None:
        c0 = canon(init)
        seen = {c0: (None, None, 0)}
        snaps = {c0: init}
        frontier = deque([c0])
        transitions = 0
        depth_max = 0
        closed = True
        edges = []
    else:
        # continue a finished search from additional states: init = list of
        # (snapshot, parent canon, op)
        seen, snaps, edges = resume["seen"], resume["snaps"], resume["edges"]
        transitions, depth_max, closed = resume["transitions"], resume["max_depth"], resume["closed"]
        frontier = deque()
        for snap, parent, op in init:
            k = canon(snap)
            if k not in seen:
                seen[k] = (parent, op, seen[parent][2] + 1)
                snaps[k] = snap
                frontier.append(k)

    def history(c):
        h = []
        while seen[c][0] is not None:
            p, op, _ = seen[c]
            h.append(op)
            c = p
        return h[::-1]

    while frontier:
        c = frontier.popleft()
        s = snaps[c]
        d = seen[c][2]
        if max_depth is not None and d >= max_depth:
            closed = False
            continue
        for op in enabled(s):
            nxt = step(s, op)
            transitions += 1
            if on_transition is not None:
                on_transition(s, op, nxt, history(c) + [op])
            k = canon(nxt)
            edges.append((c, op, k))
            if k not in seen:
                if len(seen) >= max_states:
                    closed = False
                    continue
                seen[k] = (c, op, d + 1)
                snaps[k] = nxt
                depth_max = max(depth_max, d + 1)
                frontier.append(k)
    return {
        "states": len(seen),
        "transitions": transitions,
        "max_depth": depth_max,
        "closed": closed,
        "history": history,
        "seen": seen,
        "snaps": snaps,
        "edges": edges,
    }


class Script:
    """
    A scripted source of environment answers for stateless answer exploration.

    ``choose(n, label)`` returns the prefix's answer at this choice point, or the
    default (0) beyond the prefix, and records (n, label). A prefix answer out of
    range, or a label that differs from the one recorded when the prefix was created,
    is a hard error (replay divergence).
    """

    class Divergence(RuntimeError):
        pass

    def __init__(self, prefix: list[int], labels: list[str] | None = None):
        self.prefix = list(prefix)
        self.expect = labels
        self.points: list[tuple[int, str]] = []
        self.choices: list[int] = []

    def choose(self, n: int, label: str = "") -> int:
        i = len(self.choices)
        if i < len(self.prefix):
            a = self.prefix[i]
            if a >= n:
                raise Script.Divergence(f"choice {i}: answer {a} out of range {n}")
            if self.expect is not None and i < len(self.expect) and self.expect[i] != label:
                raise Script.Divergence(
                    f"choice {i}: label {label!r} != recorded {self.expect[i]!r}"
                )
        else:
            a = 0
        self.points.append((n, label))
        self.choices.append(a)
        return a


def answers(run: Callable[[Script], Any], bound: int | None, max_execs: int = 100000):
    """
    Enumerates all executions of ``run(script)`` with at most ``bound`` non-default
    answers (``None`` = all), depth-first by prefix extension (deviation bounding).
    Yields (choices, result). Each execution runs to completion.
    """
    stack: list[tuple[list[int], list[str]]] = [([], [])]
    n = 0
    while stack:
        prefix, labels = stack.pop()
        sc = Script(prefix, labels)
        res = run(sc)
        n += 1
        if n > max_execs:
            raise RuntimeError("answers(): execution cap hit")
        yield list(sc.choices), res
        lbls = [l for _, l in sc.points]
        for i in range(len(sc.points) - 1, len(prefix) - 1, -1):
            used = sum(1 for a in sc.choices[:i] if a != 0)
            if bound is not None and used + 1 > bound:
                continue
            for alt in range(sc.points[i][0] - 1, 0, -1):
                stack.append((sc.choices[:i] + [alt], lbls[: i + 1]))


# ---------------------------------------------------------------------------------
# known findings
# ---------------------------------------------------------------------------------

FINDINGS_FILE = os.path.join(VERIF, "known_findings.txt")


def load_findings(path: str = FINDINGS_FILE) -> list[dict]:
    """
    Lines:
      fixed: property=<id> <commit> <what failed>
      open: property=<id> sig=<regex matching the violation signature> :: <what fails>
    ``fixed`` entries suppress nothing.
    """
    out = []
    if not os.path.exists(path):
        return out
    for line in open(path):
        line = line.strip()
        if not line or line.startswith("#"):
            continue
        m = re.match(r"^open: property=(\S+) sig=(\S+) :: (.*)$", line)
        if m:
            out.append({"status": "open", "property": m.group(1), "sig": m.group(2), "what": m.group(3)})
            continue
        m = re.match(r"^fixed: property=(\S+) (\S+) (.*)$", line)
        if m:
            out.append({"status": "fixed", "property": m.group(1), "commit": m.group(2), "what": m.group(3)})
            continue
        raise ValueError(f"bad line in {path}: {line}")
    return out


def match_finding(findings: list[dict], prop: str, v: dict) -> dict | None:
    full = f"{v['check']}:{v['sig']}"
    for f in findings:
        if f["status"] == "open" and f["property"] == prop and re.fullmatch(f["sig"], full):
            return f
    return None


# ---------------------------------------------------------------------------------
# worker entry
# ---------------------------------------------------------------------------------


def _setup_repo_path() -> str:
    repo = os.environ.get("VERIF_REPO", "/repo")
    if sys.path[0] != repo:
        sys.path.insert(0, repo)
    return repo


def settle_arviz_stamp() -> None:
    """
    arviz writes a once-per-day stamp file when it is imported; concurrent first imports
    race on its temporary file (FileNotFoundError). The runner writes the stamp before it
    spawns workers, and workers retry the import.
    """
    try:
        import datetime
        from pathlib import Path

        from platformdirs import user_cache_dir

        d = Path(user_cache_dir("arviz", "arviz"))
        d.mkdir(exist_ok=True, parents=True)
        tmp = d / f"daily_warning.{os.getpid()}.tmp"
        tmp.write_text(datetime.date.today().isoformat())
        tmp.replace(d / "daily_warning")
    except Exception:
        pass


def _import_arviz_with_retry() -> None:
    import warnings

    for attempt in range(8):
        try:
            with warnings.catch_warnings():
                warnings.simplefilter("ignore")
                import arviz  # noqa: F401
            return
        except FileNotFoundError:
            sys.modules.pop("arviz", None)
            time.sleep(0.1 * (attempt + 1))
        except ImportError:
            return


def assert_repo() -> str:
    repo = _setup_repo_path()
    _import_arviz_with_retry()
    import liesel

    got = os.path.dirname(os.path.dirname(os.path.abspath(liesel.__file__)))
    if os.path.realpath(got) != os.path.realpath(repo):
        raise RuntimeError(f"liesel imported from {got}, expected {repo}")
    return repo


_WATCHDOG = False


def _start_watchdog():
    """A worker whose runner died (killed, timed out) must not live on holding memory."""
    global _WATCHDOG
    if _WATCHDOG:
        return
    _WATCHDOG = True
    import threading

    parent = os.getppid()

    def watch():
        while True:
            time.sleep(2.0)
            if os.getppid() != parent:
                os._exit(3)

    threading.Thread(target=watch, daemon=True).start()


def raised_in_repo(exc: BaseException, transparent: tuple = ()) -> bool:
    """
    Was the exception raised by liesel itself (innermost frame inside $VERIF_REPO)?
    An exception that liesel throws on a VALID operation is a violation; one thrown by
    harness code is a harness error and must propagate.
    """
    repo = os.path.realpath(os.environ.get("VERIF_REPO", "/repo"))
    tb = exc.__traceback__
    last = None
    while tb is not None:
        last = tb.tb_frame.f_code.co_filename
        tb = tb.tb_next
    if last is None:
        return False
    last = os.path.realpath(last)
    if last.startswith(repo + os.sep):
        return True
    # raised inside a third-party library called from liesel? look for the innermost
    # frame that is either liesel or harness code
    tb = exc.__traceback__
    owner = None
    while tb is not None:
        f = os.path.realpath(tb.tb_frame.f_code.co_filename)
        if f.startswith(repo + os.sep):
            owner = "repo"
        elif f.startswith(VERIF + os.sep) and tb.tb_frame.f_code.co_name not in transparent:
            # harness frames that merely delegate (named in `transparent`) do not own the error
            owner = "harness"
        tb = tb.tb_next
    return owner == "repo"


def worker_run(modname: str, unit: dict) -> dict:
    """Runs one unit inside a worker process."""
    t0 = time.time()
    import multiprocessing as _mp

    if _mp.current_process().name != "MainProcess":
        _start_watchdog()
    try:
        assert_repo()
        import importlib

        mod = importlib.import_module(modname)
        res = mod.run_unit(unit)
        if isinstance(res, UnitResult):
            res = res.as_dict()
        res["wall_s"] = time.time() - t0
        return res
    except Exception as e:  # harness error, never a violation
        return {
            "unit": unit,
            "harness_error": f"{type(e).__name__}: {e}",
            "traceback": traceback.format_exc(),
            "wall_s": time.time() - t0,
        }
