"""
G-stat programs -> real liesel models (C02, C03). The spec grammar, the enumeration and
the float64 reference evaluator live in mc/ref/c02_gstat.py (no liesel there); this
module is the liesel side only.
"""

from __future__ import annotations

import warnings

import numpy as np

from mc.ref import c02_gstat as G


def _tfd_family(fam, numpy_substrate=False):
    import tensorflow_probability.substrates.jax.distributions as tfd

    if numpy_substrate:
        import tensorflow_probability.substrates.numpy.distributions as tfd_np

        return getattr(tfd_np, fam)

    if fam == "MVND":
        from liesel.distributions import MultivariateNormalDegenerate

        return MultivariateNormalDegenerate.from_penalty
    return getattr(tfd, fam)


def _const(v):
    """Constants enter the way users write them: python floats / float32 arrays."""
    if isinstance(v, (int, float)):
        return v
    return np.asarray(v, dtype=np.float32)


class BuiltStat:
    """A real liesel model built from a G-stat program."""

    def __init__(self, program: dict, build: bool = True):
        import jax.numpy as jnp
        import liesel.model as lsl

        self.lsl = lsl
        self.jnp = jnp
        self.program = program
        self.objs: dict[str, object] = {}  # item name -> Var | Node
        self.dist_nodes: dict[str, object] = {}  # reference dist label -> Dist node
        self.model = None
        if program.get("kind") == "distreg":
            self._build_distreg(program["distreg"])
        else:
            self._build_gb(program)
        self.assignable = G.assignable(program)

    # ------------------------------------------------------------------
    def _ref(self, ref):
        if "c" in ref:
            return _const(ref["c"])
        if "r" in ref:
            return self.objs[ref["r"]]
        if "d" in ref:
            return self.dist_nodes[ref["d"]]
        if "dv" in ref:
            return self.dist_nodes[ref["dv"]]
        raise ValueError(ref)

    def _dist(self, spec, name=""):
        lsl = self.lsl
        cls = _tfd_family(spec["fam"], spec.get("np", False))
        if spec.get("pos"):
            return lsl.Dist(cls, *[self._ref(r) for r in spec["args"].values()], _name=name)
        return lsl.Dist(cls, **{k: self._ref(r) for k, r in spec["args"].items()}, _name=name)

    def _fn(self, it):
        jnp = self.jnp
        f = G.FN[it["fn"]]
        consts = {k: (jnp.asarray(v, dtype=jnp.float32) if not isinstance(v, (int, float)) else v) for k, v in it.get("consts", {}).items()}

        def fn(*args):
            # the program's functions are jax functions: numpy inputs (a user may store
            # numpy arrays in the model) are converted first, otherwise numpy's own
            # scalar promotion (float32 0-d array * python float -> float64) takes over
            return f(jnp, consts, *[a if a is None else jnp.asarray(a) for a in args])

        fn.__name__ = f"fn_{it['fn']}"
        return fn

    @staticmethod
    def _set_flags(var, flag):
        if flag in ("obs", "both"):
            var.observed = True
        if flag in ("par", "both"):
            var.parameter = True

    def _build_gb(self, program):
        import tensorflow_probability.substrates.jax.bijectors as tfb

        lsl = self.lsl
        gb = lsl.GraphBuilder()
        to_add = []
        for it in program["items"]:
            k, name = it["k"], it.get("name")
            if k == "strong":
                tr = it.get("transform")
                init = it["init"] if tr else it["lattice"][0]
                init = init if isinstance(init, (int, float)) else np.asarray(init, dtype=np.float64)
                if it.get("wrap") == "value":
                    node = lsl.Value(init, _name=it.get("node_name", name))
                    self.objs[name] = node
                    to_add.append(node)
                    continue
                dist = self._dist(it["dist"]) if it.get("dist") else None
                if dist is not None:
                    dist.per_obs = it.get("per_obs", True)
                flag = it.get("flag", "none")
                if flag == "obs" and not tr:
                    var = lsl.obs(init, dist, name=name)
                elif flag == "par" and not tr:
                    var = lsl.param(init, dist, name=name)
                else:
                    var = lsl.Var(init, dist, name=name)
                    self._set_flags(var, flag)
                self.objs[name] = var
                if tr:
                    h = tr["how"]
                    with warnings.catch_warnings():
                        warnings.simplefilter("ignore")
                        if h == "exp_inst":
                            tvar = var.transform(tfb.Exp())
                        elif h == "softplus_cls":
                            tvar = var.transform(tfb.Softplus, hinge_softness=tr["hinge_softness"])
                        elif h == "scale_cls":
                            sc = tr["scale"]
                            tvar = var.transform(tfb.Scale, scale=self._ref(sc) if isinstance(sc, dict) else sc)
                        elif h == "default":
                            tvar = var.transform(None)
                        elif h == "auto":
                            var.auto_transform = True
                            tvar = None
                        elif h == "gb_exp_inst":
                            tvar = gb.transform(var, tfb.Exp())
                        elif h == "gb_exp_cls":
                            tvar = gb.transform(var, tfb.Exp)
                        elif h == "gb_default":
                            tvar = gb.transform(var, None)
                        else:
                            raise ValueError(h)
                    if tvar is not None:
                        self.dist_nodes[name + "_transformed"] = tvar.dist_node
                    else:
                        self.dist_nodes[name + "_transformed"] = None  # resolved after build
                elif dist is not None:
                    self.dist_nodes[name] = dist
                to_add.append(var)
            elif k == "opt":
                node = lsl.Value(it["lattice"][0], _name=name)
                self.objs[name] = node
                to_add.append(node)
            elif k == "weak":
                ins = [self._ref(r) for r in it["args"]]
                wrap = it.get("wrap", "var")
                cls = lsl.TransientCalc if wrap == "tcalc" else lsl.Calc
                if wrap == "var":
                    calc = cls(self._fn(it), *ins)
                    dist = self._dist(it["dist"]) if it.get("dist") else None
                    if dist is not None:
                        dist.per_obs = it.get("per_obs", True)
                        self.dist_nodes[name] = dist
                    var = lsl.Var(calc, dist, name=name)
                    self._set_flags(var, it.get("flag", "none"))
                    self.objs[name] = var
                    to_add.append(var)
                else:
                    node = cls(self._fn(it), *ins, _name=name)
                    self.objs[name] = node
                    to_add.append(node)
            elif k == "bare":
                d = self._dist(it["dist"], name=name)
                d.per_obs = it.get("per_obs", True)
                at = self._ref(it["at"])
                d.at = at.var_value_node if isinstance(at, lsl.Var) else at
                self.objs[name] = d
                self.dist_nodes[name] = d
                to_add.append(d)
            else:
                raise ValueError(k)
        # user-supplied totals
        for key, u in (program.get("user") or {}).items():
            if u.get("as_value"):
                node = lsl.Value(np.asarray(u["value"], dtype=np.float32), _name=f"user_{key}")
            else:
                node = lsl.Calc(self._fn(u), *[self._ref(r) for r in u["args"]], _name=f"user_{key}")
            setattr(gb, key + "_node", node)
        gb.add(*to_add)
        self.model = gb.build_model()
        for label, d in list(self.dist_nodes.items()):
            if d is None:
                self.dist_nodes[label] = self.model.vars[label].dist_node

    def _build_distreg(self, dr):
        import tensorflow_probability.substrates.jax.bijectors as tfb
        import tensorflow_probability.substrates.jax.distributions as tfd

        import liesel.model.distreg as lsldr

        b = lsldr.DistRegBuilder()
        b.add_response(np.asarray(dr["y"], dtype=np.float32), getattr(tfd, dr["response"]))
        for p in dr["predictors"]:
            b.add_predictor(p["name"], getattr(tfb, p["link"]))
        for s in dr["smooths"]:
            X = np.asarray(s["X"], dtype=np.float32)
            if s["type"] == "p":
                b.add_p_smooth(X, m=s["m"], s=s["s"], predictor=s["predictor"])
            else:
                b.add_np_smooth(X, K=np.asarray(s["K"], dtype=np.float32), a=s["a"], b=s["b"], predictor=s["predictor"])
        self.model = b.build_model()
        for it in self.program["items"]:
            if it["k"] in ("strong", "weak"):
                self.objs[it["name"]] = self.model.vars[it["name"]]
                if it.get("dist"):
                    self.dist_nodes[it["name"]] = self.model.vars[it["name"]].dist_node

    # ------------------------------------------------------------------
    def assign(self, name: str, value, via: str = "var"):
        v = None if value is None else self.jnp.asarray(value, dtype=self.jnp.float32)
        if via == "node":
            self.model.nodes[name].value = v
        else:
            self.model.vars[name].value = v

    def assign_style(self, name: str, value, via: str, style: str) -> str:
        """
        style "jnp": a new jax array; "np": a new (mutable) numpy array; "inplace": the
        idiom  v = var.value; v[...] = new; var.value = v  (same object re-assigned) -
        possible only if the stored value is a writable numpy array, else falls back to
        "np". Returns the style actually used.
        """
        holder = self.model.nodes[name] if via == "node" else self.model.vars[name]
        if style == "jnp":
            holder.value = self.jnp.asarray(value, dtype=self.jnp.float32)
            return "jnp"
        if style == "inplace":
            v = holder.value
            if isinstance(v, np.ndarray) and v.flags.writeable and v.shape == np.shape(value):
                v[...] = np.asarray(value, dtype=np.float32)
                holder.value = v
                return "inplace"
        holder.value = np.array(value, dtype=np.float32)
        return "np"

    def current_valuation(self) -> dict:
        out = {}
        for a in self.assignable:
            if a["via"] == "node":
                v = self.model.nodes[a["target"]].value
                out[a["name"]] = None if v is None else np.asarray(v, dtype=np.float64)
            else:
                out[a["name"]] = np.asarray(self.model.vars[a["target"]].value, dtype=np.float64)
        return out
