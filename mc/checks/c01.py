"""
C01 - cache coherence of lsl.Model: explicit-state search to closure, per program, of
all histories over {assign, auto-update toggle, update(), update(targets), save,
restore, set_seed}, executed on the real Model; oracle = pure-Python evaluator +
staleness bookkeeping + call counters.
"""

from __future__ import annotations

from mc import core, programs

PROPERTY = "C01"
RULE = (
    "programs: every G-cache graph (1-2 inputs as Value/strong Var; derived Calc / "
    "TransientCalc / weak Var / Dist with 1-2 inputs incl. repeated and shared inputs) up "
    "to the tier's size, plus hand-written extras (seeded nodes, unnamed nodes, calc on a "
    "dist, deep chains). Per program: BFS to closure over the op alphabet (incl. Node.clear_state() on single cached nodes for programs with <= 3 items and one extra); a state is "
    "(auto flag, per node (outdated,value), save slot, reference dirty bits); distinct "
    "outcome = (op kind, pattern of outdated flags after it, pattern of evaluated nodes)."
)
ASSUMPTIONS = [
    "node functions are pure; values are content-based terms (injective), so equality of values is equality of provenance",
    "save/restore is explored compositionally: restore of every reachable saved state into every reachable current state, continuing the search whenever the result is a new state",
    "snapshots are restored by writing _value/_outdated/_auto_update directly; a self-check replays BFS histories on fresh models through the public API only",
]


def bounds(tier):
    return {
        "inputs": 2,
        "items": 4 if tier == "quick" else 5,
        "alphabet_values": 2,
        "max_states_per_program": 20000,
        "save_restore": "every reachable saved state x every reachable current state (compositional)",
    }


EXTRAS = [
    # seeded calc and seeded dist
    {"items": [{"kind": "var"}, {"kind": "calc", "inputs": [0], "seed": True}, {"kind": "calc", "inputs": [1]}]},
    {"items": [{"kind": "var"}, {"kind": "value"}, {"kind": "dist", "var": 0, "inputs": [1], "seed": True}]},
    # calc that reads a dist's log-prob, then another layer
    {"items": [{"kind": "var"}, {"kind": "value"}, {"kind": "dist", "var": 0, "inputs": [1]}, {"kind": "calc", "inputs": [2]}, {"kind": "tcalc", "inputs": [3, 1]}]},
    # unnamed nodes, to_float32 off
    {"items": [{"kind": "value", "named": False}, {"kind": "calc", "inputs": [0], "named": False}, {"kind": "tcalc", "inputs": [1], "named": False}, {"kind": "calc", "inputs": [2, 0], "named": False}], "to_float32": False},
    # transient chain between two caches, diamond
    {"items": [{"kind": "var"}, {"kind": "tcalc", "inputs": [0]}, {"kind": "tcalc", "inputs": [1]}, {"kind": "calc", "inputs": [2, 0]}, {"kind": "wvar", "inputs": [3, 1]}]},
    # observed dist on a weak var parameterised by its own parent; parameter dist with per_obs off
    {"items": [{"kind": "var"}, {"kind": "wvar", "inputs": [0]}, {"kind": "dist", "var": 1, "inputs": [0], "flag": "observed"}]},
    {"items": [{"kind": "var"}, {"kind": "value"}, {"kind": "dist", "var": 0, "inputs": [1], "flag": "parameter", "per_obs": False}]},
    # argument ORDER matters for traversals: t = h(b, a) with b = g(a)
    {"items": [{"kind": "var"}, {"kind": "calc", "inputs": [0]}, {"kind": "calc", "inputs": [1]}, {"kind": "calc", "inputs": [2, 1]}]},
    {"items": [{"kind": "value"}, {"kind": "calc", "inputs": [0]}, {"kind": "wvar", "inputs": [1]}, {"kind": "tcalc", "inputs": [2, 1]}, {"kind": "calc", "inputs": [3, 0]}]},
    # keyword inputs (cached calc behind a keyword of a transient / cached node)
    {"items": [{"kind": "var"}, {"kind": "calc", "inputs": [0]}, {"kind": "tcalc", "inputs": [1], "kw": [True]}, {"kind": "calc", "inputs": [2]}]},
    {"items": [{"kind": "value"}, {"kind": "calc", "inputs": [0]}, {"kind": "calc", "inputs": [1, 0], "kw": [False, True]}, {"kind": "tcalc", "inputs": [0, 2], "kw": [True, True]}]},
    # transient dist on a weak var (its `at` proxies a cached calc), keyword parameter
    {"items": [{"kind": "var"}, {"kind": "wvar", "inputs": [0]}, {"kind": "tdist", "var": 1, "inputs": [0]}]},
    {"items": [{"kind": "var"}, {"kind": "value"}, {"kind": "wvar", "inputs": [0]}, {"kind": "tdist", "var": 2, "inputs": [1], "kw": True}, {"kind": "calc", "inputs": [3]}]},
    {"items": [{"kind": "var"}, {"kind": "value"}, {"kind": "calc", "inputs": [1]}, {"kind": "dist", "var": 0, "inputs": [2], "kw": True}]},
    # mutable input values: `v = x.value; v[...] = ...; x.value = v` assigns the same object back
    {"items": [{"kind": "value", "mutable": True}, {"kind": "calc", "inputs": [0]}, {"kind": "tcalc", "inputs": [1, 0]}]},
    {"items": [{"kind": "var", "mutable": True}, {"kind": "wvar", "inputs": [0]}, {"kind": "value"}, {"kind": "dist", "var": 1, "inputs": [2]}]},
    # per-node clear_state() on a chain and a diamond (a flagged node in the middle of up-to-date ones)
    {"items": [{"kind": "var"}, {"kind": "calc", "inputs": [0]}, {"kind": "calc", "inputs": [1]}, {"kind": "wvar", "inputs": [2, 0]}], "clear_ops": True},
    # update_on_init False
    {"items": [{"kind": "value"}, {"kind": "calc", "inputs": [0], "update_on_init": False}, {"kind": "calc", "inputs": [1, 1], "update_on_init": False}]},
]

def units(tier, seed):
    n_items = 4 if tier == "quick" else 5
    progs = programs.enumerate_programs(2, n_items)
    if tier == "quick":
        # quick: all programs with <= 3 items; of the 4-item ones every 6th (the list is
        # sorted, so the stride cuts across all kind combinations); thorough runs all of
        # them and every 500th of the 5-item programs with one input
        progs = [p for idx, p in enumerate(progs) if len(p["items"]) <= 3 or idx % 9 == 0]
    else:
        progs = [p for idx, p in enumerate(progs) if len(p["items"]) <= 4 or sum(1 for it in p["items"] if it["kind"] in ("value", "var")) == 1 and idx % 500 == 0]
    progs = EXTRAS + progs
    size = 12 if tier == "quick" else 40
    # interleave so that every unit gets a mix of small and large programs
    n_units = -(-len(progs) // size)
    return [{"programs": progs[u::n_units], "first": u} for u in range(n_units)]


# ---------------------------------------------------------------------------------


class Machine:
    """Real model + reference bookkeeping for one program."""

    def __init__(self, program):
        import jax

        self.jax = jax
        self.b = programs.Built(program)
        b = self.b
        self.m = b.model
        self.names = list(self.m.nodes)  # fixed order
        self.nodes = [self.m.nodes[n] for n in self.names]
        self.items = b.items
        self.input_items = [i for i, it in enumerate(self.items) if it["kind"] in ("value", "var")]
        self.caching = [i for i, it in enumerate(self.items) if b.cache_node[i] is not None]
        self.anc_inputs = b.ancestors_inputs()
        self.seeded = [i for i, it in enumerate(self.items) if it.get("seed")]
        self.seed_nodes = {n.name: n for n in self.m._seed_nodes}
        # reference state
        self.inputs_ref = {i: b.val(0) for i in self.input_items}
        self.dirty = {i: False for i in self.caching}
        self.seeds_ref = {i: programs.seed_tuple(jax.random.PRNGKey(0)) for i in self.seeded}
        self.slot = None
        # item-level ancestors (reference)
        self.anc_items = []
        for i, it in enumerate(self.items):
            s = {i}
            for j in it.get("inputs", []):
                s |= self.anc_items[j]
            if it["kind"] in ("dist", "tdist"):
                s |= self.anc_items[it["var"]]
            self.anc_items.append(s)
        self.flags = {}
        for i, it in enumerate(self.items):
            if it["kind"] in ("dist", "tdist"):
                self.flags[i] = it.get("flag")
        self.keys = {1: jax.random.PRNGKey(1), 2: jax.random.PRNGKey(2)}
        self.mutable_nodes = set()
        for i, it in enumerate(self.items):
            if it.get("mutable"):
                o = b.objs[i]
                self.mutable_nodes.add(id(o.value_node if isinstance(o, b.lsl.Var) else o))

    # -- item -> nodes ----------------------------------------------------------
    def item_nodes(self, i):
        o = self.b.objs[i]
        if isinstance(o, self.b.lsl.Var):
            return [o.value_node, o.var_value_node]
        return [o]

    def primary_name(self, i):
        o = self.b.objs[i]
        return o.value_node.name if isinstance(o, self.b.lsl.Var) else o.name

    # -- snapshots ----------------------------------------------------------------
    def _val_canon(self, v):
        if hasattr(v, "shape"):
            return programs.seed_tuple(v)
        return v

    def snapshot(self):
        # only fields the code ever reads back: Value.outdated is constantly False and
        # transient nodes compute outdated/value on the fly, so their raw _outdated (and
        # the transient _value) are unobservable and are normalised away
        ns = tuple(
            (None, programs.freeze(n._value)) if isinstance(n, self.b.lsl.Value)
            else (None, None) if isinstance(n, self.b.lsl.TransientNode)
            else (n._outdated, n._value)
            for n in self.nodes
        )
        return {
            "auto": self.m._auto_update,
            "nodes": ns,
            "inputs_ref": dict(self.inputs_ref),
            "dirty": dict(self.dirty),
            "seeds_ref": dict(self.seeds_ref),
        }

    def restore(self, s):
        self.m._auto_update = s["auto"]
        for n, (o, v) in zip(self.nodes, s["nodes"]):
            if o is not None:
                n._outdated = o
            if not isinstance(n, self.b.lsl.TransientNode):
                n._value = list(v) if id(n) in self.mutable_nodes else v
        self.inputs_ref = dict(s["inputs_ref"])
        self.dirty = dict(s["dirty"])
        self.seeds_ref = dict(s["seeds_ref"])

    def canon(self, s):
        def cn(ns):
            return tuple((o, self._val_canon(v)) for o, v in ns)

        return (s["auto"], cn(s["nodes"]), tuple(sorted(s["dirty"].items())))

    # -- op alphabet ----------------------------------------------------------------
    def ops(self, s):
        out = []
        for i in self.input_items:
            for a in (0, 1):
                if self.items[i]["kind"] == "var":
                    out.append(("set", i, a, "var"))
                    if a == 1:
                        out.append(("set", i, a, "node"))
                else:
                    out.append(("set", i, a, "node"))
        for i in self.input_items:
            if self.items[i].get("mutable"):
                out.append(("set_inplace", i, 0))
                out.append(("set_inplace", i, 1))
        if len(self.items) <= 3 or self.b.program.get("clear_ops"):
            # Node.clear_state(): a single cached node forgets its value and reports outdated
            for c in self.caching:
                out.append(("clear", c))
        out.append(("auto", not s["auto"]))
        out.append(("update",))
        tnames = []
        for i, it in enumerate(self.items):
            if it["kind"] not in ("value",):
                tnames.append(self.primary_name(i))
            if it["kind"] in ("var", "wvar"):
                tnames.append(self.b.objs[i].var_value_node.name)
        tnames += ["_model_log_prob", "_model_log_lik"]
        for t in tnames:
            out.append(("update", t))
        if len(tnames) >= 4:
            out.append(("update", tnames[0], tnames[-3]))
        if self.seeded:
            out.append(("seed", 1))
        return out

    # -- execution of one op on the real model + oracle ------------------------------
    def execute(self, op):
        """Runs op through the public API. Returns list of problems (strings)."""
        b, m = self.b, self.m
        b.calls.clear()
        kind = op[0]
        dirty_before = dict(self.dirty)
        if kind == "set_inplace":
            # v = x.value; edit v in place; x.value = v  (the SAME object is assigned back)
            _, i, a = op
            for c in self.caching:
                if i in self.anc_inputs[c]:
                    dirty_before[c] = True
            self.inputs_ref[i] = b.val(a)
            o = b.objs[i]
            v = o.value
            v[1] = a
            o.value = v
        elif kind == "set":
            _, i, a, via = op
            v = list(b.val(a)) if self.items[i].get("mutable") else b.val(a)
            # reference: every caching descendant becomes dirty
            for c in self.caching:
                if i in self.anc_inputs[c]:
                    dirty_before[c] = True
            self.inputs_ref[i] = b.val(a)
            o = b.objs[i]
            if via == "var":
                o.value = v
            elif isinstance(o, b.lsl.Var):
                o.value_node.value = v
            else:
                o.value = v
        elif kind == "clear":
            b.cache_node[op[1]].clear_state()
            dirty_before[op[1]] = True  # it may (and must, to become up to date) be evaluated again
        elif kind == "auto":
            m.auto_update = op[1]
        elif kind == "update":
            m.update(*op[1:])
        elif kind == "save":
            self.slot = (m.state, dict(self.inputs_ref), dict(self.dirty), dict(self.seeds_ref))
        elif kind in ("restore", "restore-from"):
            if kind == "restore-from":
                other = Machine(self.b.program)
                for o in op[1]:
                    other.execute(tuple(o))
                other.execute(("save",))
                self.slot = other.slot
                b.calls.clear()
            st, iref, dirty, sref = self.slot
            m.state = st
            self.inputs_ref, dirty_before, self.seeds_ref = dict(iref), dict(dirty), dict(sref)
        elif kind == "seed":
            key = self.keys[op[1]]
            m.set_seed(key)
            ks = self.jax.random.split(key, len(m._seed_nodes))
            # reference: which seeded item got which key - by the documented naming
            for sn, k in zip(m._seed_nodes, ks):
                for i in self.seeded:
                    if sn.name == f"_model_{self.primary_name(i)}_seed":
                        self.seeds_ref[i] = programs.seed_tuple(k)
                        for c in self.caching:
                            if i in self.anc_items[c]:
                                dirty_before[c] = True
        calls = dict(b.calls)
        problems = []

        # O4: at most once, and only if dirty
        self.dirty = dirty_before
        for c in self.caching:
            tag = ("d", c) if self.items[c]["kind"] in ("dist", "tdist") else ("c", c)
            n = calls.get(tag, 0)
            if n > 1:
                problems.append(("O4-twice", f"item {c} evaluated {n} times in one operation"))
            if n >= 1:
                if not self.dirty[c]:
                    problems.append(("O4-needless", f"item {c} evaluated although no ancestor was assigned since it was last computed"))
                self.dirty[c] = False

        # O1: up-to-date nodes hold the from-scratch value
        ref = b.ref_eval(self.inputs_ref, self.seeds_ref)
        outd = []
        for i in range(len(self.items)):
            for n in self.item_nodes(i):
                o = n.outdated
                outd.append(o)
                if not o:
                    val = programs.freeze(n.value)
                    if val != ref[i]:
                        problems.append(("O1-stale", f"node {n.name} reports up-to-date but holds {val} != from-scratch {ref[i]}"))
        tot = {"_model_log_prob": programs.Sym(), "_model_log_lik": programs.Sym(), "_model_log_prior": programs.Sym()}
        for i, it in enumerate(self.items):
            if it["kind"] in ("dist", "tdist"):
                tot["_model_log_prob"] += ref[i]
                if self.flags[i] == "observed":
                    tot["_model_log_lik"] += ref[i]
                if self.flags[i] == "parameter":
                    tot["_model_log_prior"] += ref[i]
        for name, want in tot.items():
            n = m.nodes[name]
            outd.append(n.outdated)
            if not n.outdated and n.value != want:
                problems.append(("O1-stale", f"node {name} reports up-to-date but holds {n.value} != {want}"))

        # O2 / O3
        if kind == "update" and len(op) == 1:
            bad = [n.name for n in self.nodes if n.outdated]
            if bad:
                problems.append(("O2-outdated-after-update", f"outdated after full update: {bad}"))
        if kind == "update" and len(op) > 1:
            for t in op[1:]:
                # reference ancestors of the target by item structure
                need = set()
                if t.startswith("_model_log"):
                    for i, it in enumerate(self.items):
                        if it["kind"] in ("dist", "tdist") and (t == "_model_log_prob" or (t == "_model_log_lik" and self.flags[i] == "observed") or (t == "_model_log_prior" and self.flags[i] == "parameter")):
                            need |= self.anc_items[i]
                    nodes = [m.nodes[t]]
                else:
                    ti = [i for i in range(len(self.items)) if t in [n.name for n in self.item_nodes(i)]][0]
                    need = set(self.anc_items[ti])
                    nodes = [m.nodes[t]]
                    need.discard(ti)
                    # the item's own value node is an ancestor of its var_value node
                    o = b.objs[ti]
                    if isinstance(o, b.lsl.Var):
                        if t == o.var_value_node.name:
                            nodes.append(o.value_node)
                for i in need:
                    nodes.extend(self.item_nodes(i))
                bad = sorted({n.name for n in nodes if n.outdated})
                if bad:
                    problems.append(("O3-targeted", f"after update({t!r}) still outdated: {bad}"))

        # O5: Model.state agrees with the nodes
        st = m.state
        for n in self.nodes:
            s = st[n.name]
            if isinstance(n, b.lsl.TransientNode):
                ok = s.value is None and s.outdated == n.outdated
            else:
                ok = (s.value is n.value or programs.freeze(s.value) == programs.freeze(n.value)) and s.outdated == n.outdated
            if not ok:
                problems.append(("O5-state", f"Model.state[{n.name!r}] disagrees with the node"))

        pattern = (kind, tuple(outd), tuple(sorted(calls)))
        return problems, pattern


MAX_STATES = 20000


def explore_program(res: core.UnitResult, program: dict, pair_limit: int = 48):
    mach = Machine(program)
    found = []

    def step(s, op):
        mach.restore(s)
        problems, pattern = mach.execute(op)
        res.outcome(pattern)
        nxt = mach.snapshot()
        nxt["_problems"] = problems
        return nxt

    class Enough(Exception):
        pass

    def on_transition(src, op, dst, hist):
        for tag, msg in dst["_problems"]:
            found.append((tag, msg, hist))
        if len(found) >= 8:
            # counterexamples are in hand; a broken implementation can blow the state space up
            raise Enough()

    try:
        out = core.closure(
            mach.snapshot(), mach.ops, step, mach.canon, on_transition, max_states=MAX_STATES
        )
    except Enough:
        out = None
    if out is None or found:
        # report and stop: the remaining passes only make sense on a coherent implementation
        seen_tags = set()
        for tag, msg, hist in found:
            if tag not in seen_tags:
                seen_tags.add(tag)
                res.violation("closure", f"{tag}", {"program": program, "history": hist}, f"{msg} after history {hist} on program {program['items']}")
        res.transitions += len(found)
        res.executions += len(found)
        res.states += 1
        return {"states": 1, "transitions": len(found), "max_depth": 0, "closed": False, "history": lambda c: [], "seen": {None: None}}

    # save/restore, compositionally: for every reachable state S1 (saved through the
    # public Model.state getter) and reachable current state S2, `Model.state = saved`
    # is executed in S2 and checked by the oracle. If the result is canonically S1 (with
    # S2's auto flag) every continuation is already covered by the closure; otherwise the
    # search continues from the new state until a fixed point is reached.
    done_pairs = set()
    pairs = 0
    strided = False
    while True:
        cs = list(out["seen"])
        stride = 1 if len(cs) <= pair_limit else -(-len(cs) // pair_limit)
        strided = strided or stride > 1
        novel = []
        for c1 in cs:
            if len(found) >= 8:
                break
            s1 = out["snaps"][c1]
            mach.restore(s1)
            problems, _ = mach.execute(("save",))
            if mach.canon(mach.snapshot()) != c1:
                found.append(("O5-save-mutates", "reading Model.state changed the model", out["history"](c1) + [("save",)]))
            slot = mach.slot
            for c2 in cs[::stride]:
                if (c1, c2) in done_pairs:
                    continue
                done_pairs.add((c1, c2))
                mach.restore(out["snaps"][c2])
                mach.slot = slot
                problems, pattern = mach.execute(("restore",))
                pairs += 1
                res.outcome(pattern)
                hist = out["history"](c2) + [("restore-from", out["history"](c1))]
                for tag, msg in problems:
                    found.append((tag, msg, hist))
                nxt = mach.snapshot()
                k = mach.canon(nxt)
                if k not in out["seen"]:
                    nxt["_problems"] = []
                    novel.append((nxt, c2, ("restore-from", tuple(out["history"](c1)))))
        if not novel:
            break
        if len(found) >= 8:
            break
        try:
            out = core.closure(novel, mach.ops, step, mach.canon, on_transition, max_states=MAX_STATES, resume=out)
        except Enough:
            break
    res.transitions += pairs
    res.executions += pairs
    res.extra["restore_pairs"] = res.extra.get("restore_pairs", 0) + pairs
    if strided:
        res.caps.append("restore_current_states_strided")
    res.states += out["states"]
    res.transitions += out["transitions"]
    res.executions += out["transitions"]
    res.note([out["states"], out["transitions"], out["max_depth"]])
    if not out["closed"]:
        res.caps.append("max_states_per_program")
    seen_tags = set()
    for tag, msg, hist in found:
        if tag in seen_tags:
            continue
        seen_tags.add(tag)
        res.violation("closure", f"{tag}", {"program": program, "history": hist}, f"{msg} after history {hist} on program {program['items']}")

    if found:
        return out
    # self-check: BFS histories replayed through the public API on a fresh model
    cs = list(out["seen"])
    stride = max(1, len(cs) // 60)
    picked = cs[::stride] + cs[-1:]
    for c in picked:
        hist = out["history"](c)
        fresh = Machine(program)
        for op in hist:
            fresh.execute(op)
        got = fresh.canon(fresh.snapshot())
        if got != c:
            raise RuntimeError(f"snapshot/replay mismatch for history {hist} on {program}")
    res.extra["replayed_histories"] = res.extra.get("replayed_histories", 0) + len(picked)
    res.extra["max_depth"] = max(res.extra.get("max_depth", 0), out["max_depth"])
    return out


def run_unit(unit):
    core.assert_repo()
    res = core.UnitResult(unit)
    for p in unit["programs"]:
        out = explore_program(res, p)
        res.sample({"program": p["items"], "states": out["states"], "transitions": out["transitions"], "deepest_history": out["history"](list(out["seen"])[-1])}, limit=1)
    return res
