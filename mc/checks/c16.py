"""
C16 - epoch schedules: EpochManager accepts a schedule iff it is valid and hands out
consecutive indices / start times; stan_epochs returns the documented fast / doubling
slow / fast / posterior pattern summing to the request; the builder's JIT chunk length
divides every epoch duration.

Everything is exhaustive enumeration over explicit finite domains, executed on the real
EpochManager / stan_epochs / EngineBuilder; oracle = mc/ref/c16_epochs.py.
"""

from __future__ import annotations

import itertools

from mc import core
from mc.ref import c16_epochs as ref

PROPERTY = "C16"
RULE = (
    "mgr: every sequence of epoch configs (type x duration x thinning over the tier's "
    "domain) of the stated lengths, given to the EpochManager constructor (list; tuple / "
    "generator / raw-int types for the short ones) AND appended one by one to an empty "
    "manager with rejected appends staying in the history; accepted managers are drained "
    "with next(). interleave: for every valid schedule every word over {append, next} "
    "(incl. next() on an exhausted manager). stan: the full product of the argument grid. "
    "builder: every valid small-domain schedule and a stan sub-grid built with "
    "EngineBuilder, a handful sampled to the end. Distinct outcome = (sub-check, "
    "accepted/rejected, violated clauses of the reference predicate, exception text) resp. "
    "(raise / number of slow windows / admissible / manager verdict) resp. (chunk length, "
    "maximal or not)."
)
ASSUMPTIONS = [
    "configs are EpochConfig objects with int duration/thinning and EpochType (or the equal raw int) type; the empty schedule is out of scope (EpochManager(None) is the documented way to start an incremental schedule)",
    "rejection = any exception from the constructor/append; acceptance = no exception",
    "stan_epochs: base_duration >= 1 on every grid (base <= 0 does not terminate and is outside the admissible domain); non-admissible tuples are only checked for the documented raise conditions and for EpochManager agreeing with the validity predicate on the returned list",
    "builder: a schedule with at least one epoch after the initial one; 'divides every epoch duration' is read as every epoch that is sampled in chunks (all but the one-iteration initial epoch)",
    "engine runs (RWKernel on a 1-d Gaussian DictInterface) only confirm that sampling completes with the chunk length; chain contents belong to C08",
]

# ---------------------------------------------------------------------------------
# domains
# ---------------------------------------------------------------------------------

DOMAINS = {
    # name: (durations, thinnings)
    "small": (tuple(range(0, 5)), tuple(range(0, 4))),
    "wide": ((-1, 0, 1, 2, 3, 4, 6), (-1, 0, 1, 2, 3, 4)),
    "mid": ((0, 1, 2, 4), (0, 1, 2)),
}

STAN_QUICK = dict(
    warmup=(0, 400),
    posterior=(1, 7, 100),
    itb=(1, 2, 5, 25, 50, 75, 100),
    thin=(1, 2, 3, 5),
    shards=16,
)
STAN_THOROUGH = dict(
    warmup=(0, 800),
    posterior=(1, 7, 100, 1000),
    itb=(1, 2, 3, 5, 10, 25, 50, 75, 100),
    thin=(1, 2, 3, 5),
    shards=64,
)
STAN_EDGE = dict(
    warmup=(0, 1, 19, 20, 21, 30, 31),
    posterior=(-1, 0, 1, 4),
    init=(-1, 0, 1, 10),
    term=(-1, 0, 1, 10),
    base=(1, 5, 10),
    thin=(-1, 0, 1, 2),
)


def alphabet(domain):
    durs, thins = DOMAINS[domain]
    return [(t, d, th) for t in range(5) for d in durs for th in thins]


def bounds(tier):
    q = tier == "quick"
    return {
        "mgr_domain_small": {"types": 5, "durations": list(DOMAINS["small"][0]), "thinnings": list(DOMAINS["small"][1])},
        "mgr_lengths_complete": [1, 2, 3],
        "mgr_length_first_fixed": [4] if q else [4, 5],
        "mgr_domain_wide": None if q else {"types": 5, "durations": list(DOMAINS["wide"][0]), "thinnings": list(DOMAINS["wide"][1]), "lengths_complete": [1, 2, 3]},
        "mgr_length5_domain": None if q else {"durations": list(DOMAINS["mid"][0]), "thinnings": list(DOMAINS["mid"][1])},
        "interleave_valid_schedule_length": 3 if q else 4,
        "stan_grid": {k: list(v) if not isinstance(v, int) else v for k, v in (STAN_QUICK if q else STAN_THOROUGH).items()},
        "stan_edge_grid": {k: list(v) for k, v in STAN_EDGE.items()},
        "builder_runs": 10 if q else 40,
    }


def units(tier, seed):
    q = tier == "quick"
    us = []
    # manager: complete lengths 1..3 over the small domain (length 3 sharded on the
    # position-1 config), length 4 with the first config fixed to the valid initial epoch
    us.append({"kind": "mgr", "domain": "small", "length": 1, "first": None, "shard": [0, 1], "forms": True})
    us.append({"kind": "mgr", "domain": "small", "length": 2, "first": None, "shard": [0, 1], "forms": True})
    n3 = 8
    for k in range(n3):
        us.append({"kind": "mgr", "domain": "small", "length": 3, "first": None, "shard": [k, n3], "forms": False})
    n4 = 16
    for k in range(n4):
        us.append({"kind": "mgr", "domain": "small", "length": 4, "first": [0, 1, 1], "shard": [k, n4], "forms": False})
    us.append({"kind": "interleave", "domain": "small", "length": 3 if q else 4})
    if not q:
        us.append({"kind": "mgr", "domain": "wide", "length": 2, "first": None, "shard": [0, 1], "forms": False})
        nw = 64
        for k in range(nw):
            us.append({"kind": "mgr", "domain": "wide", "length": 3, "first": None, "shard": [k, nw], "forms": False})
        for k in range(nw):
            us.append({"kind": "mgr", "domain": "wide", "length": 4, "first": [0, 1, 1], "shard": [k, nw], "forms": False})
        for k in range(nw):
            us.append({"kind": "mgr", "domain": "mid", "length": 5, "first": [0, 1, 1], "shard": [k, nw], "forms": False})
    # stan
    g = STAN_QUICK if q else STAN_THOROUGH
    lo, hi = g["warmup"]
    n = g["shards"]
    ws = list(range(lo, hi + 1))
    for k in range(n):
        us.append({"kind": "stan", "warmups": ws[k::n], "posterior": list(g["posterior"]), "itb": list(g["itb"]), "thin": list(g["thin"])})
    us.append({"kind": "stan-edge"})
    us.append({"kind": "stan-history", "length": 4 if q else 5})
    # builder
    nb = 8 if q else 16
    for k in range(nb):
        us.append({"kind": "builder", "shard": [k, nb], "tier": tier, "engine_seed": 1000 + seed})
    us.append({"kind": "builder-run", "tier": tier, "engine_seed": 1000 + seed, "shard": [0, 1]} if q else {"kind": "builder-run", "tier": tier, "engine_seed": 1000 + seed, "shard": [0, 4]})
    if not q:
        for k in range(1, 4):
            us.append({"kind": "builder-run", "tier": tier, "engine_seed": 1000 + seed, "shard": [k, 4]})
    return us


# ---------------------------------------------------------------------------------
# helpers on the real objects
# ---------------------------------------------------------------------------------


def _liesel():
    from liesel.goose.epoch import EpochConfig, EpochManager, EpochType
    from liesel.goose.warmup import stan_epochs

    return EpochConfig, EpochManager, EpochType, stan_epochs


def _as_tuple(cfg):
    return (int(cfg.type), cfg.duration, cfg.thinning)


def _msg(e):
    return f"{type(e).__name__}: {e}"


def _drain(res, m, clock, case, where):
    """next() until exhausted (+ one call beyond); compares with the reference clock."""
    n = 0
    while True:
        want = clock.next()
        has = m.has_more()
        res.transitions += 1
        if has != (want is not None):
            res.violation("next", f"{where}-has_more", case, f"has_more()={has} but the reference has {'an' if want else 'no'} epoch left after {n} hand-outs")
            return
        err = None
        try:
            st = m.next()
        except RuntimeError as e:
            st = None
            err = _msg(e)
        if want is None:
            if st is not None:
                res.violation("next", f"{where}-beyond-end", case, f"next() on an exhausted manager returned an epoch state instead of raising")
            else:
                res.outcome("next", "exhausted-raises")
            return
        if st is None:
            res.violation("next", f"{where}-raises-early", case, f"next() raised {err} although epoch {want[0]} was not handed out yet")
            return
        k, start, cfg = want
        got = (st.nth_epoch, st.time_before_epoch, st.time, st.time_in_epoch, _as_tuple(st.config))
        if got != (k, start, start, 0, tuple(cfg)):
            res.violation("next", f"{where}-index-or-time", case, f"hand-out #{n}: (nth_epoch, time_before_epoch, time, time_in_epoch, config) = {got}, expected {(k, start, start, 0, tuple(cfg))}")
            return
        if st.time_left() != cfg[1]:
            res.violation("next", f"{where}-time_left", case, f"hand-out #{n}: time_left() = {st.time_left()} != duration {cfg[1]}")
            return
        n += 1
        res.outcome("next", "handed", min(k, 3), "start>0" if start else "start0")


# ---------------------------------------------------------------------------------
# mgr: constructor + incremental append over all sequences
# ---------------------------------------------------------------------------------


def _sequences(unit):
    alpha = alphabet(unit["domain"])
    L = unit["length"]
    k, n = unit["shard"]
    first = unit.get("first")
    if first is not None:
        heads = [tuple(first)]
    else:
        heads = alpha
    if L == 1:
        for h in heads:
            yield (h,)
        return
    seconds = [a for i, a in enumerate(alpha) if i % n == k]
    for h in heads:
        for s in seconds:
            for rest in itertools.product(alpha, repeat=L - 2):
                yield (h, s) + rest


def run_mgr(unit, res):
    EpochConfig, EpochManager, EpochType, _ = _liesel()
    alpha = alphabet(unit["domain"])
    if unit.get("first") is not None and tuple(unit["first"]) not in alpha:
        raise RuntimeError("fixed first config not in the alphabet")
    obj = {a: EpochConfig(EpochType(a[0]), a[1], a[2], None) for a in alpha}
    raw = {a: EpochConfig(a[0], a[1], a[2], None) for a in alpha}
    forms = unit.get("forms", False)
    seen_v = set()

    def viol(check, sig, case, msg):
        if (check, sig) not in seen_v:
            seen_v.add((check, sig))
            res.violation(check, sig, case, msg)

    n_acc = n_rej = 0
    for ts in _sequences(unit):
        res.states += 1
        why = ref.reasons(ts)
        want = not why
        case = {"schedule": [list(t) for t in ts]}
        variants = [("list", [obj[t] for t in ts])]
        if forms:
            variants.append(("tuple", tuple(obj[t] for t in ts)))
            variants.append(("generator", (obj[t] for t in ts)))
            variants.append(("raw-int-types", [raw[t] for t in ts]))
        # (1) constructor
        for form, arg in variants:
            res.executions += 1
            res.transitions += 1
            try:
                m = EpochManager(arg)
                got, err = True, ""
            except Exception as e:  # rejection
                m, got, err = None, False, _msg(e)
            res.outcome("ctor", form if form != "list" else "", "accept" if got else "reject", ",".join(why), err)
            if got != want:
                if got:
                    viol("mgr-ctor", "accepts-invalid:" + why[0], {**case, "form": form}, f"EpochManager({form}) accepted the invalid schedule {ts} (violates: {', '.join(why)})")
                else:
                    viol("mgr-ctor", "rejects-valid", {**case, "form": form}, f"EpochManager({form}) rejected the valid schedule {ts} with {err}")
                continue
            if got:
                src = variants[0][1] if form != "raw-int-types" else arg
                if len(m._configs) != len(ts) or any(a is not b for a, b in zip(m._configs, src)):
                    viol("mgr-ctor", "configs-not-kept", {**case, "form": form}, f"accepted schedule {ts} but the manager holds {[_as_tuple(c) for c in m._configs]}")
                    continue
                clock = ref.Clock()
                clock.accepted = list(ts)
                _drain(res, m, clock, {**case, "form": form}, "ctor")
        if want:
            n_acc += 1
        else:
            n_rej += 1
        # (2) incremental history, rejected appends stay in the history
        res.executions += 1
        m = EpochManager(None)
        clock = ref.Clock()
        kept = []
        pattern = []
        for i, t in enumerate(ts):
            w = clock.append(t)
            res.transitions += 1
            try:
                m.append(obj[t])
                g = True
            except Exception as e:
                g, err = False, _msg(e)
            pattern.append("A" if g else "R")
            if g != w:
                pre = [list(x) for x in kept]
                if g:
                    bad = ref.reasons([tuple(x) for x in kept] + [t])
                    viol("mgr-append", "accepts-invalid:" + bad[0], {**case, "step": i}, f"append({t}) onto accepted {pre} was accepted although the result violates: {', '.join(bad)} (history {ts})")
                else:
                    viol("mgr-append", "rejects-valid", {**case, "step": i}, f"append({t}) onto accepted {pre} was rejected with {err} although the result is valid (history {ts})")
                break
            if w:
                kept.append(t)
            held = m._configs
            if len(held) != len(kept) or any(_as_tuple(a) != b for a, b in zip(held, kept)):
                viol("mgr-append", "state-after-" + ("accept" if g else "reject"), {**case, "step": i}, f"after append #{i} of history {ts} the manager holds {[_as_tuple(c) for c in held]}, expected {kept}")
                break
        else:
            res.outcome("incr", "".join(pattern))
            _drain(res, m, clock, {**case, "mode": "incremental"}, "incr")
    res.note([unit, n_acc, n_rej])
    res.extra["mgr_valid_sequences"] = n_acc
    res.extra["mgr_invalid_sequences"] = n_rej
    if n_acc:
        res.sample({"kind": "mgr", "valid": n_acc, "invalid": n_rej, "unit": unit})


# ---------------------------------------------------------------------------------
# interleavings of append and next on valid schedules
# ---------------------------------------------------------------------------------


def valid_schedules(domain, length):
    """All valid schedules up to ``length`` (by the reference predicate; input choice only)."""
    alpha = alphabet(domain)
    level = [(a,) for a in alpha if ref.valid((a,))]
    out = list(level)
    for _ in range(length - 1):
        level = [s + (a,) for s in level for a in alpha if ref.valid(s + (a,))]
        out.extend(level)
    return out


def run_interleave(unit, res):
    EpochConfig, EpochManager, EpochType, _ = _liesel()
    scheds = valid_schedules(unit["domain"], unit["length"])
    alpha = alphabet(unit["domain"])
    obj = {a: EpochConfig(EpochType(a[0]), a[1], a[2], None) for a in alpha}
    words_by_n = {}
    for n in range(1, unit["length"] + 1):
        ws = []
        for L in range(1, 2 * n + 2):
            for w in itertools.product("AN", repeat=L):
                if w.count("A") == n and w.count("N") <= n + 1:
                    ws.append(w)
        words_by_n[n] = ws
    seen_v = set()
    full_probe = unit["length"] <= 3
    probe_cache = {}

    def probes(ts):
        """Configs whose append makes the schedule invalid: all of them (length <= 3), else the first
        of every class (violated clauses, type) - the decision may depend on the manager's pointer, the
        reasons only on the list."""
        if ts not in probe_cache:
            probe_cache.clear()
            bad = [a for a in alpha if not ref.valid(ts + (a,))]
            if not full_probe:
                first = {}
                for a in bad:
                    first.setdefault((ref.reasons(ts + (a,)), a[0]), a)
                bad = list(first.values())
            probe_cache[ts] = bad
        return probe_cache[ts]

    for ts in scheds:
        res.states += 1
        for w in words_by_n[len(ts)]:
            res.executions += 1
            m = EpochManager(None)
            clock = ref.Clock()
            ai = 0
            case = {"schedule": [list(t) for t in ts], "word": "".join(w)}
            ok = True
            for pos, op in enumerate(w):
                res.transitions += 1
                if op == "A":
                    t = ts[ai]
                    ai += 1
                    if not clock.append(t):
                        raise RuntimeError("reference rejects a prefix of a valid schedule")
                    try:
                        m.append(obj[t])
                    except Exception as e:
                        sig = "append-rejected-after-next"
                        if sig not in seen_v:
                            seen_v.add(sig)
                            res.violation("interleave", sig, {**case, "pos": pos}, f"append #{ai - 1} of valid schedule {ts} rejected in interleaving {''.join(w)}: {_msg(e)}")
                        ok = False
                        break
                else:
                    want = clock.next()
                    has = m.has_more()
                    try:
                        st = m.next()
                    except RuntimeError:
                        st = None
                    if want is None:
                        good = st is None and not has
                        res.outcome("interleave", "next-on-exhausted")
                    else:
                        k, start, cfg = want
                        good = has and st is not None and (st.nth_epoch, st.time_before_epoch, st.time, st.time_in_epoch, _as_tuple(st.config)) == (k, start, start, 0, tuple(cfg))
                        res.outcome("interleave", "handed", k)
                    if not good:
                        sig = "next-wrong" if want is not None else "next-on-exhausted"
                        if sig not in seen_v:
                            seen_v.add(sig)
                            got = None if st is None else (st.nth_epoch, st.time_before_epoch, st.time, st.time_in_epoch)
                            res.violation("interleave", sig, {**case, "pos": pos}, f"schedule {ts}, ops {''.join(w)}: op #{pos} next() gave {got} (has_more={has}), expected {None if want is None else want[:2]}")
                        ok = False
                        break
            if ok:
                # every config that would make the schedule invalid must still be refused here, whatever
                # has been handed out so far (a rejected append leaves the manager as it was: drained below)
                for a in probes(ts):
                    res.transitions += 1
                    try:
                        m.append(obj[a])
                    except Exception:
                        continue
                    sig = "invalid-append-accepted-after-next"
                    if sig not in seen_v:
                        seen_v.add(sig)
                        res.violation("interleave", sig, {**case, "appended": list(a)}, f"schedule {ts} after ops {''.join(w)}: append of {a} accepted although {ts + (a,)} is not a valid schedule")
                    ok = False
                    break
            if ok:
                _drain(res, m, clock, case, "interleave")
    res.note([unit, len(scheds)])
    res.extra["interleave_valid_schedules"] = len(scheds)
    res.sample({"kind": "interleave", "valid_schedules": len(scheds), "words_for_longest": len(words_by_n[unit["length"]])})


# ---------------------------------------------------------------------------------
# stan_epochs
# ---------------------------------------------------------------------------------


def _stan_case(res, seen_v, stan_epochs, EpochManager, w, p, i, t, b, tp, tw, expect_cache):
    args = dict(warmup_duration=w, posterior_duration=p, init_duration=i, term_duration=t, base_duration=b, thinning_posterior=tp, thinning_warmup=tw)

    def viol(sig, msg):
        if sig not in seen_v:
            seen_v.add(sig)
            res.violation("stan", sig, args, f"stan_epochs({w}, {p}, init={i}, term={t}, base={b}, thinning_posterior={tp}, thinning_warmup={tw}): {msg}")

    res.states += 1
    res.executions += 1
    res.transitions += 1
    want_raise = ref.stan_raises(w, i, t, b)
    try:
        eps = stan_epochs(**args)
        raised = None
    except ValueError as e:
        raised = "ValueError"
    except Exception as e:
        viol("unexpected-exception", f"raised {_msg(e)}")
        return
    if want_raise != (raised is not None):
        if raised:
            viol("raises-on-legal-arguments", "raised ValueError although warmup >= 20 and warmup >= init + term + base")
        else:
            viol("no-raise-" + ("warmup<20" if w < 20 else "warmup<init+term+base"), "returned a schedule although the documented error condition holds")
        return
    if raised:
        res.outcome("stan", "raises", "w<20" if w < 20 else "", "w<i+t+b" if w < i + t + b else "")
        return
    got = [_as_tuple(c) for c in eps]
    adm = ref.stan_admissible(w, p, i, t, b, tp, tw)
    ok_ref = ref.valid(got)
    res.transitions += 1
    try:
        m = EpochManager(eps)
        ok_mgr = True
    except Exception as e:
        ok_mgr, err = False, _msg(e)
    if ok_mgr != ok_ref:
        viol("manager-disagrees-with-predicate", f"returned {got}; EpochManager {'accepts' if ok_mgr else 'rejects'} it but the validity predicate says {'valid' if ok_ref else 'invalid: ' + ', '.join(ref.reasons(got))}")
        return
    if not adm:
        res.outcome("stan", "inadmissible", "accepted" if ok_mgr else "rejected")
        return
    if not ok_mgr:
        viol("invalid-schedule-for-admissible-arguments", f"returned {got}, rejected by EpochManager: {err}")
        return
    key = (w, i, t, b)
    if key not in expect_cache:
        expect_cache.clear()
        expect_cache[key] = ref.slow_windows(w - i - t, b)
    slow = expect_cache[key]
    want = [(ref.INITIAL, 1, 1), (ref.FAST, i, tw)] + [(ref.SLOW, s, tw) for s in slow] + [(ref.FAST, t, tw), (ref.POSTERIOR, p, tp)]
    total = sum(d for ty, d, _ in got if ty in ref.WARMUP_TYPES)
    if total != w:
        viol("warmup-sum", f"warm-up epochs sum to {total}, requested {w}; schedule {got}")
        return
    if got[-1] != (ref.POSTERIOR, p, tp) or sum(1 for ty, _, _ in got if ty == ref.POSTERIOR) != 1:
        viol("posterior-epoch", f"schedule must end with exactly one POSTERIOR epoch ({p}, thinning {tp}); got {got}")
        return
    if got != want:
        viol("pattern", f"schedule {got} != documented pattern {want}")
        return
    if any(c.optional is not None for c in eps):
        viol("optional", "epoch config carries optional data")
        return
    res.outcome("stan", "ok", "slow-windows", len(slow), "remainder" if slow[-1] != b * 2 ** (len(slow) - 1) else "exact", "thin_w>1" if tw > 1 else "", "thin_p>1" if tp > 1 else "")


def run_stan(unit, res):
    _, EpochManager, _, stan_epochs = _liesel()
    seen_v = set()
    cache = {}
    n = 0
    for w in unit["warmups"]:
        for i in unit["itb"]:
            for t in unit["itb"]:
                for b in unit["itb"]:
                    for p in unit["posterior"]:
                        for tp in unit["thin"]:
                            for tw in unit["thin"]:
                                _stan_case(res, seen_v, stan_epochs, EpochManager, w, p, i, t, b, tp, tw, cache)
                                n += 1
    res.note([unit["warmups"][:3], n, sorted(res.outcomes)])
    res.sample({"kind": "stan", "warmups": unit["warmups"][:4], "tuples": n})


def run_stan_edge(unit, res):
    _, EpochManager, _, stan_epochs = _liesel()
    g = STAN_EDGE
    seen_v = set()
    cache = {}
    n = 0
    for w, p, i, t, b, tp, tw in itertools.product(g["warmup"], g["posterior"], g["init"], g["term"], g["base"], g["thin"], g["thin"]):
        _stan_case(res, seen_v, stan_epochs, EpochManager, w, p, i, t, b, tp, tw, cache)
        n += 1
    # the documented defaults
    _stan_case(res, seen_v, stan_epochs, EpochManager, 1000, 1000, 75, 50, 25, 1, 1, cache)
    res.transitions += 1
    if [_as_tuple(c) for c in stan_epochs()] != ref.stan_schedule(1000, 1000, 75, 50, 25, 1, 1):
        res.violation("stan", "defaults", {}, "stan_epochs() with default arguments differs from the documented defaults (1000, 1000, 75, 50, 25, 1, 1)")
    res.note([n, sorted(res.outcomes)])


def run_stan_history(unit, res):
    """Every word of the stated length over {call with one of three argument tuples, mutate the most
    recently returned schedule in place (append / delete / lengthen / clear)}: what a call returns is
    the documented schedule of ITS arguments whatever happened to earlier return values."""
    EpochConfig, EpochManager, EpochType, stan_epochs = _liesel()
    ARGS = {"A": (40, 10, 5, 5, 5, 1, 1), "B": (60, 12, 10, 10, 10, 2, 1), "C": (40, 10, 5, 5, 5, 1, 1)}  # C repeats A's arguments
    names = ("warmup_duration", "posterior_duration", "init_duration", "term_duration", "base_duration", "thinning_posterior", "thinning_warmup")

    def mutate(kind, eps):
        if kind == "append":
            eps.append(EpochConfig(EpochType.POSTERIOR, 5, 1, None))
        elif kind == "delete":
            del eps[1]
        elif kind == "lengthen":
            eps[2].duration += 3
        elif kind == "clear":
            eps.clear()

    ops = list(ARGS) + ["append", "delete", "lengthen", "clear"]
    seen_v = set()
    for L in range(1, unit["length"] + 1):
        for word in itertools.product(ops, repeat=L):
            if word[-1] not in ARGS or word[0] not in ARGS:
                continue
            res.executions += 1
            last = None
            for pos, op in enumerate(word):
                res.transitions += 1
                if op in ARGS:
                    try:
                        last = stan_epochs(**dict(zip(names, ARGS[op])))
                    except Exception as e:
                        if "raises" not in seen_v:
                            seen_v.add("raises")
                            res.violation("stan-history", "raises", {"word": list(word), "pos": pos}, f"stan_epochs{ARGS[op]} raised {_msg(e)} after {word[:pos]}")
                        break
                    got = [_as_tuple(c) for c in last]
                    want = ref.stan_schedule(*ARGS[op])
                    res.outcome("stan-history", "call", op, "after-mutation" if any(o not in ARGS for o in word[:pos]) else "plain")
                    if got != [tuple(x) for x in want]:
                        sig = "depends-on-earlier-return-values"
                        if sig not in seen_v:
                            seen_v.add(sig)
                            res.violation("stan-history", sig, {"word": list(word), "pos": pos}, f"after {list(word[:pos])} stan_epochs{ARGS[op]} returned {got}, documented schedule is {want}")
                        break
                else:
                    try:
                        mutate(op, last)
                    except (IndexError, AttributeError):
                        pass
    res.states += len(ops)
    res.note(["stan-history", unit["length"], res.executions])
    res.sample({"kind": "stan-history", "words": res.executions})


# ---------------------------------------------------------------------------------
# builder: chunk length divides every duration
# ---------------------------------------------------------------------------------


def _builder(seed, chains=1):
    import jax.numpy as jnp
    import liesel.goose as gs

    def lp(state):
        return -0.5 * jnp.sum(state["x"] ** 2)

    b = gs.EngineBuilder(seed=seed, num_chains=chains)
    b.set_model(gs.DictInterface(lp))
    b.add_kernel(gs.RWKernel(["x"]))
    b.set_initial_values({"x": jnp.zeros(())})
    b.show_progress = False
    return b


def builder_cases(tier):
    """(label, kind, payload) - deterministic list, simplest first."""
    q = tier == "quick"
    cases = []
    for s in valid_schedules("small", 3):
        if len(s) >= 2:
            cases.append(("schedule", s))
    # schedules with larger, number-theoretically interesting durations
    durs = (2, 3, 4, 6, 9, 10, 12, 15, 20, 30, 50, 100)
    for a in durs:
        for b in durs:
            cases.append(("schedule", ((0, 1, 1), (1, a, 1), (4, b, 1))))
    for a, b, c in itertools.product((4, 6, 10, 12, 15, 50), repeat=3):
        cases.append(("schedule", ((0, 1, 1), (3, a, 2), (2, b, 1), (4, c, c))))
    # warmup epochs whose thinning does not divide their duration (allowed: only posterior epochs need it)
    for a in (7, 9, 10, 15, 17, 20, 25, 50):
        for th in (2, 3, 4, 5, 6, 7):
            for b in (3, 6, 9, 10, 12, 50):
                cases.append(("schedule", ((0, 1, 1), (1 + (a + th) % 3, a, th), (4, b, 1))))
    itbs = [(1, 1, 1), (2, 5, 2), (5, 5, 5), (25, 50, 25), (75, 50, 25), (50, 25, 50), (100, 100, 100)]
    ws = range(20, 401) if q else range(20, 801)
    for w in ws:
        for p in (1, 7, 100):
            for itb in itbs:
                if not ref.stan_raises(w, *itb):
                    cases.append(("stan", (w, p) + itb + (1, 1)))
    for w in range(150, 260, 1 if not q else 3):
        for p in (6, 100):
            for t in (3, 10, 50):
                for tp in (1, 2):
                    for tw in (1, 3, 4, 7):
                        if ref.stan_admissible(w, p, 75, t, 25, tp, tw):
                            cases.append(("set_duration", (w, p, t, tp, tw)))
    return cases


def _chunk_check(res, seen_v, engine, sched, case, label):
    chunk = engine._jitted_sample_duration
    durs = [d for _, d, _ in sched[1:]]
    bad = [d for d in durs if not (isinstance(chunk, int) and chunk >= 1 and d % chunk == 0)]
    if bad:
        sig = f"{label}-chunk-not-dividing"
        if sig not in seen_v:
            seen_v.add(sig)
            res.violation("builder", sig, case, f"_jitted_sample_duration = {chunk} does not divide the epoch duration(s) {bad} of schedule {sched}")
        return False
    import math

    res.outcome("builder", label, "chunk", chunk if chunk < 8 else ">=8", "maximal" if chunk == math.gcd(*durs) else "not-maximal")
    return True


def _configure(res, seen_v, b, kind, payload, case):
    """Hands the schedule to the builder through the entry point under test. All
    schedules / argument tuples used here are valid / admissible by the reference, so an
    exception from the real code is a finding, not a harness problem."""
    from liesel.goose.epoch import EpochConfig, EpochType
    from liesel.goose.warmup import stan_epochs

    try:
        if kind == "schedule":
            if not ref.valid(payload):
                raise AssertionError("harness: invalid schedule in the builder grid")
            b.set_epochs([EpochConfig(EpochType(t), d, th, None) for t, d, th in payload])
        elif kind == "stan":
            if not ref.stan_admissible(*payload):
                raise AssertionError("harness: inadmissible stan tuple in the builder grid")
            b.set_epochs(stan_epochs(*payload))
        else:
            w, p, t, tp, tw = payload
            if not ref.stan_admissible(w, p, 75, t, 25, tp, tw):
                raise AssertionError("harness: inadmissible set_duration tuple in the builder grid")
            b.set_duration(w, p, term_duration=t, thinning_posterior=tp, thinning_warmup=tw)
    except (RuntimeError, ValueError) as e:
        sig = f"{kind}-rejected"
        if sig not in seen_v:
            seen_v.add(sig)
            res.violation("builder", sig, case, f"builder entry point {kind}{tuple(payload)} raised {_msg(e)} on a valid schedule / admissible arguments")
        return False
    return True


def _build(res, seen_v, b, kind, case):
    try:
        return b.build()
    except Exception as e:
        sig = f"{kind}-build-raises"
        if sig not in seen_v:
            seen_v.add(sig)
            res.violation("builder", sig, case, f"EngineBuilder.build() raised {_msg(e)} for a valid schedule")
        return None


def run_builder(unit, res):
    from mc.seams import quiet
    from liesel.goose.epoch import EpochConfig, EpochType

    k, n = unit["shard"]
    cases = builder_cases(unit["tier"])[k::n]
    seen_v = set()
    with quiet():
        for kind, payload in cases:
            res.states += 1
            res.executions += 1
            res.transitions += 1
            b = _builder(unit["engine_seed"])
            case = {"kind": kind, "args": list(payload) if kind != "schedule" else [list(x) for x in payload]}
            if not _configure(res, seen_v, b, kind, payload, case):
                continue
            if kind == "schedule":
                sched = list(payload)
            elif kind == "stan":
                sched = ref.stan_schedule(*payload)
            else:
                w, p, t, tp, tw = payload
                sched = ref.stan_schedule(w, p, 75, t, 25, tp, tw)
            held = [_as_tuple(c) for c in b.epochs]
            if held != [tuple(x) for x in sched]:
                sig = f"{kind}-epochs-differ"
                if sig not in seen_v:
                    seen_v.add(sig)
                    res.violation("builder", sig, case, f"builder holds the schedule {held}, expected {sched}")
                continue
            e = _build(res, seen_v, b, kind, case)
            if e is None:
                continue
            _chunk_check(res, seen_v, e, held, case, kind)
            em = [_as_tuple(c) for c in e._epoch_manager._configs]
            if em != held:
                sig = f"{kind}-engine-epochs-differ"
                if sig not in seen_v:
                    seen_v.add(sig)
                    res.violation("builder", sig, case, f"engine holds the schedule {em}, builder had {held}")
    res.note([unit["shard"], len(cases), sorted(res.outcomes)])
    res.sample({"kind": "builder", "cases": len(cases), "first": cases[0][1] if cases else None})


RUN_SCHEDULES = [
    ("schedule", ((0, 1, 1), (3, 4, 1), (4, 6, 2))),
    ("schedule", ((0, 1, 1), (1, 9, 2), (2, 6, 1), (4, 3, 3))),
    ("stan", (20, 7, 5, 5, 5, 1, 1)),
    ("stan", (60, 12, 10, 10, 10, 2, 1)),
    ("stan", (61, 6, 10, 10, 10, 1, 1)),
    ("stan", (100, 20, 10, 20, 10, 5, 2)),
    ("schedule", ((0, 1, 1), (4, 5, 5), (4, 10, 1))),
    ("schedule", ((0, 1, 1), (2, 8, 3), (3, 12, 4), (4, 20, 2))),
    ("set_duration", (150, 50, 50, 2, 1)),
    ("stan", (77, 1, 25, 25, 25, 1, 5)),
    ("schedule", ((0, 1, 1), (1, 17, 5), (4, 9, 1))),
    ("set_duration", (200, 60, 50, 1, 4)),
]


def run_cases(tier):
    cases = list(RUN_SCHEDULES)
    if tier != "quick":
        for a, b in itertools.product((2, 3, 4, 6, 9), repeat=2):
            cases.append(("schedule", ((0, 1, 1), (1, a, 1), (4, b, 1))))
        for w in (30, 45, 64, 90, 120):
            cases.append(("stan", (w, 10, 5, 10, 5, 1, 1)))
    return cases


def run_builder_run(unit, res):
    from mc.seams import quiet
    from liesel.goose.epoch import EpochConfig, EpochType
    from liesel.goose.warmup import stan_epochs

    k, n = unit["shard"]
    cases = run_cases(unit["tier"])[k::n]
    seen_v = set()
    with quiet():
        for kind, payload in cases:
            res.states += 1
            res.executions += 1
            b = _builder(unit["engine_seed"], chains=2)
            case = {"kind": kind, "args": list(payload) if kind != "schedule" else [list(x) for x in payload], "run": True}
            if not _configure(res, seen_v, b, kind, payload, case):
                continue
            sched = [_as_tuple(c) for c in b.epochs]
            e = _build(res, seen_v, b, "run-" + kind, case)
            if e is None:
                continue
            if not _chunk_check(res, seen_v, e, sched, case, "run-" + kind):
                continue
            try:
                e.sample_all_epochs()
                res.transitions += len(sched)
                done = e.is_sampling_done()
                err = None
            except RuntimeError as ex:
                done, err = False, _msg(ex)
            if not done:
                sig = "sampling-did-not-complete"
                if sig not in seen_v:
                    seen_v.add(sig)
                    res.violation("builder", sig, case, f"schedule {sched} with chunk {e._jitted_sample_duration}: sample_all_epochs() {'raised ' + err if err else 'left epochs unsampled'}")
                continue
            res.outcome("builder-run", "completed", e._jitted_sample_duration)
    res.note([unit["shard"], len(cases), sorted(res.outcomes)])


# ---------------------------------------------------------------------------------


def run_unit(unit):
    core.assert_repo()
    res = core.UnitResult(unit)
    kind = unit["kind"]
    if kind == "mgr":
        run_mgr(unit, res)
    elif kind == "interleave":
        run_interleave(unit, res)
    elif kind == "stan":
        run_stan(unit, res)
    elif kind == "stan-edge":
        run_stan_edge(unit, res)
    elif kind == "stan-history":
        run_stan_history(unit, res)
    elif kind == "builder":
        run_builder(unit, res)
    elif kind == "builder-run":
        run_builder_run(unit, res)
    else:
        raise RuntimeError(f"unknown unit kind {kind}")
    return res
