"""
C20 - optim_flat: documented stopping rule, restored optimum, fresh mini-batches.

Three sub-checks, all by exhaustive enumeration on the real code:

``stopper``    Stopper.stop_early / stop_now / which_best_in_recent_history, jitted
               (vmapped over all histories) and eager (one call per case), for ALL loss
               histories of a fixed length over an alphabet with tolerance-critical
               spacings x every index i x patience x (atol, rtol). Oracle: the
               pseudo-code of the Stopper docstring (mc/ref/c20_optim.py).
``optim``      optim_flat driven by a *scripted optimiser* (an optax transformation
               whose update moves the position to the next scripted letter), so that the
               validation-loss history is any chosen sequence. All executions are
               enumerated statelessly (answer enumeration: the environment's answer at
               iteration t is the letter the optimiser moves to; only consumed answers
               are branched on). Oracle: reference simulation of the documented loop.
``minibatch``  optim_flat with batch_size on a model whose gradient decodes batch
               membership exactly (identity design matrix), without and with a separate
               validation model (other data, other n); K iterations; batches must be
               disjoint, of the right size, cut from the TRAINING data and consistently
               indexed over all observed variables, must change between iterations and must cover every
               observation.
"""

from __future__ import annotations

import functools
import itertools

from mc import core
from mc.ref import c20_optim as ref

PROPERTY = "C20"
RULE = (
    "stopper: every history in letters^L (entries after i included, so independence of "
    "unused entries is covered) x every i x patience x (atol,rtol) x max_iter x "
    "{jit+vmap, eager}; distinct outcome = (function, verdict, oracle class). "
    "optim: every execution of optim_flat under the scripted optimiser: answer "
    "enumeration over the letter moved to at each iteration (3 letters), for each "
    "configuration (max_iter, patience, tolerances, restore_best_position, prune_history, "
    "save_position_history, validation model none/same-n/different-n, initial letter); "
    "distinct outcome = (stop class, stop iteration, best==last?, flags). "
    "minibatch: full product n x batch size x batch seed, K iterations each; distinct "
    "outcome = (n, batch size, number of distinct partitions seen, coverage)."
)
ASSUMPTIONS = [
    "Stopper: the window-completeness boundary i in {patience-1, patience} is not pinned by the documentation (don't-care when the documented rule says stop); for i < patience-1 no stop is allowed; ties in the window admit any minimiser as best iteration",
    "Stopper letters and tolerances are dyadic rationals so float32 (implementation) and float64 (reference) agree exactly, including the boundaries diff == atol and rel_diff == rtol",
    "optim_flat is exercised with patience <= max_iter only (patience > max_iter raises TypeError in dynamic_slice: outside the domain, an error and not a wrong result)",
    "the scripted optimiser and the gradient-decoding model are harness objects passed through the public optax / liesel API; liesel.goose.optim.tqdm is replaced by a disabled bar; in the sequence sweep and part of the flag lattice the bar object is additionally falsy, so that optim_flat's progress debug-callback (pure UI) is not compiled into the loop (4x faster, XLA cache applies); the configurations with restore=prune=True of the flag lattice and all minibatch runs keep the callback path",
    "optim letters: validation-loss gaps between distinct letters are >= 0.02, comparisons of recorded float32 losses with the float64 reference use tolerance 2e-4",
    "minibatch: 'changes between iterations' and 'covers every observation' are decided on K consecutive iterations of one run (K=20 quick / 30 thorough); under ANY correct re-drawing scheme the chance of a false alarm is < 1e-11 per case; the real batch_seed is an input label (VERIF_SEED selects the block of 5 seeds)",
    "trusted: jax.random.permutation as a source of uniform permutations, optax.apply_updates, jax.lax.while_loop / fori_loop semantics",
]

# ---------------------------------------------------------------------------------
# bounds / units
# ---------------------------------------------------------------------------------

ST_LETTERS = {"quick": [-2.0, -1.5, 0.5, 0.75], "thorough": [-2.0, -1.5, 0.0, 0.5, 0.75]}
ST_TOLS = [(0.0, 0.0), (0.25, 0.0), (0.0, 0.25), (0.25, 0.25)]
ST_PAT = [1, 2, 3]

# positions of the scripted optimiser: index -> mu. Validation data have mean 1, training
# data mean 0, so the validation order of the letters is a < b < c, the training order
# the reverse.
OPT_POS = [1.0, 0.875, -0.5]
OPT_TOLS = {"quick": [(0.0, 0.0), (0.1, 0.0), (0.0, 0.05)], "thorough": [(0.0, 0.0), (0.1, 0.0), (0.0, 0.05), (0.1, 0.05)]}
Y_TRAIN = [-1.0, 0.0, 1.0]
Y_VAL = {"same_n": [0.0, 1.0, 2.0], "diff_n": [0.5, 1.5]}
LOSS_TOL = 2e-4


def bounds(tier):
    q = tier == "quick"
    return {
        "stopper": {
            "letters": ST_LETTERS[tier],
            "history_length_jit": 7 if q else 8,
            "history_length_eager": 5,
            "eager_space": "every window position x all windows x {lowest, highest} background" if q else "all histories",
            "patience": ST_PAT,
            "tolerances": ST_TOLS,
            "max_iter": "{i+1 boundary via max_iter in (4, L+5)}",
        },
        "optim": {
            "letters": 3,
            "sequence_sweep": {"max_iter": 6 if q else 7, "patience": [1, 2, 3], "tolerances": OPT_TOLS[tier], "initial_letters": [1] if q else [0, 1, 2]},
            "flag_lattice": {"max_iter": [1, 2, 4] if q else [1, 2, 3, 5], "patience": [1, 3] if q else [1, 2, 3], "flags": "restore x prune x save_position_history x validation{none,same_n,diff_n}"},
        },
        "minibatch": {"n": [4, 5, 7], "batch_size": [2, 3], "seeds_per_run": 5, "iterations": 20 if q else 30,
                      "validation_model": "seeds 0-2 none; seed 3 separate model with n-1, seed 4 with n+2 observations and different data"},
    }


def _flag_combos():
    out = []
    for val in ("diff_n", "none", "same_n"):
        for restore, save in ((True, True), (False, True), (False, False)):
            for prune in (True, False):
                out.append({"val": val, "restore": restore, "save": save, "prune": prune})
    return out


def units(tier, seed):
    q = tier == "quick"
    us = []
    # --- stopper -------------------------------------------------------------------
    for p in ST_PAT:
        if q:
            us.append({"kind": "stopper", "mode": "jit", "space": "all", "p": p, "L": 7, "letters": ST_LETTERS[tier], "tols": ST_TOLS})
        else:
            for tol in ST_TOLS:
                us.append({"kind": "stopper", "mode": "jit", "space": "all", "p": p, "L": 8, "letters": ST_LETTERS[tier], "tols": [tol]})
    for p in ST_PAT:
        if q:
            us.append({"kind": "stopper", "mode": "eager", "space": "windows", "p": p, "L": 5, "letters": ST_LETTERS[tier], "tols": ST_TOLS})
        else:
            for tol in ST_TOLS:
                us.append({"kind": "stopper", "mode": "eager", "space": "all", "p": p, "L": 5, "letters": ST_LETTERS[tier], "tols": [tol]})
    # --- minibatch -----------------------------------------------------------------
    K = 20 if q else 30
    for n in (4, 5, 7):
        for bs in (2, 3):
            us.append({"kind": "minibatch", "n": n, "bs": bs, "seeds": [5 * seed + s for s in range(5)], "K": K})
    # --- optim: sequence sweep ---------------------------------------------------------
    M = 6 if q else 7
    plen = 1 if q else 2
    base = {"val": "diff_n", "restore": True, "save": True, "prune": True, "bar": False}
    for p in (1, 2, 3):
        for tol in OPT_TOLS[tier]:
            for init in ([1] if q else [0, 1, 2]):
                for pre in itertools.product(range(3), repeat=plen):
                    us.append({"kind": "optim", "M": M, "p": p, "atol": tol[0], "rtol": tol[1], "init": init, "prefix": list(pre), **base})
    # --- optim: flag lattice -------------------------------------------------------------
    Ms = [1, 2, 4] if q else [1, 2, 3, 5]
    ps = [1, 3] if q else [1, 2, 3]
    for fl in _flag_combos():
        fl = {**fl, "bar": bool(fl["restore"] and fl["prune"])}
        for Mx in Ms:
            for p in ps:
                if p > Mx:
                    continue
                if Mx <= 2:
                    us.append({"kind": "optim", "M": Mx, "p": p, "atol": 0.0, "rtol": 0.0, "init": 2, "prefix": [], **fl})
                else:
                    for pre in range(3):
                        us.append({"kind": "optim", "M": Mx, "p": p, "atol": 0.0, "rtol": 0.0, "init": 2, "prefix": [pre], **fl})
    # small units are merged so that a unit lasts a few seconds at least
    merged, small = [], []
    for u in us:
        if u["kind"] == "optim" and (u["M"] <= 4):
            small.append(u)
            if len(small) == 6:
                merged.append({"kind": "multi", "units": small})
                small = []
        else:
            merged.append(u)
    if small:
        merged.append({"kind": "multi", "units": small})
    # one unit of every sub-check first (evidence samples are taken in unit order)
    front, seen_kinds = [], set()
    for u in merged:
        k = u["kind"] if u["kind"] != "stopper" else "stopper-" + u["mode"]
        if k not in seen_kinds:
            seen_kinds.add(k)
            front.append(u)
    return front + [u for u in merged if not any(u is f for f in front)]


# ---------------------------------------------------------------------------------
# harness objects
# ---------------------------------------------------------------------------------

_SETUP = {}


def _setup():
    """One-time per worker: silence tqdm/logging, enable a private XLA compile cache."""
    if _SETUP:
        return _SETUP
    import atexit
    import logging
    import shutil
    import tempfile

    import jax
    from tqdm import tqdm

    import liesel.goose.optim as O

    d = tempfile.mkdtemp(prefix="c20_xla_")
    atexit.register(shutil.rmtree, d, ignore_errors=True)
    try:
        jax.config.update("jax_compilation_cache_dir", d)
        jax.config.update("jax_persistent_cache_min_compile_time_secs", 0)
        jax.config.update("jax_persistent_cache_min_entry_size_bytes", -1)
    except Exception:  # the cache is an optimisation only
        pass
    class QuietFalsy(tqdm):
        """Disabled bar that is falsy: optim_flat then skips its tqdm debug callback."""

        def __init__(self, *a, **k):
            k["disable"] = True
            super().__init__(*a, **k)

        def __bool__(self):
            return False

    _SETUP["bar_on"] = functools.partial(tqdm, disable=True)  # truthy: callback path compiled in
    _SETUP["bar_off"] = QuietFalsy
    O.tqdm = _SETUP["bar_on"]
    logging.getLogger("liesel").setLevel(logging.ERROR)
    _SETUP["O"] = O
    return _SETUP


def _drop_caches():
    """Every optim_flat call leaves traced closures in jax's in-memory caches (~2.5 MB per
    call); workers are reused for many units, so the caches are dropped after each unit
    (the on-disk XLA cache keeps the compiled loops)."""
    import gc

    import jax

    jax.clear_caches()
    gc.collect()


def scripted_optimizer(script_values):
    """optax transformation: the t-th update moves every leaf to script_values[t]."""
    import jax
    import jax.numpy as jnp
    import optax

    script = jnp.asarray(script_values, dtype=jnp.float32)

    def init(params):
        return {"t": jnp.zeros((), jnp.int32), "script": script}

    def update(grads, state, params=None):
        tgt = state["script"][state["t"]]
        upd = jax.tree.map(lambda p: tgt - p, params)
        return upd, {"t": state["t"] + 1, "script": state["script"]}

    return optax.GradientTransformation(init, update)


def recording_optimizer(sink: list):
    """optax transformation with zero updates that reports (t, gradients) to ``sink``."""
    import jax
    import jax.numpy as jnp
    import numpy as np
    import optax

    def cb(t, g):
        sink.append((int(t), np.asarray(g, dtype=np.float64)))

    def init(params):
        return {"t": jnp.zeros((), jnp.int32)}

    def update(grads, state, params=None):
        jax.debug.callback(cb, state["t"], grads["coef"])
        upd = jax.tree.map(jnp.zeros_like, params)
        return upd, {"t": state["t"] + 1}

    return optax.GradientTransformation(init, update)


def mean_model(y, init_mu):
    import jax.numpy as jnp
    import tensorflow_probability.substrates.jax.distributions as tfd

    import liesel.model as lsl

    mu = lsl.param(jnp.asarray(init_mu, jnp.float32), lsl.Dist(tfd.Normal, loc=0.0, scale=10.0), name="mu")
    yv = lsl.obs(jnp.asarray(y, dtype=jnp.float32), lsl.Dist(tfd.Normal, loc=mu, scale=1.0), name="y")
    return lsl.GraphBuilder().add(yv).build_model()


def onehot_model(n):
    """y_j ~ N(x_j . coef, 1), X = I_n, y_j = j + 1: d loss / d coef_j != 0 iff j in batch."""
    import jax.numpy as jnp
    import tensorflow_probability.substrates.jax.distributions as tfd

    import liesel.model as lsl

    x = lsl.obs(jnp.eye(n, dtype=jnp.float32), name="x")
    coef = lsl.param(jnp.zeros(n, jnp.float32), name="coef")
    mu = lsl.Var(lsl.Calc(jnp.dot, x, coef), name="mu")
    y = lsl.obs(jnp.arange(1, n + 1, dtype=jnp.float32), lsl.Dist(tfd.Normal, loc=mu, scale=1.0), name="y")
    return lsl.GraphBuilder().add(y).build_model()


def onehot_validation_model(n, n_val):
    """Validation model for onehot_model(n) with DIFFERENT data and sample size: row i of
    X is e_{(n-1-i) mod n} and y_i = 20 - i. If the mini-batches were cut from these data
    the decoded gradients would not be proportional to the training responses."""
    import jax.numpy as jnp
    import numpy as np
    import tensorflow_probability.substrates.jax.distributions as tfd

    import liesel.model as lsl

    X = np.zeros((n_val, n), dtype=np.float32)
    for i in range(n_val):
        X[i, (n - 1 - i) % n] = 1.0
    x = lsl.obs(jnp.asarray(X), name="x")
    coef = lsl.param(jnp.zeros(n, jnp.float32), name="coef")
    mu = lsl.Var(lsl.Calc(jnp.dot, x, coef), name="mu")
    y = lsl.obs(jnp.asarray(20.0 - np.arange(n_val), dtype=jnp.float32), lsl.Dist(tfd.Normal, loc=mu, scale=1.0), name="y")
    return lsl.GraphBuilder().add(y).build_model()


# ---------------------------------------------------------------------------------
# sub-check: stopper
# ---------------------------------------------------------------------------------


def stopper_histories(u):
    """
    Index matrix [N, L] of the loss histories of a stopper unit.
    space == "all":     letters^L.
    space == "windows": for every window position (every i) all letters^p windows, the
                        entries outside the window set to the lowest / to the highest
                        letter (two backgrounds).
    """
    import numpy as np

    nl, L, p = len(u["letters"]), u["L"], u["p"]
    if u["space"] == "all":
        return np.asarray(list(itertools.product(range(nl), repeat=L)), dtype=np.int64)
    order = np.argsort(u["letters"])
    rows = set()
    for i in range(L):
        lo = max(i - p + 1, 0)
        for w in itertools.product(range(nl), repeat=i + 1 - lo):
            for bg in (int(order[0]), int(order[-1])):
                h = [bg] * L
                h[lo : i + 1] = w
                rows.add(tuple(h))
    return np.asarray(sorted(rows), dtype=np.int64)


def run_stopper(res: core.UnitResult, u: dict):
    import jax
    import jax.numpy as jnp
    import numpy as np

    from liesel.goose.optim import Stopper

    letters, L, p = u["letters"], u["L"], u["p"]
    nl = len(letters)
    IDX = stopper_histories(u)
    H64 = np.asarray(letters, dtype=np.float64)[IDX]
    H32 = H64.astype(np.float32)
    if not np.array_equal(H32.astype(np.float64), H64):
        raise RuntimeError("letters are not exactly representable in float32")
    n = len(IDX)
    I = np.arange(L)
    first = {}

    # window code: base-nl number of the letters h[i-p+1..i], for i >= p-1
    code = np.zeros((n, L), dtype=np.int64)
    for k in range(p):
        sh = np.zeros((n, L), dtype=np.int64)
        # letter at position i-p+1+k
        off = p - 1 - k
        sh[:, off:] = IDX[:, : L - off]
        code = code * nl + sh
    windows = list(itertools.product(range(nl), repeat=p))  # index == code

    def report(fn, klass, mask, got, want_fn, atol, rtol, M):
        key = (fn, klass)
        if key in first or not mask.any():
            return
        first[key] = True
        a, i = map(int, np.argwhere(mask)[0])
        h = H64[a].tolist()
        res.violation(
            "stopper",
            f"{fn}-{klass}-{u['mode']}",
            {"history": h, "i": i, "patience": p, "atol": atol, "rtol": rtol, "max_iter": M, "mode": u["mode"]},
            f"Stopper(max_iter={M}, patience={p}, atol={atol}, rtol={rtol}).{fn}(i={i}, loss_history={h}) returned {got[a, i]}, documented rule says {want_fn(a, i)} ({int(mask.sum())} such cases)",
        )

    incomplete = np.broadcast_to(I < p - 1, (n, L))
    boundary = np.broadcast_to((I == p - 1) | (I == p), (n, L))
    full = np.broadcast_to(I > p, (n, L))
    klasses = {"window-incomplete": incomplete, "boundary": boundary, "full-window": full}

    Ms = (4, L + 5)
    for atol, rtol in u["tols"]:
        # documented verdict / minimisers per window, literally from the pseudo-code
        lut = np.asarray([ref.doc_stop([letters[j] for j in w], atol, rtol) for w in windows])
        lut_min = np.zeros((len(windows), p), dtype=bool)
        for c, w in enumerate(windows):
            for o in ref.best_set([letters[j] for j in w], p - 1, p):
                lut_min[c, o] = True
        D = lut[code]  # documented rule on the window (meaningful for i >= p-1)

        sts = {M: Stopper(max_iter=M, patience=p, atol=atol, rtol=rtol) for M in Ms}
        st = sts[Ms[1]]
        N = {}
        if u["mode"] == "jit":
            def vm(f):
                return jax.jit(jax.vmap(jax.vmap(lambda h, i: f(i, h), (None, 0)), (0, None)))

            E = np.asarray(vm(st.stop_early)(jnp.asarray(H32), jnp.asarray(I)))
            B = np.asarray(vm(st.which_best_in_recent_history)(jnp.asarray(H32), jnp.asarray(I)))
            for M in Ms:
                N[M] = np.asarray(vm(sts[M].stop_now)(jnp.asarray(H32), jnp.asarray(I)))
        else:
            E = np.zeros((n, L), dtype=bool)
            B = np.zeros((n, L), dtype=np.int64)
            N = {M: np.zeros((n, L), dtype=bool) for M in Ms}
            for a, h in enumerate(H32):
                for i in range(L):
                    E[a, i] = bool(st.stop_early(i, h))
                    B[a, i] = int(st.which_best_in_recent_history(i, h))
                    for M in Ms:
                        N[M][a, i] = bool(sts[M].stop_now(i, h))
        if E.shape != (n, L) or B.shape != (n, L) or any(N[M].shape != (n, L) for M in Ms) or E.dtype != bool:
            raise RuntimeError("unexpected result shape / dtype")
        B = B.astype(np.int64)
        res.transitions += 4 * E.size
        res.executions += E.size

        def want_early(a, i):
            return ref.early_verdict(H64[a], i, p, atol, rtol)

        # stop_early: must be False while the window is incomplete; documented verdict
        # after a full window; at the boundary only a spurious stop (rule says no) counts
        report("stop_early", "window-incomplete-spurious", incomplete & E, E, want_early, atol, rtol, Ms[1])
        report("stop_early", "boundary-spurious", boundary & E & ~D, E, want_early, atol, rtol, Ms[1])
        report("stop_early", "full-window-spurious", full & E & ~D, E, want_early, atol, rtol, Ms[1])
        report("stop_early", "full-window-missed", full & ~E & D, E, want_early, atol, rtol, Ms[1])
        for M in Ms:
            atmax = np.broadcast_to(I >= M - 1, (n, L))
            nw = N[M]

            def want_now(a, i, M=M):
                return ref.stop_now_verdict(H64[a], i, p, atol, rtol, M)

            report("stop_now", "max_iter-missed", atmax & ~nw, nw, want_now, atol, rtol, M)
            report("stop_now", "window-incomplete-spurious", ~atmax & incomplete & nw, nw, want_now, atol, rtol, M)
            report("stop_now", "boundary-spurious", ~atmax & boundary & nw & ~D, nw, want_now, atol, rtol, M)
            report("stop_now", "full-window-spurious", ~atmax & full & nw & ~D, nw, want_now, atol, rtol, M)
            report("stop_now", "full-window-missed", ~atmax & full & ~nw & D, nw, want_now, atol, rtol, M)
            for am in (False, True):
                for val in (False, True):
                    if ((atmax == am) & (nw == val)).any():
                        res.outcome("now", am, val)
        # which_best: for i >= p-1 the result is a minimiser inside the window
        haswin = np.broadcast_to(I >= p - 1, (n, L))
        off = B - (I[None, :] - p + 1)
        inside = (off >= 0) & (off < p)
        ok = np.zeros((n, L), dtype=bool)
        ok[inside] = lut_min[code[inside], off[inside]]

        def want_best(a, i):
            return sorted(ref.best_set(H64[a], i, p))

        report("which_best", "outside-window", haswin & ~inside, B, want_best, atol, rtol, Ms[1])
        report("which_best", "not-minimal", haswin & inside & ~ok, B, want_best, atol, rtol, Ms[1])
        # spot validation of the vectorised oracle against the per-case reference
        for a in range(0, n, max(1, n // 50)):
            for i in range(L):
                v = ref.early_verdict(H64[a], i, p, atol, rtol)
                vv = False if i < p - 1 else (None if (i in (p - 1, p) and D[a, i]) else bool(D[a, i]))
                if v != vv:
                    raise RuntimeError("vectorised stopper oracle disagrees with the reference")
        for kname, km in klasses.items():
            for e in (False, True):
                for d in (False, True):
                    if (km & (E == e) & ((D == d) | incomplete)).any():
                        res.outcome("early", kname, e, "doc=" + ("-" if kname == "window-incomplete" else str(d)), (atol > 0, rtol > 0))
        if (haswin & (B == I[None, :])).any():
            res.outcome("best", "last")
        if (haswin & (B < I[None, :])).any():
            res.outcome("best", "earlier")
        res.note([atol, rtol, int(E.sum()), int(B.sum())] + [int(N[M].sum()) for M in Ms])
    res.states += n * L * len(u["tols"])
    res.sample({"kind": "stopper", "mode": u["mode"], "space": u["space"], "patience": p, "histories": n, "example": H64[n // 3].tolist()}, limit=1)


# ---------------------------------------------------------------------------------
# sub-check: optim (scripted optimiser)
# ---------------------------------------------------------------------------------


def _run_optim_once(cfg: dict, letters: list[int]):
    """Runs the real optim_flat; returns plain-Python observations."""
    import numpy as np
    from liesel.goose.optim import Stopper, optim_flat

    S = _setup()
    S["O"].tqdm = S["bar_on"] if cfg.get("bar") else S["bar_off"]
    M, p = cfg["M"], cfg["p"]
    script = [OPT_POS[a] for a in letters] + [OPT_POS[0]] * (M + 1 - len(letters))
    model = mean_model(Y_TRAIN, OPT_POS[cfg["init"]])
    # the validation model is a separately built object whose own parameter value differs from the
    # training model's start value: only the POSITION is pushed through it
    mval = None if cfg["val"] == "none" else mean_model(Y_VAL[cfg["val"]], OPT_POS[(cfg["init"] + 1) % len(OPT_POS)])
    stopper = Stopper(max_iter=M, patience=p, atol=cfg["atol"], rtol=cfg["rtol"])
    r = optim_flat(
        model,
        ["mu"],
        optimizer=scripted_optimizer(script),
        stopper=stopper,
        batch_seed=0,
        save_position_history=cfg["save"],
        model_validation=mval,
        restore_best_position=cfg["restore"],
        prune_history=cfg["prune"],
        progress_bar=False,
    )
    h = r.history
    obs = {
        "iteration": int(r.iteration),
        "iteration_best": int(r.iteration_best),
        "position": {k: float(v) for k, v in r.position.items()},
        "loss_train": np.asarray(h["loss_train"], dtype=np.float64),
        "loss_validation": np.asarray(h["loss_validation"], dtype=np.float64),
        "pos_hist": None if h["position"] is None else np.asarray(h["position"]["mu"], dtype=np.float64),
        "pos_hist_keys": None if h["position"] is None else sorted(h["position"]),
        "state_mu": float(r.model_state["mu_value"].value),
        "state_log_prob": float(r.model_state["_model_log_prob"].value),
        "state_log_lik": float(r.model_state["_model_log_lik"].value),
        "state_y": np.asarray(r.model_state["y_value"].value, dtype=np.float64),
        "max_iter": int(r.max_iter),
        "n_train": int(r.n_train),
        "n_validation": int(r.n_validation),
        "patience_after": int(stopper.patience),
    }
    return obs


def _check_optim(res, cfg, letters, obs, seen_sigs):
    import numpy as np

    M, p, atol, rtol = cfg["M"], cfg["p"], cfg["atol"], cfg["rtol"]
    yv = None if cfg["val"] == "none" else Y_VAL[cfg["val"]]
    rm = ref.NormalMeanModel(Y_TRAIN, yv)
    if len(letters) != M:
        raise RuntimeError("letters must have length max_iter")
    pos_full = ([OPT_POS[cfg["init"]]] + [OPT_POS[a] for a in letters])[:M]
    lv = [rm.loss_val(x) for x in pos_full]
    lt = [rm.loss_train(x) for x in pos_full]
    k = obs["iteration"]
    case = {"cfg": cfg, "script_letters": letters[: max(k, 0)], "positions": pos_full, "validation_losses": lv,
            "observed": {"iteration": k, "iteration_best": obs["iteration_best"], "position": obs["position"]}}

    def bad(sig, msg):
        if sig in seen_sigs:
            return
        seen_sigs.add(sig)
        res.violation("optim", sig, case, msg + f" [max_iter={M} patience={p} atol={atol} rtol={rtol} val={cfg['val']} restore={cfg['restore']} prune={cfg['prune']} positions={pos_full}]")

    # stop iteration
    allowed = [M - 1] if cfg["val"] == "none" else ref.allowed_stops(lv, M, p, atol, rtol)
    if k not in allowed:
        if not (0 <= k <= M - 1):
            bad("stop-iteration-out-of-range", f"iteration={k} outside 0..{M - 1}")
            return "broken"
        bad("stop-too-early" if k < allowed[-1] else "stop-too-late", f"stopped at iteration {k}, the documented rule allows {allowed} for validation losses {np.round(lv, 4).tolist()}")
    stop_class = "max_iter" if k >= M - 1 else ("boundary" if k != allowed[-1] else "early")

    # histories: lengths, NaN padding, values
    want_len = k + 1 if cfg["prune"] else M
    series = {"loss_train": (obs["loss_train"], lt), "loss_validation": (obs["loss_validation"], lv)}
    if cfg["save"]:
        if obs["pos_hist"] is None or obs["pos_hist_keys"] != ["mu"]:
            bad("history-position-missing", "position history missing although save_position_history=True")
        else:
            series["position"] = (obs["pos_hist"], pos_full)
    elif obs["pos_hist"] is not None:
        bad("history-position-present", "position history returned although save_position_history=False")
    for name, (got, want) in series.items():
        if got.shape != (want_len,):
            bad(f"history-length-{name}-{'pruned' if cfg['prune'] else 'full'}", f"history[{name}] has shape {got.shape}, documented length {want_len} (iteration={k})")
            continue
        used, rest = got[: k + 1], got[k + 1 :]
        if np.isnan(used).any():
            bad(f"history-nan-in-used-{name}", f"history[{name}] contains NaN at or before the last iteration {k}: {got.tolist()}")
            continue
        if rest.size and not np.isnan(rest).all():
            bad(f"history-padding-{name}", f"history[{name}] entries after iteration {k} are not all NaN: {got.tolist()}")
        tol = 0.0 if name == "position" else LOSS_TOL
        w = np.asarray(want[: k + 1])
        if np.max(np.abs(used - w)) > tol:
            j = int(np.argmax(np.abs(used - w)))
            bad(f"history-values-{name}", f"history[{name}][{j}]={used[j]} but the reference value at the position of iteration {j} is {w[j]}")

    # best iteration
    ib = obs["iteration_best"]
    bset = ref.best_set(lv[: k + 1], k, p)
    if ib not in bset:
        lo = max(k - p + 1, 0)
        bad("ibest-outside-window" if not (lo <= ib <= k) else "ibest-not-argmin-in-window",
            f"iteration_best={ib}, but the minimisers of the validation loss in the final patience window [{lo}..{k}] are {sorted(bset)} (losses {np.round(lv[: k + 1], 4).tolist()})")

    # returned position
    if 0 <= ib <= k:
        want_pos = pos_full[ib] if cfg["restore"] else pos_full[k]
        if sorted(obs["position"]) != ["mu"] or obs["position"]["mu"] != want_pos:
            bad("position-not-best-iteration" if cfg["restore"] else "position-not-last-iteration",
                f"returned position {obs['position']} but the recorded position at iteration {ib if cfg['restore'] else k} is {want_pos}")

    # returned model state is consistent with the returned position
    pm = obs["position"].get("mu")
    if pm is not None:
        if obs["state_mu"] != pm:
            bad("state-position-mismatch", f"model_state mu_value={obs['state_mu']} but position mu={pm}")
        if abs(obs["state_log_prob"] + rm.loss_train(pm)) > LOSS_TOL or abs(obs["state_log_lik"] - rm.log_lik_train(pm)) > LOSS_TOL:
            bad("state-not-updated", f"model_state log_prob={obs['state_log_prob']} but the training model's log_prob at the returned position is {-rm.loss_train(pm)}")
        if obs["state_y"].tolist() != [float(v) for v in Y_TRAIN]:
            bad("state-data-changed", "observed data in the returned state differ from the training data")
    if obs["max_iter"] != M or obs["n_train"] != len(Y_TRAIN) or obs["n_validation"] != len(rm.yv):
        bad("result-metadata", f"max_iter/n_train/n_validation = {obs['max_iter']}/{obs['n_train']}/{obs['n_validation']}")

    res.outcome("optim", stop_class, k, "best=last" if ib == k else "best<last", cfg["val"], cfg["restore"], cfg["prune"], cfg["save"])
    return stop_class


def run_optim(res: core.UnitResult, cfg: dict):
    _setup()
    seen_sigs: set[str] = set()
    pre = list(cfg["prefix"])
    cfgc = {k: v for k, v in cfg.items() if k not in ("kind", "prefix")}
    n_exec = 0
    iters = 0

    def run(sc: core.Script):
        nonlocal n_exec, iters
        letters = pre + list(sc.prefix)
        letters = letters + [0] * (cfg["M"] - len(letters))
        obs = _run_optim_once(cfgc, letters)
        k = obs["iteration"]
        n_exec += 1
        iters += max(k, 0)
        # answers consumed by this execution (beyond the unit's fixed prefix)
        for j in range(len(pre), min(k, cfg["M"])):
            a = sc.choose(3, f"it{j + 1}")
            if a != letters[j]:
                raise RuntimeError("script/choice bookkeeping diverged")
        _check_optim(res, cfgc, letters, obs, seen_sigs)
        return obs

    for choices, obs in core.answers(run, None):
        res.note([pre + choices, obs["iteration"], obs["iteration_best"], obs["position"]["mu"] if "mu" in obs["position"] else None])
        res.sample({"kind": "optim", "cfg": cfgc, "letters": pre + choices, "iteration": obs["iteration"], "iteration_best": obs["iteration_best"],
                    "loss_validation": obs["loss_validation"].tolist()}, limit=1)
    res.states += n_exec
    res.executions += n_exec
    res.transitions += iters
    _drop_caches()


# ---------------------------------------------------------------------------------
# sub-check: minibatch
# ---------------------------------------------------------------------------------


def run_minibatch(res: core.UnitResult, u: dict):
    import jax
    import numpy as np
    from liesel.goose.optim import Stopper, optim_flat

    _setup()
    n, bs, K = u["n"], u["bs"], u["K"]
    B = n // bs
    first: set[str] = set()
    # seeds 0-2: no validation model; seed 3 / 4: a separate validation model with other
    # data and a smaller / larger sample size (the batches must still be cut from the
    # TRAINING data)
    plan = [(sd, None) for sd in u["seeds"][:3]] + [(u["seeds"][3], n - 1), (u["seeds"][4], n + 2)]
    for seed, n_val in plan:
        sink: list = []
        model = onehot_model(n)
        mval = None if n_val is None else onehot_validation_model(n, n_val)
        r = optim_flat(model, ["coef"], optimizer=recording_optimizer(sink), stopper=Stopper(max_iter=K + 1, patience=K + 1),
                       batch_size=bs, batch_seed=seed, model_validation=mval, progress_bar=False)
        jax.effects_barrier()
        res.executions += 1
        case = {"n": n, "batch_size": bs, "batch_seed": seed, "iterations": K, "validation_model": None if n_val is None else {"n_validation": n_val, "X": "row i = e_((n-1-i) mod n)", "y": "20 - i"}}

        def bad(sig, msg, extra=None):
            if sig in first:
                return
            first.add(sig)
            res.violation("minibatch", sig, {**case, **(extra or {})}, msg + f" [n={n} batch_size={bs} batch_seed={seed} K={K} validation model: {'none' if n_val is None else f'separate, n_validation={n_val}'}]")

        if int(r.iteration) != K:
            # patience = max_iter = K + 1: only the iteration limit can stop this run, after exactly K iterations
            bad("iteration-limit-not-respected", f"optim_flat with Stopper(max_iter={K + 1}) ran {int(r.iteration)} iterations instead of {K}")
            continue
        sink.sort(key=lambda tg: tg[0])
        ts = [t for t, _ in sink]
        if ts != list(range(len(ts))):
            raise RuntimeError(f"gradient log is not a contiguous sequence of optimiser steps: {ts[:10]}...")
        if len(sink) != K * B:
            bad("batches-per-iteration", f"{len(sink)} optimiser steps in {K} iterations, expected {B} batches per iteration")
            continue
        y = np.arange(1, n + 1, dtype=np.float64)
        partitions = []
        for it in range(K):
            batches = []
            for b in range(B):
                g = sink[it * B + b][1]
                members = [j for j in range(n) if g[j] != 0.0]
                # consistency of x- and y-indexing: g_j / y_j is the same constant c < 0
                ratios = [g[j] / y[j] for j in members]
                if members and (max(ratios) - min(ratios) > 1e-4 * abs(ratios[0]) or ratios[0] >= 0):
                    bad("inconsistent-batching", f"iteration {it + 1} batch {b}: gradient {g.tolist()} is not -(c)*y_train restricted to a batch of training observations (y_train = {y.tolist()})", {"iteration": it + 1, "gradient": g.tolist()})
                if len(members) != bs:
                    bad("batch-size", f"iteration {it + 1} batch {b} has members {members}, expected {bs} distinct observations", {"iteration": it + 1, "members": members})
                batches.append(tuple(members))
                res.transitions += 1
            flat = [j for m in batches for j in m]
            if len(flat) != len(set(flat)):
                bad("batches-overlap", f"iteration {it + 1}: batches {batches} overlap", {"iteration": it + 1, "batches": batches})
            partitions.append(tuple(batches))
        distinct = len(set(partitions))
        # membership as sets (order inside a batch / of batches is irrelevant)
        distinct_sets = len({frozenset(frozenset(b) for b in part) for part in partitions})
        used = sorted({j for part in partitions for b in part for j in b})
        never = [j for j in range(n) if j not in used]
        if distinct_sets == 1:
            bad("same-partition-every-iteration",
                f"batch membership is {partitions[0]} in each of the {K} iterations" + (f"; observations {never} are never used" if never else ""),
                {"partition": partitions[0], "never_used": never})
        elif never:
            bad("observation-never-used", f"observations {never} occur in no batch of {K} iterations", {"never_used": never})
        res.states += distinct
        res.outcome("minibatch", n, bs, "val" if n_val is not None else "noval", "distinct-partitions", min(distinct_sets, 3), "covered" if not never else "uncovered")
        res.note([seed, partitions[:3], distinct_sets, never])
        res.sample({"kind": "minibatch", **case, "first_partitions": partitions[:3], "distinct_partitions": distinct_sets}, limit=1)
    _drop_caches()


# ---------------------------------------------------------------------------------


def _dispatch(res, u):
    if u["kind"] == "stopper":
        run_stopper(res, u)
    elif u["kind"] == "optim":
        run_optim(res, u)
    elif u["kind"] == "minibatch":
        run_minibatch(res, u)
    elif u["kind"] == "multi":
        for v in u["units"]:
            _dispatch(res, v)
    else:
        raise ValueError(u["kind"])


def run_unit(unit):
    core.assert_repo()
    res = core.UnitResult(unit)
    _dispatch(res, unit)
    return res
