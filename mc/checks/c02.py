"""
C02 - Model.log_prob / log_lik / log_prior equal the joint log-density and decompose as
documented.

Per generated G-stat program (mc/ref/c02_gstat.py) a real liesel model is built; the
valuation lattice of its strong variables is walked by single assignments on ONE live
model (an Euler circuit of the lattice graph: every directed single-assignment
transition between lattice points is executed exactly once, so every valuation is
reached along several paths and from non-initial states), once with auto-update on and
once with auto-update off + update(). After every transition the three totals, every
Dist node / Var.log_prob and the decomposition identity are compared with the float64
scipy reference evaluator.
"""

from __future__ import annotations

import os
import traceback

import numpy as np

from mc import core
from mc.ref import c02_gstat as G

PROPERTY = "C02"
RULE = (
    "programs: G-stat grammar = 16 hierarchy skeletons (depth <= 3, <= 4 distributed variables; scalar / vector / "
    "degenerate-MVN; Normal, Gamma, InverseGamma, HalfCauchy, Bernoulli, Poisson; weak intermediate vars, Calc and "
    "TransientCalc; two skeletons with a SHARED cached intermediate feeding two distributions) x EVERY flag combination {observed, parameter, neither, both}^nd x per_obs subsets, plus special "
    "structures (Dist without variable with hand-set `at`, weak var with a distribution, flagged vars without "
    "distribution, transformed variables via 7 entry points x 3 families, user-supplied nodes for every non-empty "
    "subset of the three totals x 3 scalar node kinds plus NON-SCALAR user nodes (vector Calc on values, pointwise log-lik "
    "vector of a Dist node, vector and matrix Value constants), distributions from TFP's numpy substrate (alone and mixed "
    "with jax-substrate ones, vector log-densities, per_obs on/off), hyper-parameters as Value/Var) and DistRegBuilder models. Per program: "
    "walk of the valuation lattice by single assignments on one live model (Euler circuit over 3 values per strong "
    "variable for canonical programs, star walk otherwise), under auto-update on, off+update(), and off + TARGETED "
    "update('_model_log_prob'|'_model_log_lik'|'_model_log_prior') (that total is compared, then update() and everything is "
    "compared). Assignment styles cycle per variable: new jax array, new numpy array, and 'fetch the stored numpy array, "
    "edit it in place, assign the same object back'. For canonical / special-structure / DistReg / shared-intermediate "
    "programs a save/restore segment follows: Model.state is taken while nodes are pending (auto-update off, after an "
    "assignment, before update()), the walk continues, the snapshot is loaded again, update(), everything is compared. "
    "Distinct outcome = "
    "(skeleton, flag pattern, per_obs pattern, decomposable?, walk)."
)
ASSUMPTIONS = [
    "lattice: 3 values per strong variable (2 data sets for responses); nothing is claimed between lattice points",
    "float32 implementation vs float64 scipy reference: tolerance 4e-6 * sum|element-wise log-densities| + 4e-6; the largest accepted deviation is reported in extra.max_err_over_scale_all_units (2.9e-7 on /repo, i.e. the tolerance is 14x the observed float32 noise)",
    "trusted: scipy densities (Normal, Gamma, InverseGamma, HalfCauchy, Poisson pmf), numpy eigvalsh for the pseudo-determinant; the program's own node functions are shared between model and reference (numpy vs jax.numpy)",
    "transformed variables: closed-form Jacobians for Exp, Softplus(hinge), Scale, and TFP's default event-space bijectors of Gamma / InverseGamma / HalfCauchy (C14 goes deeper)",
    "quick tier: the joint product flags x per_obs is complete for <= 2 distributed variables and for the canonical flags; for 3-4 distributed variables and non-canonical flags 4 per_obs subsets (all, none, two alternating) per flag combination; thorough: the complete joint product",
]

REL = 4e-6
ABS = 4e-6
TOTALS = ("log_prob", "log_lik", "log_prior")


def bounds(tier):
    progs = G.all_programs(tier)
    return {
        "programs": len(progs),
        "skeletons": len(G.skeletons()),
        "max_distributed_vars": 4,
        "depth": 3,
        "lattice_values_per_strong_var": 3,
        "flags": "all 4^nd combinations",
        "per_obs": "all subsets for canonical flags and nd<=2; 4 patterns per non-canonical flag combination for nd>=3" if tier == "quick" else "all subsets for every flag combination",
        "modes": ["auto_update", "manual update()", "targeted update(_model_log_*) then update() (canonical, special-structure, DistReg and shared-intermediate programs)"],
        "save_restore": "2 rounds per targeted program: snapshot with pending nodes -> update -> another assignment -> load snapshot -> update",
        "assignment_styles": ["new jax array", "new numpy array", "in-place edit of the stored numpy array + re-assignment of the same object"],
        "rel_tol": REL,
    }


def _cost(p):
    sizes = [len(a["lattice"]) for a in G.assignable(p)]
    s2 = [min(s, 2) for s in sizes]
    n2 = int(np.prod(s2)) * sum(s - 1 for s in s2)
    if p["walk"] == "euler3":
        n = int(np.prod(sizes)) * sum(s - 1 for s in sizes)
        return 2 * n + 2 * n2 + 10
    if p["walk"] == "euler2":
        return 4 * n2 + 10
    return (4 if p.get("targeted") else 2) * len(sizes) + (10 if p.get("targeted") else 4)  # modes (targeted counts twice) + save/restore + build


def units(tier, seed):
    progs = G.all_programs(tier)
    groups: dict[str, list] = {}
    for p in progs:
        groups.setdefault(p["base"], []).append(p)
    target = 1600 if tier == "quick" else 4500
    out, cur, cost = [], [], 0
    # simplest first; groups stay together (per_obs variants are compared with each other)
    for base, ps in groups.items():
        c = sum(_cost(p) for p in ps)
        if cur and cost + c > target:
            out.append({"tier": tier, "labels": cur})
            cur, cost = [], 0
        cur = cur + [p["label"] for p in ps]
        cost += c
    if cur:
        out.append({"tier": tier, "labels": cur})
    return out


# ---------------------------------------------------------------------------------


class LieselRaised(Exception):
    pass


def _guard(fn, *a, **k):
    """Runs a liesel call; an exception that originates outside /verif is a finding
    about liesel (it is re-raised as LieselRaised), one from the harness propagates."""
    try:
        return fn(*a, **k)
    except Exception as e:
        tb = traceback.extract_tb(e.__traceback__)
        inner = e
        while inner.__cause__ is not None:
            inner = inner.__cause__
        tb2 = traceback.extract_tb(inner.__traceback__)
        last = (tb2 or tb)[-1].filename
        if os.path.realpath(last).startswith(os.path.realpath(core.VERIF)):
            raise
        raise LieselRaised(f"{type(inner).__name__}: {inner}") from e


def _walk(p, sizes):
    w2 = G.euler_walk([min(s, 2) for s in sizes])
    if p["walk"] == "euler3":
        w = G.euler_walk(sizes)
        return {"auto": w, "manual": w, "targeted": w if p.get("deep_targeted") else w2}
    if p["walk"] == "euler2":
        return {"auto": w2, "manual": w2, "targeted": w2}
    return G.star_walk(sizes)


class Checker:
    def __init__(self, res: core.UnitResult, tier: str):
        self.res = res
        self.tier = tier
        self.seen_sigs: set[str] = set()
        self.max_ratio = 0.0
        self.styles: set = set()
        self.group_labels: list[str] = []

    def fail(self, check, quantity, p, case, msg):
        sig = f"{quantity}@{p['label'].split('/')[0]}"
        if (check, sig) in self.seen_sigs:
            return
        self.seen_sigs.add((check, sig))
        self.res.violation(check, sig, {"label": p["label"], "program": {k: p[k] for k in ("kind", "items", "user") if k in p}, **case}, f"{p['label']}: {msg}")
        # replay only needs this program group
        self.res.violations[-1]["unit"] = {"tier": self.tier, "labels": list(self.group_labels)}

    # -- the oracle -------------------------------------------------------------
    def compare_total(self, m, p, ref, key, ctx, after="") -> np.ndarray:
        """One of the three totals against the reference (scalar sums; user-supplied
        nodes keep their shape: they are forwarded unchanged)."""
        v = np.asarray(_guard(getattr, m, key))
        want = ref[key]
        userkey = key in (p.get("user") or {})
        if v.shape != want.shape:
            self.fail("totals", f"{key}-shape{after}", p, {**ctx, "got_shape": v.shape, "want_shape": want.shape},
                      f"Model.{key} has shape {v.shape}, expected {want.shape}" + (" (user-supplied node must be forwarded unchanged)" if userkey else " (a scalar)"))
            return v
        err = float(np.max(np.abs(np.asarray(v, dtype=np.float64) - want))) if v.size else 0.0
        scale = ref["scale"][key]
        tol = REL * scale + ABS
        if not err <= tol:
            what = "user-supplied node not forwarded unchanged" if userkey else "differs from the sum of the reference log-densities"
            terms = {k: round(float(d["logp"].sum()), 4) for k, d in ref["dists"].items()}
            self.fail("totals", f"{key}{after}", p, {**ctx, "got": v, "want": want, "terms": terms},
                      f"Model.{key} = {np.round(v, 6).tolist()} but reference = {np.round(want, 6).tolist()} ({what}; terms {terms}) at {ctx}")
        elif scale > 0:
            self.max_ratio = max(self.max_ratio, err / (scale + 1.0))
        return v

    def compare(self, b, p, valuation, ctx, table, cache=None):
        """Compares the live model with the reference at `valuation`."""
        m = b.model
        ck = tuple(ctx["state"])
        if cache is not None and ck in cache:
            ref = cache[ck]
        else:
            ref = G.evaluate(p, valuation)
            if cache is not None and None not in ck:
                cache[ck] = ref
        got = {}
        for key in TOTALS:
            got[key] = self.compare_total(m, p, ref, key, ctx)
        # every distribution node / Var.log_prob
        for label, d in ref["dists"].items():
            node = b.dist_nodes[label]
            val = np.asarray(node.value, dtype=np.float64)
            ev = G.EVENT_NDIMS.get(self._fam(p, label), 0)
            want = d["logp"] if d["per_obs"] else d["logp"].sum()
            want = np.asarray(want)
            if val.shape != want.shape:
                self.fail("dist", "log_prob-shape", p, {**ctx, "dist": label, "per_obs": d["per_obs"]},
                          f"Dist {label} (per_obs={d['per_obs']}) stores log-prob of shape {val.shape}, expected {want.shape}")
                continue
            tol = REL * np.abs(d["logp"]).sum() + ABS
            if not np.all(np.abs(val - want) <= tol):
                self.fail("dist", "log_prob-value", p, {**ctx, "dist": label, "got": val, "want": want},
                          f"Dist {label} log-prob {val} != reference {want} at {ctx}")
            if d["owner"] is not None:
                vlp = np.asarray(m.vars[d["owner"]].log_prob, dtype=np.float64)
                if vlp.shape != want.shape or not np.all(np.abs(vlp - want) <= tol):
                    self.fail("dist", "Var.log_prob", p, {**ctx, "var": d["owner"]}, f"Var({d['owner']}).log_prob = {vlp} != reference {want}")
        # decomposition on the implementation's own numbers
        if ref["decomposable"] and all(got[k].shape == () for k in TOTALS):
            lhs, rhs = float(got["log_prob"]), float(got["log_lik"]) + float(got["log_prior"])
            if not abs(lhs - rhs) <= REL * ref["scale"]["log_prob"] + ABS:
                self.fail("decomposition", "lik+prior", p, {**ctx, "log_prob": lhs, "lik+prior": rhs}, f"log_prob {lhs} != log_lik + log_prior {rhs}")
        # per_obs invariance, differentially across the variants of one base program
        key = ctx["mode"], tuple(ctx["state"])
        if all(got[k].shape == ref[k].shape for k in TOTALS):
            mine = tuple(np.asarray(got[k], dtype=np.float64) for k in TOTALS)
            first = table.setdefault(key, (p["label"], mine))
            if first[0] != p["label"]:
                for k, a, c in zip(TOTALS, first[1], mine):
                    if a.shape != c.shape or not np.all(np.abs(a - c) <= REL * ref["scale"][k] + ABS):
                        self.fail("per_obs", f"{k}-changes", p, {**ctx, "other": first[0], "a": a, "b": c},
                                  f"{k} = {c} but {a} in {first[0]} which differs only in per_obs")
        return ref, got

    def save_restore(self, b, p, names, sizes, state, live, table, cache):
        """
        Model.state taken while nodes are still pending (auto-update off, after an
        assignment, before update()), the walk goes on, later the snapshot is loaded
        again and update() must bring all totals to the snapshot's valuation.
        """
        m = b.model
        m.auto_update = False
        movable = [i for i, s in enumerate(sizes) if s > 1]
        n = 0

        def val():
            return {x["name"]: G.f64(x["lattice"][s]) if s is not None else live[x["name"]] for x, s in zip(names, state)}

        for r, i in enumerate(movable[:2]):
            j = movable[(r + 1) % len(movable)]
            style = ("jnp", "np")[r % 2]  # new objects only: an in-place edit would also edit the snapshot
            _guard(b.assign_style, names[i]["target"], names[i]["lattice"][1], names[i]["via"], style)
            state[i] = 1
            snap = _guard(getattr, m, "state")
            snap_state = list(state)
            pending = sorted(k for k, ns in snap.items() if ns.outdated is True)
            if not pending:
                raise RuntimeError(f"save/restore: nothing was pending in the snapshot of {p['label']}")
            _guard(m.update)
            self.compare(b, p, val(), {"mode": "saverestore", "state": list(state), "step": 3 * r, "assigned": [names[i]["name"], 1], "style": style}, table, cache)
            a = sizes[j] - 1 if state[j] != sizes[j] - 1 else 0
            _guard(b.assign_style, names[j]["target"], names[j]["lattice"][a], names[j]["via"], style)
            state[j] = a
            _guard(m.update)
            self.compare(b, p, val(), {"mode": "saverestore", "state": list(state), "step": 3 * r + 1, "assigned": [names[j]["name"], a], "style": style}, table, cache)
            _guard(setattr, m, "state", snap)
            state[:] = snap_state
            _guard(m.update)
            self.compare(b, p, val(), {"mode": "saverestore", "state": list(state), "step": 3 * r + 2, "restored_snapshot_with_pending": pending[:6], "style": style}, table, cache)
            self.res.outcome("save-restore", len(pending) > 1)
            n += 3
        return n

    @staticmethod
    def _fam(p, label):
        for it in p["items"]:
            if it.get("dist") and (it["name"] == label or it["name"] + "_transformed" == label):
                return it["dist"]["fam"]
        return None

    # -- one program ---------------------------------------------------------------
    def run_program(self, p, table):
        from mc import gstat

        res = self.res
        try:
            b = _guard(gstat.BuiltStat, p)
        except LieselRaised as e:
            self.fail("build", "raises", p, {}, f"building the model raised {e}")
            return
        m = b.model
        names = b.assignable
        sizes = [len(a["lattice"]) for a in names]
        walk = _walk(p, sizes)
        n_trans = 0
        cache: dict = {}
        try:
            # state right after the build
            val = G.initial_valuation(p)
            live = b.current_valuation()
            for k in val:
                if not np.allclose(live[k], val[k], rtol=1e-5, atol=1e-6):
                    raise RuntimeError(f"initial value of {k}: model {live[k]} vs reference {val[k]} in {p['label']}")
            state = [None if (a["name"].endswith("_transformed")) else 0 for a in names]
            ref, got = self.compare(b, p, live, {"mode": "built", "state": state, "step": 0}, table)
            # transformed variables start off-lattice: move them onto it
            pre = [(i, 0) for i, s in enumerate(state) if s is None]
            styles = ("jnp", "np", "inplace")
            # the cycle starts at a program-dependent offset so that every style occurs in
            # every mode ("inplace" falls back to "np" while the stored value is immutable)
            off = sum(map(ord, p["label"]))
            nassign = [(off + i) % 3 for i in range(len(names))]
            for mode in ("auto", "manual", "targeted") if p.get("targeted") else ("auto", "manual"):
                m.auto_update = mode == "auto"
                for step, (i, a) in enumerate(pre + walk[mode] if mode == "auto" else walk[mode]):
                    nm = names[i]
                    # assignment style cycles per variable: new jax array, new numpy array,
                    # then "fetch the numpy array, edit it in place, assign it back"
                    style = _guard(b.assign_style, nm["target"], nm["lattice"][a], nm["via"], styles[nassign[i] % 3])
                    nassign[i] += 1
                    self.styles.add(style)
                    state[i] = a
                    n_trans += 1
                    valuation = {x["name"]: G.f64(x["lattice"][s]) if s is not None else live[x["name"]] for x, s in zip(names, state)}
                    ctx = {"mode": mode, "state": list(state), "step": step, "assigned": [nm["name"], a], "style": style}
                    if mode == "targeted":
                        # what finite_discrete_gibbs_kernel does: refresh only one total
                        target = TOTALS[step % 3]
                        _guard(m.update, "_model_" + target)
                        ck = tuple(state)
                        if ck not in cache:
                            cache[ck] = G.evaluate(p, valuation)
                        self.compare_total(m, p, cache[ck], target, {**ctx, "targeted_update": "_model_" + target}, after="-after-targeted-update")
                    if mode != "auto":
                        _guard(m.update)
                    ref, got = self.compare(b, p, valuation, ctx, table, cache)
                if any(s not in (0, None) for s in state) and (p["walk"] != "star" or mode == "targeted"):
                    raise RuntimeError("walk did not return to the origin")
            if p.get("targeted"):
                n_trans += self.save_restore(b, p, names, sizes, state, live, table, cache)
        except LieselRaised as e:
            self.fail("walk", "raises", p, {"state": state}, f"liesel raised {e}")
            return
        res.states += int(np.prod(sizes)) if p["walk"] == "euler3" else (int(np.prod([min(s, 2) for s in sizes])) if p["walk"] == "euler2" else n_trans + 1)
        res.transitions += n_trans
        res.executions += 1
        flags = "".join(it.get("flag", "-")[0] for it in p["items"] if it.get("dist"))
        pos = "".join("TF"[not it.get("per_obs", True)] for it in p["items"] if it.get("dist"))
        for st in self.styles:
            res.outcome("assignment-style", st)
        res.outcome(p["label"].split("/")[0], flags, pos, "dec" if ref["decomposable"] else "nodec", p["walk"], "user:" + "+".join(sorted(p.get("user") or {})))
        res.note([p["label"], n_trans, [repr(float(np.sum(got[k]))) for k in TOTALS]])
        res.sample({"label": p["label"], "transitions": n_trans, "totals": {k: float(np.sum(got[k])) for k in TOTALS},
                    "reference": {k: ref[k] for k in TOTALS}, "decomposable": ref["decomposable"]}, limit=2)


def run_unit(unit):
    core.assert_repo()
    import warnings

    from mc import seams

    warnings.simplefilter("ignore")
    res = core.UnitResult(unit)
    progs = {p["label"]: p for p in G.all_programs(unit["tier"])}
    chk = Checker(res, unit["tier"])
    by_base: dict[str, list] = {}
    for lab in unit["labels"]:
        by_base.setdefault(progs[lab]["base"], []).append(progs[lab])
    with seams.quiet():
        for base, ps in by_base.items():
            table: dict = {}
            chk.group_labels = [p["label"] for p in ps]
            for p in ps:
                chk.run_program(p, table)
    res.extra["max_err_over_scale"] = chk.max_ratio
    res.extra["programs"] = len(unit["labels"])
    return res


def finalize(results, tier, seed):
    # max_err_over_scale is summed by the runner (it adds numeric extras); store the max
    # separately so the evidence shows the real figure
    mx = max((r.get("extra", {}).get("max_err_over_scale", 0.0) for r in results), default=0.0)
    for r in results:
        r.get("extra", {}).pop("max_err_over_scale", None)
    if results:
        results[0].setdefault("extra", {})["max_err_over_scale_all_units"] = mx
    return []
