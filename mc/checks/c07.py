"""
C07 - engine lifecycle: real ``Engine`` objects (built through ``EngineBuilder`` and
through the ``Engine`` constructor) drive tracer kernels whose kernel state is an event
log; the decoded logs of every kernel and chain are compared call by call with the
reference lifecycle generator (mc/ref/c07_lifecycle.py), for

* every valid schedule up to the tier's length x durations x thinning x every chunk size
  dividing the durations                                                  ("sched"),
* every kernel-sequence configuration (1-2 kernels, mixin / plain, needs_history) x every
  epoch-type sequence x chain counts                                      ("kern"),
* every interleaving of append_epoch / sample_next_epoch / sample_all_epochs from every
  construction prefix, for every epoch-type sequence                      ("inter"),
  where additionally all interleavings must give identical logs and chains.
"""

from __future__ import annotations

import itertools
import math
import os
import traceback

from mc import core
from mc.ref import c07_lifecycle as ref

PROPERTY = "C07"
RULE = (
    "case = (engine configuration, operation history); schedules: all valid epoch-type sequences over "
    "{FAST,SLOW,BURNIN,POSTERIOR} up to the tier's length (incl. none / several posterior epochs) x durations "
    "x valid thinnings x every divisor of the gcd as chunk; kernel sequences: 1-2 tracer kernels x "
    "{mixin,plain} x needs_history; chains 1-3; histories: every path of append_epoch/sample_next_epoch/"
    "sample_all_epochs from every construction prefix to exhaustion. Distinct outcome = distinct decoded "
    "call sequence (events, epoch arguments, history length) of kernel 0 / chain 0."
)
ASSUMPTIONS = [
    "tracer kernels are pure data flow (int32 event log in the kernel state); decoding reads Engine._kernel_states after the run",
    "fields the property does not pin are wildcards: epoch clock inside start/end/tune calls, PRNG key words, the history handed to kernels that did not ask for one, tuning-history contents at end_warmup (its length is pinned by the Kernel protocol docs)",
    "model interface is liesel's DictInterface; positions are deterministic functions of (chain, epoch, iteration) as reported by the engine clock",
    "VERIF_SEED only selects the engine seed (a label: tracer kernels ignore their keys)",
    "interleavings are enumerated for one duration/thinning assignment per type sequence; durations x thinning x chunk are enumerated with the all-at-once history and, for builder-made engines, the one-at-a-time history",
    "an exception raised inside liesel on a valid configuration is reported as a violation; any other exception is a harness error",
]

T4 = ["FAST_ADAPTATION", "SLOW_ADAPTATION", "BURNIN", "POSTERIOR"]
INIT = ["INITIAL_VALUES", 1, 1]
SHAPES = {"x": [], "y": [3], "w": []}

K_DEFAULT = [
    {"keys": ["x"], "style": "mixin", "needs_history": True},
    {"keys": ["y"], "style": "plain", "needs_history": False},
]


def bounds(tier):
    q = tier == "quick"
    return {
        "sched": {
            "max_epochs_after_initial": 2 if q else 3,
            "durations": {"len1": [1, 2, 3, 4, 6], "len2": [1, 2, 3] if q else [1, 2, 3, 4, 6], "len3": None if q else [1, 3]},
            "thinning": [1, 2, 3],
            "chunk": "every divisor of gcd(durations) via the Engine constructor; EngineBuilder's own choice additionally (thinning 1)",
        },
        "kern": {"kernels": [1, 2], "style": ["mixin", "plain"], "needs_history": [False, True], "chains": [1, 2, 3],
                 "schedules": "4 fixed schedules covering every epoch type (one of length 4)" + ("" if q else " + every type sequence of length <= 2")},
        "inter": {"epochs_incl_initial": 3 if q else 4, "prefix": "0..n (constructor), 2..n (builder: all-at-once and one-at-a-time histories only)",
                  "ops": ["append_epoch", "sample_next_epoch", "sample_all_epochs (with exactly one pending epoch it is the same call sequence as sample_next_epoch; that case is enumerated " + ("in the thorough tier)" if q else "for <= 3 epochs)")]},
    }


# ---------------------------------------------------------------------------------
# enumeration
# ---------------------------------------------------------------------------------


def type_seqs(n):
    out = []
    for s in itertools.product(T4, repeat=n):
        if all(not (s[i] == "POSTERIOR" and s[i + 1] != "POSTERIOR") for i in range(n - 1)):
            out.append(list(s))
    return out


def thinnings(typ, d):
    return [k for k in (1, 2, 3) if k <= d and (typ != "POSTERIOR" or d % k == 0)]


def divisors(g):
    return [c for c in range(1, g + 1) if g % c == 0]


def sched_cases(tier, seed):
    """(cfg, [(prefix, path)]) for the schedule x chunk product."""
    q = tier == "quick"
    plan = [(0, [()]), (1, None), (2, None)] + ([] if q else [(3, None)])
    dsets = {1: [1, 2, 3, 4, 6], 2: [1, 2, 3] if q else [1, 2, 3, 4, 6], 3: [1, 3]}
    cases = []
    for n, _ in plan:
        for types in type_seqs(n):
            for ds in itertools.product(dsets.get(n, [1]), repeat=n):
                for ths in itertools.product(*[thinnings(t, d) for t, d in zip(types, ds)]):
                    sched = [INIT] + [[t, d, k] for t, d, k in zip(types, ds, ths)]
                    assert ref.valid_schedule(sched)
                    g = math.gcd(*ds) if ds else 1
                    for chunk in divisors(g):
                        cfg = {"via": "ctor", "schedule": sched, "prefix": len(sched), "chunk": chunk, "chains": 2,
                               "kernels": K_DEFAULT, "shapes": SHAPES, "tracked": None, "seed": seed}
                        cases.append(("sched", cfg, [(len(sched), "s")]))
                    if all(k == 1 for k in ths) and n >= 1:
                        # EngineBuilder chooses the chunk itself; all-at-once and one-at-a-time
                        cfg = {"via": "builder", "schedule": sched, "chains": 2, "kernels": K_DEFAULT,
                               "shapes": SHAPES, "included": [], "excluded": [], "seed": seed}
                        cases.append(("sched-builder", cfg, [(len(sched), "s"), (len(sched), "n" * len(sched))]))
    return cases


def kernel_configs():
    one = [[{"keys": ["x"], "style": s, "needs_history": h}] for s in ("mixin", "plain") for h in (False, True)]
    two = [
        [{"keys": ["x"], "style": s0, "needs_history": h0}, {"keys": ["y"], "style": s1, "needs_history": h1}]
        for s0 in ("mixin", "plain") for h0 in (False, True) for s1 in ("mixin", "plain") for h1 in (False, True)
    ]
    return one + two


KERN_SCHEDULES = [
    # (types, durations, thinnings): together every epoch type, none / one / two posterior epochs
    ([], [], []),
    (["FAST_ADAPTATION", "SLOW_ADAPTATION", "BURNIN", "POSTERIOR"], [2, 3, 1, 2], [2, 1, 1, 1]),
    (["POSTERIOR", "POSTERIOR"], [3, 2], [3, 1]),
    (["SLOW_ADAPTATION", "BURNIN"], [2, 2], [1, 2]),
]


def kern_cases(tier, seed):
    """every kernel-sequence configuration x KERN_SCHEDULES (thorough: x every type sequence <= 2) x chains"""
    cases = []
    scheds = list(KERN_SCHEDULES)
    if tier != "quick":
        for types in type_seqs(1) + type_seqs(2):
            ths = [2 if t != "POSTERIOR" else 1 for t in types]
            scheds.append((types, [2, 3][: len(types)], ths[:1] + [1] * (len(types) - 1)))
    for i, kc in enumerate(kernel_configs()):
        for j, (types, ds, ths) in enumerate(scheds):
            sched = [INIT] + [[t, d, k] for t, d, k in zip(types, ds, ths)]
            assert ref.valid_schedule(sched), sched
            for chains in ([1, 2, 3] if j == 1 or tier != "quick" else [2]):
                via = "builder" if (i + j + chains) % 2 == 0 and types else "ctor"
                cfg = {"via": via, "schedule": sched, "prefix": len(sched), "chunk": 1, "chains": chains,
                       "kernels": kc, "shapes": SHAPES, "tracked": None, "included": [], "excluded": [], "seed": seed}
                cases.append(("kern", cfg, [(len(sched), "s")]))
    return cases


def inter_cases(tier, seed):
    from mc import enginelab as el

    nmax = 2 if tier == "quick" else 3
    cases = []
    for n in range(0, nmax + 1):
        for types in type_seqs(n):
            # durations all 2 (chunk 2 divides every epoch whatever the prefix was),
            # first adaptation/burn-in epoch thinned by 2
            ths = [1] * n
            if n and types[0] != "POSTERIOR":
                ths[0] = 2
            sched = [INIT] + [[t, 2, k] for t, k in zip(types, ths)]
            assert ref.valid_schedule(sched)
            N = len(sched)
            for via in ("ctor", "builder"):
                hist = []
                for p in range(0 if via == "ctor" else 2, N + 1):
                    for path in el.paths(N, p, min_pending_for_all=2 if tier == "quick" or N == 4 else 1):
                        hist.append((p, path))
                if via == "builder":
                    # the builder route is covered by "sched-builder"/"kern"; here only the extremes
                    hist = [h for h in hist if h[1] in ("s", "n" * N, "a" * (N - h[0]) + "n" * N)]
                if not hist:
                    continue
                cfg = {"via": via, "schedule": sched, "chunk": 2, "chains": 2, "kernels": K_DEFAULT,
                       "shapes": SHAPES, "tracked": None, "included": [], "excluded": [], "seed": seed}
                # shard long history lists; every shard carries the all-at-once baseline
                base = (N, "s")
                size = 24
                for i in range(0, len(hist), size):
                    part = hist[i:i + size]
                    if base not in part:
                        part = [base] + part
                    cases.append(("inter", cfg, part))
    return cases


def units(tier, seed):
    cases = sched_cases(tier, seed) + kern_cases(tier, seed) + inter_cases(tier, seed)
    # simplest first, then pack into units of ~36 engine runs, round-robin so that the
    # expensive and the cheap cases are spread evenly
    target = 36 if tier == "quick" else 150
    total = sum(len(h) for _, _, h in cases)
    n_units = max(1, -(-total // target))
    buckets = [[] for _ in range(n_units)]
    load = [0] * n_units
    for case in cases:
        i = min(range(n_units), key=lambda j: (load[j], j))
        buckets[i].append(case)
        load[i] += len(case[2])
    return [{"cases": [{"kind": k, "cfg": c, "histories": h} for k, c, h in b], "u": i} for i, b in enumerate(buckets) if b]


# ---------------------------------------------------------------------------------
# execution
# ---------------------------------------------------------------------------------


def liesel_raised(exc) -> str | None:
    """'<file>:<function>' if the innermost frame of the traceback is liesel code."""
    tb = traceback.extract_tb(exc.__traceback__)
    repo = os.path.realpath(os.environ.get("VERIF_REPO", "/repo"))
    if tb and os.path.realpath(tb[-1].filename).startswith(os.path.join(repo, "liesel")):
        return f"{os.path.basename(tb[-1].filename)}:{tb[-1].name}"
    return None


def observe(cfg, prefix, path):
    """Runs one engine; returns (logs, samples as numpy, tracked keys)."""
    import numpy as np

    from mc import enginelab as el

    c = dict(cfg)
    c["prefix"] = prefix
    lab = el.build(c)
    lab.run(path)
    logs = lab.logs()
    res = lab.results()
    samples = {k: np.asarray(v) for k, v in res.get_samples().items()}
    return lab, logs, samples


def strip_keys(logs):
    return [[[{f: v for f, v in r.items() if f not in ("key0", "key1")} for r in rows] for rows in ker] for ker in logs]


def check_case(res, kind, cfg, histories):
    import numpy as np

    sched = cfg["schedule"]
    from mc import enginelab as el

    tracked = el.default_tracked(cfg)
    sims = [ref.simulate(sched, cfg["kernels"], cfg["shapes"], tracked, c) for c in range(cfg["chains"])]
    base_obs = None
    reported = set()
    res.states += 1

    def report(check, sig, case, msg):
        if (check, sig) not in reported:
            reported.add((check, sig))
            res.violation(check, sig, case, msg)

    for prefix, path in histories:
        case = {"kind": kind, "cfg": cfg, "prefix": prefix, "path": path}
        try:
            lab, logs, samples = observe(cfg, prefix, path)
        except Exception as e:  # noqa: BLE001
            where = liesel_raised(e)
            if where is None:
                raise
            report("lifecycle", f"raised-{type(e).__name__}-{where}", case,
                   f"{type(e).__name__}: {e} for schedule {sched}, via {cfg['via']}, prefix {prefix}, history {path!r}")
            res.executions += 1
            continue
        res.executions += 1
        res.transitions += len(path) + sum(len(rows) for ker in logs for rows in ker)

        # (1) call-by-call comparison with the reference, every kernel and chain
        for k, ker in enumerate(logs):
            for c, rows in enumerate(ker):
                bad = ref.compare_events(sims[c]["events"][k], rows)
                if bad is not None:
                    sig, msg = bad
                    report("lifecycle", sig, dict(case, kernel=k, chain=c),
                           f"kernel {k} ({cfg['kernels'][k].get('style')}), chain {c}: {msg}; schedule {sched}, "
                           f"chunk {getattr(lab.engine, '_jitted_sample_duration', None)}, via {cfg['via']}, prefix {prefix}, history {path!r}")

        # (2) the stored chain the histories were taken from
        for c in range(cfg["chains"]):
            exp = ref.expected_positions(sims[c], tracked, cfg["shapes"], c)
            if sorted(samples) != sorted(exp):
                report("chain", "tracked-keys", case, f"stored keys {sorted(samples)} != {sorted(exp)}")
                continue
            for key in exp:
                got = samples[key][c]
                if got.shape != exp[key].shape or not np.array_equal(got.astype(np.float64), exp[key]):
                    report("chain", "stored-positions", dict(case, chain=c, key=key),
                           f"stored chain of {key!r} (chain {c}) = {got.tolist()} != {exp[key].tolist()}; schedule {sched}, history {path!r}")

        # (3) differential: every interleaving gives the same logs and chains
        obs = core.digest([strip_keys(logs), {k: v.tolist() for k, v in sorted(samples.items())}])
        if base_obs is None:
            base_obs = (obs, prefix, path)
        elif obs != base_obs[0]:
            report("interleaving", "differs-from-all-at-once", case,
                   f"history {path!r} (prefix {prefix}) gives other logs/chains than {base_obs[2]!r} (prefix {base_obs[1]}); schedule {sched}")

        # vacuity / determinism
        rows0 = logs[0][0]
        pattern = [(r["event"], r["nth_epoch"], r["type"], r["duration"], r["thinning"], r["hist_len"]) for r in rows0]
        res.outcome("log", core.digest(pattern))
        for r in rows0:
            res.outcome("event", ref.EV_NAMES[r["event"]], "type", r["type"])
            if r["event"] in (5, 6, 9):
                res.outcome("history-len", r["hist_len"])
        res.outcome("end_warmup-calls", sum(1 for r in rows0 if r["event"] == 7))
        res.outcome("ops", "".join(sorted(set(path))), "via", cfg["via"])
        # measured counters for the evidence file (summed over units by the runner)
        ex = res.extra
        for r in rows0:
            ex["calls_" + ref.EV_NAMES[r["event"]]] = ex.get("calls_" + ref.EV_NAMES[r["event"]], 0) + 1
        n_ew = sum(1 for r in rows0 if r["event"] == 7)
        for name in (f"runs_with_{n_ew}_end_warmup_calls", f"runs_via_{cfg['via']}", f"runs_kind_{kind}",
                     "runs_with_append" if "a" in path else "runs_without_append",
                     "runs_history_checked" if any(r["event"] in (5, 6, 9) and sims[0]["events"][0][i]["hist_len"] is not None for i, r in enumerate(rows0) if i < len(sims[0]["events"][0])) else "runs_no_history_check"):
            ex[name] = ex.get(name, 0) + 1
        res.note([cfg["via"], prefix, path, obs])
        res.sample({"schedule": sched, "via": cfg["via"], "prefix": prefix, "history": path,
                    "chunk": getattr(lab.engine, "_jitted_sample_duration", None),
                    "kernel0_chain0_calls": [ref.EV_NAMES[r["event"]] for r in rows0]}, limit=1)


def run_unit(unit):
    core.assert_repo()
    import logging

    from mc import enginelab as el

    logging.getLogger("liesel").setLevel(logging.ERROR)
    el.enable_compilation_cache()
    res = core.UnitResult(unit)
    for case in unit["cases"]:
        check_case(res, case["kind"], case["cfg"], [tuple(h) for h in case["histories"]])
    return res
