"""
C04 - every built-in kernel leaves the target invariant (tuning held fixed).

Invariance is a statement about a transition LAW; the law is reconstructed exactly from
the real kernel by enumerating environment answers, nothing is estimated from draws.

(a) finite chains, end to end: full stochastic matrix P of KernelSequence.transition for
    discrete models (finite-discrete Gibbs, MH with discrete user proposals, dict and
    Liesel models, every kernel order); pi P = pi, rows sum to 1, P homogeneous in epoch.
(b) RW / IWLS / MH on continuous blocks: scripted normals recover the ACTUAL proposal map
    x' = m(x) + A(x) z (affinity verified); detailed balance
    pi(x) q(x'|x) a(x->x') = pi(x') q(x|x') a(x'->x) with the reverse draw scripted at x',
    and the move happens iff u < a.
(c) HMC / NUTS: conformance to textbook HMC: all positions at which the density is
    evaluated satisfy the Stoermer-Verlet recurrence for the reference density and the
    kernel's step size / inverse mass matrix (in ravel_pytree order); initial momentum is
    B z with B B' = M; HMC's reported acceptance = min(1, exp(H0 - HL)); move iff u < a;
    write-back = update_state(x_L) or the input state. NUTS: the same recurrence on the
    growing trajectory, returned point is one of the trajectory points (blackjax's tree
    building / multinomial selection is the trusted base).
"""

from __future__ import annotations

import itertools
import math

import numpy as np

from mc import core, kernellab as kl, seams

PROPERTY = "C04"
RULE = (
    "(a) all joint states x epochs {BURNIN, POSTERIOR} x 2 times x every environment answer (categorical outcome, "
    "accept/reject) for 7 kernel sequences on a Liesel and a dict model; (b) kernels {RW, IWLS, MH} x blocks "
    "(scalar, vector, two keys in non-alphabetical order) x models {dict, Liesel incl. log-scale parameter} x "
    "step sizes x lattice points x scripted draws; (c) HMC/NUTS x blocks x inverse mass matrices (identity, "
    "non-uniform diagonal, dense) x step sizes x scripted momenta x accept/reject. Distinct outcome = (part, "
    "kernel, block, accept/reject/branch)."
)
ASSUMPTIONS = [
    "one-step invariance of a time-homogeneous law implies invariance after any number of transitions (homogeneity across epoch type/time is checked)",
    "a reversible volume-preserving integrator with the MH accept step is invariant (standard theorem); conformance to it is what is checked for HMC",
    "NUTS: blackjax's tree building, turning criterion and multinomial selection are trusted (third party); liesel's use of it (density, step size, mass matrix alignment, write-back) is checked",
    "tuning is frozen in burn-in/posterior epochs (C11); composition over disjoint blocks follows from per-kernel invariance plus the premises checked in C09",
    "float32 implementation vs float64 reference: tolerances 1e-5 on probabilities, 3e-3 on log detailed-balance ratios, 2e-4 relative on trajectories",
]


def bounds(tier):
    return {"finite_states": "6 (2x3)", "lattice_points": 3 if tier == "quick" else 5, "draw_menu": 2 if tier == "quick" else 4, "hmc_steps": 3, "nuts_depth": 2 if tier == "quick" else 3}


# ---------------------------------------------------------------------------------
# units
# ---------------------------------------------------------------------------------

FINITE_SEQS = [
    ("liesel", ["G:z1", "G:z2"]),
    ("liesel", ["G:z2", "G:z1"]),
    ("liesel", ["G:z1", "MH:z2"]),
    ("liesel", ["MH:z2", "G:z1"]),
    ("liesel", ["MH:z2"]),
    ("dict", ["MH:u", "G:v"]),
    ("dict", ["G:v", "MH:u", "MHflip:v"]),
]

CONT = [
    # (model, kernel, keys, steps)
    ("dict", "RW", ["a"], [0.4, 1.3]),
    ("dict", "RW", ["b", "a"], [0.5]),
    ("dict", "IWLS", ["b"], [0.6, 1.2]),
    ("dict", "IWLS", ["c", "a"], [0.9]),
    ("dict", "MH", ["c"], [0.7]),
    ("liesel", "RW", ["log_sigma"], [0.3]),
    ("liesel", "IWLS", ["beta"], [0.8]),
    ("liesel", "IWLS", ["log_sigma"], [0.5, 1.0]),
    ("liesel", "IWLS", ["mu", "beta"], [1.0]),
    ("liesel", "MH", ["mu"], [0.6]),
    ("liesel", "RW", ["offset"], [0.4]),
    ("liesel_tr", "RW", ["tau2_transformed"], [0.5]),
    ("liesel_tr", "IWLS", ["tau2_transformed"], [0.8]),
    ("liesel_tr", "IWLS", ["tau2_transformed", "m"], [0.9]),
    ("liesel_auto", "RW", ["tau2_transformed"], [0.6]),
    ("liesel_auto", "IWLS", ["tau2_transformed"], [0.8]),
    ("liesel_trc", "RW", ["log_tau"], [0.5]),
    ("liesel_trc", "RW", ["b_transformed"], [0.8]),
]

HAM = [
    # (model, kernel, keys, inverse mass matrix spec, step)
    ("dict", "HMC", ["c"], "id", 0.3),
    ("dict", "HMC", ["b", "a"], "diag", 0.2),
    ("dict", "HMC", ["b", "a"], "dense", 0.25),
    ("liesel", "HMC", ["log_sigma", "beta"], "diag", 0.1),
    ("liesel", "HMC", ["mu"], "id", 0.4),
    ("dict", "NUTS", ["b", "a"], "diag", 0.2),
    ("dict", "NUTS", ["c"], "id", 0.5),
    ("liesel", "NUTS", ["log_sigma", "beta"], "diag", 0.1),
    ("liesel", "NUTS", ["beta", "mu"], "dense", 0.15),
    ("liesel_tr", "HMC", ["tau2_transformed", "m"], "diag", 0.15),
    ("liesel_tr", "NUTS", ["tau2_transformed"], "id", 0.3),
    ("liesel_trc", "HMC", ["log_tau", "b_transformed"], "id", 0.2),
    ("liesel_auto", "NUTS", ["tau2_transformed", "m"], "diag", 0.2),
]


def units(tier, seed):
    us = []
    for model, seq in FINITE_SEQS:
        us.append({"part": "finite", "model": model, "seq": seq})
    for model, kern, keys, steps in CONT:
        for s in steps:
            us.append({"part": "cont", "model": model, "kernel": kern, "keys": keys, "step": s, "tier": tier})
    us.append({"part": "support"})
    us.append({"part": "gibbs_cont"})
    for model, kern, keys, mm, step in HAM:
        us.append({"part": "ham", "model": model, "kernel": kern, "keys": keys, "mm": mm, "step": step, "tier": tier})
    return us


# ---------------------------------------------------------------------------------
# (a) finite chains
# ---------------------------------------------------------------------------------

Y2 = np.array([0.9, 0.4])
P_Z2 = np.array([0.2, 0.5, 0.3])
TABLE_UV = np.log(np.array([[0.10, 0.25], [0.05, 0.20], [0.30, 0.10]]))  # log pi(u, v), dict model
Q_D = np.array([0.7, 0.3])  # proposal: x' = (x + 1 + d) mod 3, d ~ Q_D


def finite_liesel_model():
    import jax.numpy as jnp
    import liesel.model as lsl
    import tensorflow_probability.substrates.jax.distributions as tfd

    z1 = lsl.param(jnp.int32(0), lsl.Dist(tfd.Bernoulli, probs=0.3), name="z1")
    z2 = lsl.param(jnp.int32(0), lsl.Dist(tfd.FiniteDiscrete, outcomes=jnp.array([0, 1, 2], dtype=jnp.int32), probs=jnp.asarray(P_Z2, dtype=jnp.float32)), name="z2")
    loc = lsl.Var(lsl.Calc(lambda a, b: 0.8 * a + 0.5 * b, z1, z2), name="loc")
    y = lsl.obs(jnp.asarray(Y2, dtype=jnp.float32), lsl.Dist(tfd.Normal, loc=loc, scale=1.0), name="y")
    # z1 also selects the PRIOR scale of another parameter (spike-and-slab style); w stays fixed
    wscale = lsl.Calc(lambda a: 0.3 + 1.2 * a, z1, _name="wscale")
    w = lsl.param(jnp.float32(W_FIXED), lsl.Dist(tfd.Normal, loc=0.0, scale=wscale), name="w")
    return lsl.GraphBuilder().add(y, w).build_model()


W_FIXED = 0.9


def ref_log_pi_liesel(z1, z2):
    lp = math.log(0.3 if z1 == 1 else 0.7) + math.log(P_Z2[z2])
    ws = 0.3 + 1.2 * z1
    lp += -0.5 * (W_FIXED / ws) ** 2 - math.log(ws) - 0.5 * kl.LOG2PI
    m = 0.8 * z1 + 0.5 * z2
    return lp + float(np.sum(-0.5 * (Y2 - m) ** 2 - 0.5 * kl.LOG2PI))


def run_finite(res, unit):
    import jax
    import jax.numpy as jnp
    import liesel.goose as gs
    from liesel.goose.epoch import EpochConfig, EpochType
    from liesel.goose.kernel_sequence import KernelSequence
    from liesel.model.goose import finite_discrete_gibbs_kernel

    is_liesel = unit["model"] == "liesel"
    if is_liesel:
        model = finite_liesel_model()
        interface = gs.LieselInterface(model)
        names, sizes = ["z1", "z2"], [2, 3]
        base_state = model.state

        def make_state(vals):
            return interface.update_state({"z1": jnp.int32(vals[0]), "z2": jnp.int32(vals[1])}, base_state)

        def read_state(st):
            return (int(st["z1_value"].value), int(st["z2_value"].value))

        log_pi = lambda v: ref_log_pi_liesel(*v)  # noqa
    else:
        model = None
        T = jnp.asarray(TABLE_UV, dtype=jnp.float32)
        interface = gs.DictInterface(lambda s: T[s["u"], s["v"]])
        names, sizes = ["u", "v"], [3, 2]

        def make_state(vals):
            return {"u": jnp.int32(vals[0]), "v": jnp.int32(vals[1])}

        def read_state(st):
            return (int(st["u"]), int(st["v"]))

        log_pi = lambda v: float(TABLE_UV[v[0], v[1]])  # noqa

    def cyc_proposal(name):
        def fn(key, model_state, step_size):
            x = interface.extract_position([name], model_state)[name]
            d = jax.random.categorical(key, logits=jnp.log(jnp.asarray(Q_D, dtype=jnp.float32)))
            new = (x + 1 + d) % 3
            corr = jnp.log(jnp.asarray(Q_D, dtype=jnp.float32))[1 - d] - jnp.log(jnp.asarray(Q_D, dtype=jnp.float32))[d]
            return gs.MHProposal({name: new.astype(jnp.int32)}, corr)

        return fn

    def flip_proposal(name):
        def fn(key, model_state, step_size):
            x = interface.extract_position([name], model_state)[name]
            return gs.MHProposal({name: (1 - x).astype(jnp.int32)}, jnp.float32(0.0))

        return fn

    def gibbs_v():
        def fn(key, model_state):
            u = model_state["u"]
            i = jax.random.categorical(key, logits=T[u, :])
            return {"v": i.astype(jnp.int32)}

        return gs.GibbsKernel(["v"], fn)

    plog = []

    def make_seq():
        ks = []
        plog.clear()
        for i, spec in enumerate(unit["seq"]):
            t, name = spec.split(":")
            if t == "G":
                k = finite_discrete_gibbs_kernel(name, model) if is_liesel else gibbs_v()
            elif t == "MH":
                k = gs.MHKernel([name], cyc_proposal(name))
            else:
                k = gs.MHKernel([name], flip_proposal(name))
            k.identifier = f"kernel_{i:02d}"
            k.set_model(interface)
            ks.append(kl.Proxy(k, plog))
        return KernelSequence(ks), ks

    states = list(itertools.product(*[range(n) for n in sizes]))
    pi = np.array([math.exp(log_pi(s)) for s in states])
    pi = pi / pi.sum()
    epochs = [EpochConfig(EpochType.BURNIN, 5, 1, None).to_state(1, 1), EpochConfig(EpochType.POSTERIOR, 5, 1, None).to_state(2, 6), EpochConfig(EpochType.POSTERIOR, 5, 1, None).to_state(3, 14)]
    mh_ids = [f"kernel_{i:02d}" for i, s in enumerate(unit["seq"]) if s.startswith("MH")]
    Ps = []
    for ep in epochs:
        P = np.zeros((len(states), len(states)))
        for si, s in enumerate(states):
            st0 = make_state(s)

            def run(script: core.Script):
                seq, kernels = make_seq()
                probs = []
                uni = []

                def answer(fn, i, shape, info):
                    if fn == "categorical":
                        lg = np.asarray(info["logits"], dtype=np.float64)
                        p = np.exp(lg - lg.max())
                        p = p / p.sum()
                        c = script.choose(len(p), f"cat{len(p)}")
                        probs.append(float(p[c]))
                        return c
                    if fn == "uniform":
                        c = script.choose(2, "uniform")
                        uni.append(c)
                        return [1e-12, 1.0 - 1e-7][c]
                    raise RuntimeError(f"unexpected draw {fn}")

                with jax.disable_jit(), seams.ScriptedPRNG(answer) as sp:
                    kst = seq.init_states(jax.random.PRNGKey(0), st0)
                    out = seq.transition(jax.random.PRNGKey(1), kst, st0, ep)
                # premise of the reconstruction: all draws are independent, i.e. no PRNG key is used twice
                for msg in kl.key_problems(plog, jax.random.PRNGKey(1)) + (["one PRNG key was consumed by two random draws"] if sp.duplicate_keys() else []):
                    res.violation("finite", "prng-key-reuse-" + "+".join(unit["seq"]), {"unit": unit, "state": s}, f"{msg} within one KernelSequence.transition ({unit['seq']}): the kernels' draws are not independent, the joint transition law is not the product that leaves pi invariant")
                for e in plog:
                    if kl.kernel_state_changed(e["ks_in"], e["ks_out"]):
                        res.violation("finite", "tuning-not-frozen", {"unit": unit, "epoch": ep.config.type.name}, f"kernel state changed by a transition in a {ep.config.type.name} epoch")
                if len(uni) != len(mh_ids):
                    raise RuntimeError("uniform draws do not match the MH kernels")
                for c, kid in zip(uni, mh_ids):
                    a = float(out.infos[kid].acceptance_prob)
                    moved = bool(out.infos[kid].position_moved)
                    if not (0.0 <= a <= 1.0):
                        res.violation("finite", "alpha-range", {"unit": unit, "state": s}, f"acceptance probability {a} outside [0,1]")
                    probs.append((a if moved else 0.0) if c == 0 else ((1.0 - a) if not moved else 0.0))
                return float(np.prod(probs)), read_state(out.model_state), tuple(uni)

            for choices, (p, s2, uni) in core.answers(run, bound=None):
                P[si, states.index(s2)] += p
                res.executions += 1
                res.transitions += 1
                res.outcome("finite", "+".join(unit["seq"]), ep.config.type.name, uni, s != s2)
        Ps.append(P)
        case = {"unit": unit, "epoch": ep.config.type.name, "time": int(ep.time)}
        rs = P.sum(axis=1)
        if not np.allclose(rs, 1.0, atol=1e-5):
            res.violation("finite", "rows-not-stochastic-" + "+".join(unit["seq"]), case, f"rows of the transition matrix sum to {np.round(rs, 6).tolist()} (kernel reports an acceptance probability it does not act on, or a draw was missed) ({case})")
            continue
        err = np.abs(pi @ P - pi).max()
        if err > 2e-5:
            res.violation("finite", "not-invariant-" + "+".join(unit["seq"]), case, f"pi P != pi: max deviation {err:.2e}; pi = {np.round(pi, 5).tolist()}, pi P = {np.round(pi @ P, 5).tolist()} ({case})")
        res.states += len(states)
    for P in Ps[1:]:
        if not np.allclose(P, Ps[0], atol=1e-6):
            res.violation("finite", "not-homogeneous", {"unit": unit}, "transition matrix differs between burn-in/posterior epochs or times")
    res.sample({"seq": unit["seq"], "model": unit["model"], "P_row0": np.round(Ps[0][0], 5).tolist(), "pi": np.round(pi, 5).tolist()})
    res.note([unit, np.round(Ps[0], 6).tolist()])


# ---------------------------------------------------------------------------------
# reference densities for continuous parts
# ---------------------------------------------------------------------------------


class Target:
    """Model + float64 reference of the block-conditional log-density in ravel_pytree order."""

    def __init__(self, model_name, keys):
        import jax.numpy as jnp
        import liesel.goose as gs
        from jax.flatten_util import ravel_pytree

        self.keys = keys
        if model_name == "liesel":
            self.model = kl.build_liesel_model()
            self.interface = gs.LieselInterface(self.model)
            self.state0 = self.model.state
            self.full0 = {p: np.asarray(self.state0[kl.param_node(p)].value, dtype=np.float64) for p in kl.PARAMS}
            self._lp = lambda full: kl.ref_liesel(full)["_model_log_prob"]
        elif model_name == "liesel_trc":
            self.model = kl.build_class_transformed_model()
            self.interface = gs.LieselInterface(self.model)
            self.state0 = self.model.state
            self.full0 = {p: np.asarray(self.state0[f"{p}_value"].value, dtype=np.float64) for p in kl.TRC_PARAMS}
            self._lp = kl.ref_class_transformed
        elif model_name == "liesel_auto":
            self.model = kl.build_auto_transformed_model()
            self.interface = gs.LieselInterface(self.model)
            self.state0 = self.model.state
            self.full0 = {p: np.asarray(self.state0[f"{p}_value"].value, dtype=np.float64) for p in kl.TR_PARAMS}
            self._lp = kl.ref_auto_transformed
        elif model_name == "liesel_tr":
            self.model = kl.build_transformed_model()
            self.interface = gs.LieselInterface(self.model)
            self.state0 = self.model.state
            self.full0 = {p: np.asarray(self.state0[f"{p}_value"].value, dtype=np.float64) for p in kl.TR_PARAMS}
            self._lp = kl.ref_transformed
        else:
            self.model = None
            self.interface = gs.DictInterface(kl.dict_log_prob_jax)
            self.state0 = kl.dict_state()
            self.full0 = {k: np.asarray(v, dtype=np.float64) for k, v in self.state0.items()}
            self._lp = kl.dict_log_prob_np
        pos0 = self.interface.extract_position(keys, self.state0)
        flat0, self.unravel = ravel_pytree(pos0)
        self.x0 = np.asarray(flat0, dtype=np.float64)
        self.d = self.x0.size
        # coordinate map: flat index -> (key, index) via marker values
        marker, off = {}, 0
        code = {}
        for k in keys:
            shp = np.shape(pos0[k])
            n = int(np.prod(shp)) if shp else 1
            marker[k] = jnp.asarray(np.arange(off, off + n, dtype=np.float32).reshape(shp))
            for i in range(n):
                code[off + i] = (k, i)
            off += n
        fl, _ = ravel_pytree(marker)
        self.coords = [code[int(v)] for v in np.asarray(fl)]

    def full_at(self, x):
        full = {k: np.array(v, dtype=np.float64) for k, v in self.full0.items()}
        for j, (k, i) in enumerate(self.coords):
            if full[k].ndim == 0:
                full[k] = np.float64(x[j])
            else:
                full[k].reshape(-1)[i] = x[j]
        return full

    def log_pi(self, x):
        return float(self._lp(self.full_at(np.asarray(x, dtype=np.float64))))

    def grad(self, x, h=1e-5):
        x = np.asarray(x, dtype=np.float64)
        g = np.zeros_like(x)
        for j in range(x.size):
            e = np.zeros_like(x)
            e[j] = h
            g[j] = (self.log_pi(x + e) - self.log_pi(x - e)) / (2 * h)
        return g

    def state_at(self, x):
        import jax.numpy as jnp

        pos = self.unravel(jnp.asarray(np.asarray(x, dtype=np.float32)))
        return self.interface.update_state(pos, self.state0)

    def x_of(self, state):
        from jax.flatten_util import ravel_pytree

        return np.asarray(ravel_pytree(self.interface.extract_position(self.keys, state))[0], dtype=np.float64)


def lattice(t: Target, n):
    """Deterministic lattice of points around the initial point."""
    pts = [t.x0.copy()]
    shifts = [0.6, -0.9, 1.4, -0.35]
    for i in range(n - 1):
        pts.append(t.x0 + shifts[i] * (np.arange(t.d) % 2 * 2 - 1) * 0.5 + 0.3 * (i + 1) * np.cos(np.arange(t.d) + i))
    return pts


# ---------------------------------------------------------------------------------
# (b) continuous MH-type kernels: detailed balance with the reconstructed proposal law
# ---------------------------------------------------------------------------------


def run_cont(res, unit):
    import jax
    import jax.numpy as jnp
    import liesel.goose as gs
    from liesel.goose.epoch import EpochConfig, EpochType

    t = Target(unit["model"], unit["keys"])
    kern, step = unit["kernel"], unit["step"]
    ep = EpochConfig(EpochType.POSTERIOR, 5, 1, None).to_state(2, 6)
    ep_burnin = EpochConfig(EpochType.BURNIN, 5, 1, None).to_state(1, 2)
    quick = unit["tier"] == "quick"

    if kern == "RW":
        k = gs.RWKernel(unit["keys"], initial_step_size=step)
    elif kern == "IWLS":
        k = gs.IWLSKernel(unit["keys"], initial_step_size=step)
    else:
        key0 = unit["keys"][0]

        def proposal(key, model_state, step_size):
            # autoregressive Gaussian proposal x' ~ N(0.8 x + 0.1, step^2); declared correction
            # log q(x|x') - log q(x'|x)
            x = t.interface.extract_position([key0], model_state)[key0]
            z = jax.random.normal(key, jnp.shape(x))
            new = 0.8 * x + 0.1 + step_size * z
            fwd = -0.5 * ((new - (0.8 * x + 0.1)) / step_size) ** 2
            bwd = -0.5 * ((x - (0.8 * new + 0.1)) / step_size) ** 2
            return gs.MHProposal({key0: new}, bwd - fwd)

        k = gs.MHKernel(unit["keys"], proposal, initial_step_size=step)
    k.identifier = "kernel_00"
    k.set_model(t.interface)
    n_exec = [0]

    def probe(x, z, u):
        """One real transition at x with scripted normal z and uniform u -> (x_after, alpha, moved)."""
        st = t.state_at(x)
        ks = k.init_state(jax.random.PRNGKey(0), st)
        def script(fn, i, shape, info):
            if fn == "normal" and i == 0:
                return jnp.asarray(np.asarray(z, dtype=np.float32)).reshape(shape)
            if fn == "uniform" and i == 1:
                return float(u)
            raise RuntimeError(f"unexpected draw #{i}: {fn}")

        epoch = ep if n_exec[0] % 2 == 0 else ep_burnin
        with jax.disable_jit(), seams.ScriptedPRNG(script) as sp:
            out = k.transition(jax.random.PRNGKey(1), ks, st, epoch)
        if sp.pos != 2:
            raise RuntimeError(f"kernel consumed {sp.pos} draws, expected 2")
        if sp.duplicate_keys():
            res.violation("cont", f"prng-key-reuse-{kern}", {"unit": unit}, f"{kern}: the Gaussian and the uniform draw used the same PRNG key")
        if kl.kernel_state_changed(ks, out.kernel_state):
            res.violation("cont", f"tuning-not-frozen-{kern}", {"unit": unit, "epoch": epoch.config.type.name}, f"{kern}: kernel (tuning) state changed by a transition in a {epoch.config.type.name} epoch, so the transition law is not fixed")
        n_exec[0] += 1
        return t.x_of(out.model_state), float(out.info.acceptance_prob), bool(out.info.position_moved)

    def law(x):
        """Affine proposal map at x: m, A with x' = m + A z; verified on an extra z."""
        m, a0, mv = probe(x, np.zeros(t.d), 1e-12)
        if not mv:
            # e.g. IWLS where the information is not positive definite: liesel reports code 90 and
            # rejects, the proposal law cannot be observed at this point
            return None, None
        A = np.zeros((t.d, t.d))
        for i in range(t.d):
            e = np.zeros(t.d)
            e[i] = 1.0
            xi, _, mvi = probe(x, e, 1e-12)
            if not mvi:
                raise RuntimeError("basis proposal not accepted")
            A[:, i] = xi - m
        zt = np.array([0.7, -1.3, 0.4][: t.d])
        xt, _, mvt = probe(x, zt, 1e-12)
        lin = m + A @ zt
        if mvt and not np.allclose(xt, lin, rtol=2e-4, atol=2e-5):
            res.violation("cont", f"proposal-not-affine-{kern}", {"unit": unit, "x": x.tolist()}, f"{kern}{unit['keys']}: proposal is not affine in the Gaussian draw: {xt} vs m + A z = {lin}")
        return m, A

    pts = lattice(t, 3 if quick else 5)
    zmenu = [np.array([0.9, -0.4, 0.3][: t.d]), np.array([-1.1, 0.6, -0.2][: t.d])]
    if not quick:
        zmenu += [np.array([0.2, 1.5, -0.8][: t.d]), np.array([-0.3, -0.2, 2.0][: t.d])]
    usable = 0
    for x in pts:
        m, A = law(x)
        if m is None:
            res.outcome("cont", kern, tuple(unit["keys"]), "law-unobservable")
            continue
        usable += 1
        logdetA = math.log(abs(np.linalg.det(A)))
        for z in zmenu:
            xp = m + A @ z
            x1, a_f, mv = probe(x, z, 1e-12)
            case = {"unit": unit, "x": np.round(x, 5).tolist(), "z": z.tolist()}
            if not mv and a_f <= 1e-11:
                # acceptance probability underflows: the proposal cannot be observed, nothing to compare
                res.outcome("cont", kern, tuple(unit["keys"]), "alpha-underflow")
                continue
            if not mv or not np.allclose(x1, xp, rtol=2e-4, atol=2e-5):
                res.violation("cont", f"forward-proposal-{kern}", case, f"forward move not reproduced ({case})")
                continue
            m2, A2 = law(xp)
            if m2 is None:
                res.outcome("cont", kern, tuple(unit["keys"]), "law-unobservable-at-proposal")
                continue
            zr = np.linalg.solve(A2, x - m2)
            x_back, a_r, mv_r = probe(xp, zr, 1e-12)
            if not mv_r and a_r <= 1e-11:
                res.outcome("cont", kern, tuple(unit["keys"]), "alpha-underflow-reverse")
                continue
            if not mv_r or not np.allclose(x_back, x, rtol=5e-4, atol=1e-4):
                res.violation("cont", f"reverse-proposal-{kern}", case, f"reverse draw z' = A(x')^-1 (x - m(x')) does not propose x: got {x_back}, want {x} ({case})")
                continue
            lq_f = -0.5 * float(z @ z) - logdetA
            lq_r = -0.5 * float(zr @ zr) - math.log(abs(np.linalg.det(A2)))
            lhs = t.log_pi(x) + lq_f + math.log(max(a_f, 1e-300))
            rhs = t.log_pi(xp) + lq_r + math.log(max(a_r, 1e-300))
            res.transitions += 1
            res.outcome("cont", kern, tuple(unit["keys"]), "a_f<1" if a_f < 1 else "a_f=1", "a_r<1" if a_r < 1 else "a_r=1")
            if abs(lhs - rhs) > 3e-3 + 1e-3 * abs(lhs):
                res.violation("cont", f"detailed-balance-{kern}-{'+'.join(unit['keys'])}", case, f"{kern}{unit['keys']} step {step}: pi(x)q(x'|x)a(x->x') != pi(x')q(x|x')a(x'->x): log lhs {lhs:.5f} vs log rhs {rhs:.5f} (a_f={a_f:.5f}, a_r={a_r:.5f}, log q_f={lq_f:.4f}, log q_r={lq_r:.4f}) ({case})")
            # acted on: move iff u < alpha
            a = a_f
            if 1e-6 < a < 1 - 1e-6:
                _, _, mv_lo = probe(x, z, a * (1 - 2e-3))
                _, _, mv_hi = probe(x, z, min(a * (1 + 2e-3), 1 - 1e-7))
                if not mv_lo or mv_hi:
                    res.violation("cont", f"acts-differently-{kern}", case, f"{kern}: reported alpha {a} but moved(u<alpha)={mv_lo}, moved(u>alpha)={mv_hi}")
            elif a >= 1 - 1e-6:
                _, _, mv_any = probe(x, z, 1 - 1e-7)
                if not mv_any:
                    res.violation("cont", f"acts-differently-{kern}", case, f"{kern}: alpha=1 but proposal rejected at u=1-1e-7")
        res.states += 1
    if usable * 2 < len(pts):
        raise RuntimeError(f"proposal law observable at only {usable} of {len(pts)} lattice points: vacuous")
    res.executions += n_exec[0]
    res.sample({"unit": unit, "lattice": [np.round(p, 4).tolist() for p in pts], "transitions_run": n_exec[0]})
    res.note([unit, n_exec[0], sorted(res.outcomes)])


# ---------------------------------------------------------------------------------
# (c) HMC / NUTS conformance
# ---------------------------------------------------------------------------------


class RecInterface:
    def __init__(self, inner, log):
        self.inner, self.log = inner, log

    def extract_position(self, keys, st):
        return self.inner.extract_position(keys, st)

    def log_prob(self, st):
        return self.inner.log_prob(st)

    def update_state(self, pos, st):
        import jax

        jax.debug.callback(lambda **p: self.log.append({k: np.asarray(v, dtype=np.float64) for k, v in p.items()}), **pos)
        return self.inner.update_state(pos, st)


def run_ham(res, unit):
    import jax
    import jax.numpy as jnp
    import liesel.goose as gs
    from liesel.goose.epoch import EpochConfig, EpochType

    t = Target(unit["model"], unit["keys"])
    d, eps = t.d, unit["step"]
    if unit["mm"] == "id":
        Minv = np.eye(d)
        mm_arg = jnp.ones(d)
    elif unit["mm"] == "diag":
        dg = np.array([0.5, 2.0, 1.3, 0.8][:d])
        Minv = np.diag(dg)
        mm_arg = jnp.asarray(dg, dtype=jnp.float32)
    else:
        L = np.tril(np.array([[1.0, 0, 0, 0], [0.4, 0.8, 0, 0], [-0.3, 0.2, 1.1, 0], [0.1, -0.2, 0.3, 0.9]])[:d, :d])
        Minv = L @ L.T
        mm_arg = jnp.asarray(Minv, dtype=jnp.float32)
    M = np.linalg.inv(Minv)
    quick = unit["tier"] == "quick"
    nsteps = 3
    depth = 2 if quick else 3
    log = []
    rec = RecInterface(t.interface, log)
    if unit["kernel"] == "HMC":
        k = gs.HMCKernel(unit["keys"], initial_step_size=eps, initial_inverse_mass_matrix=mm_arg, num_integration_steps=nsteps, mm_diag=unit["mm"] != "dense")
    else:
        k = gs.NUTSKernel(unit["keys"], initial_step_size=eps, initial_inverse_mass_matrix=mm_arg, max_treedepth=depth, mm_diag=unit["mm"] != "dense")
    k.identifier = "kernel_00"
    k.set_model(rec)
    ep = EpochConfig(EpochType.POSTERIOR, 5, 1, None).to_state(2, 6)
    ep_burnin = EpochConfig(EpochType.BURNIN, 5, 1, None).to_state(1, 2)

    def to_flat(p):
        return np.array([np.asarray(p[kk]).reshape(-1)[i] for kk, i in t.coords])

    def H(x, p):
        return -t.log_pi(x) + 0.5 * float(p @ Minv @ p)

    zs = [np.array([0.8, -0.5, 0.3, 1.1][:d]), np.array([-0.6, 0.9, -1.2, 0.2][:d])]
    if not quick:
        zs += [np.array([1.5, 0.1, -0.4, -0.9][:d]), np.zeros(d) + 0.05]
    pts = lattice(t, 2 if quick else 4)
    n_exec = 0

    for x in pts:
        st = t.state_at(x)
        ks = k.init_state(jax.random.PRNGKey(0), st)
        g0 = t.grad(x)
        for z in zs:
            if unit["kernel"] == "HMC":
                answers_u = [1e-12, 1 - 1e-7]
            else:
                answers_u = [None]
            for u in answers_u:
                dirs = [0.25, 0.75] if unit["kernel"] == "NUTS" else [None]
                for dir_u in dirs:
                    log.clear()
                    bern = []

                    def answer(fn, i, shape, info, u=u, dir_u=dir_u):
                        if fn == "normal":
                            return jnp.asarray(np.asarray(z, dtype=np.float32)).reshape(shape)
                        if fn == "bernoulli":
                            bern.append(info.get("p"))
                            if unit["kernel"] == "HMC":
                                return u
                            # NUTS: direction draws have p == 0.5 exactly; selection draws: take u=0.4
                            pv = info.get("p")
                            return dir_u if pv is not None and abs(float(np.asarray(pv)) - 0.5) < 1e-12 else 0.4
                        raise RuntimeError(f"unexpected draw {fn}")

                    epoch = ep if n_exec % 2 == 0 else ep_burnin
                    with jax.disable_jit(), seams.ScriptedPRNG(answer) as sp:
                        out = k.transition(jax.random.PRNGKey(1), ks, st, epoch)
                    n_exec += 1
                    if sp.duplicate_keys():
                        res.violation("ham", f"prng-key-reuse-{unit['kernel']}", {"unit": unit}, f"{unit['kernel']}: one PRNG key was consumed by two random draws")
                    if kl.kernel_state_changed(ks, out.kernel_state):
                        res.violation("ham", f"tuning-not-frozen-{unit['kernel']}", {"unit": unit, "epoch": epoch.config.type.name}, f"{unit['kernel']}: kernel (tuning) state changed by a transition in a {epoch.config.type.name} epoch")
                    case = {"unit": unit, "x": np.round(x, 5).tolist(), "z": z.tolist(), "u": u, "dir": dir_u}
                    if any(set(p) != set(unit["keys"]) for p in log):
                        res.violation("ham", f"density-on-partial-position-{unit['kernel']}", case, f"{unit['kernel']}{unit['keys']} evaluated / wrote the model at a position with keys {sorted(set(map(lambda p: tuple(sorted(p)), log)))} instead of its whole block ({case})")
                        continue
                    traj = [to_flat(p) for p in log]
                    if not np.allclose(traj[0], x, atol=1e-6):
                        raise RuntimeError("first recorded position is not the current point")
                    x_final = t.x_of(out.model_state)
                    # the very last update_state call is the write-back (or absent on rejection paths)
                    evals = traj[1:]
                    p0 = None
                    # textbook first step, both directions
                    ok = True
                    if unit["kernel"] == "HMC":
                        if len(evals) < nsteps:
                            res.violation("ham", "hmc-too-few-steps", case, f"HMC evaluated the density at {len(evals)} new points, expected >= {nsteps}")
                            continue
                        xs = [x] + evals[:nsteps]
                        # recover p0 from the first step and check it is B z with B B' = M
                        p0 = M @ (xs[1] - xs[0]) / eps - 0.5 * eps * g0
                        # z is the scripted standard normal: p0 must have covariance M under z ~ N(0, I):
                        # for diag: p0 = z / sqrt(minv); dense: p0 = L^-T z (any B with B B' = M is fine)
                        # check via the quadratic form: p0' Minv p0 == z'z
                        if abs(float(p0 @ Minv @ p0) - float(z @ z)) > 2e-3 * max(1.0, float(z @ z)):
                            res.violation("ham", f"momentum-law-{unit['mm']}", case, f"initial momentum recovered from the first leapfrog step has p' M^-1 p = {float(p0 @ Minv @ p0):.5f}, scripted z'z = {float(z @ z):.5f}: momentum is not N(0, M) for the kernel's inverse mass matrix in ravel order ({case})")
                            ok = False
                        for j in range(1, nsteps):
                            lhs = xs[j + 1] - 2 * xs[j] + xs[j - 1]
                            rhs = eps**2 * Minv @ t.grad(xs[j])
                            if not np.allclose(lhs, rhs, rtol=2e-3, atol=3e-5):
                                res.violation("ham", f"leapfrog-recurrence-HMC-{unit['mm']}", case, f"positions do not follow x[k+1]-2x[k]+x[k-1] = eps^2 M^-1 grad log pi(x[k]) at k={j}: {lhs} vs {rhs} (target density, step size or mass-matrix alignment differs from the reference) ({case})")
                                ok = False
                                break
                        if not ok:
                            continue
                        xL = xs[nsteps]
                        pL = M @ (xs[nsteps] - xs[nsteps - 1]) / eps + 0.5 * eps * t.grad(xL)
                        a_ref = min(1.0, math.exp(min(0.0, H(x, p0) - H(xL, pL))) if H(x, p0) - H(xL, pL) < 0 else 1.0)
                        a = float(out.info.acceptance_prob)
                        if abs(a - a_ref) > 3e-3:
                            res.violation("ham", "hmc-acceptance", case, f"reported acceptance {a:.5f} != min(1, exp(H0 - HL)) = {a_ref:.5f} ({case})")
                        moved = bool(out.info.position_moved)
                        should = u < a
                        if moved != should:
                            res.violation("ham", "hmc-acts-differently", case, f"u={u}, alpha={a}: moved={moved}")
                        want = xL if moved else x
                        if not np.allclose(x_final, want, rtol=1e-5, atol=1e-6):
                            res.violation("ham", "hmc-write-back", case, f"state after the transition holds {x_final}, expected {'x_L' if moved else 'the input point'} = {want} ({case})")
                        res.outcome("ham", "HMC", unit["mm"], "accept" if moved else "reject")
                    else:
                        # NUTS: grow a chain from x0; every new evaluation extends one end
                        chain = [x]
                        grads = {0: g0}
                        left_n = right_n = 0
                        bad = False
                        # candidate first steps
                        for e in evals:
                            if np.allclose(e, x_final, atol=0) and e is evals[-1] and len(evals) > 1 and any(np.allclose(e, c, atol=1e-7) for c in chain):
                                continue  # write-back of an already visited point
                            placed = False
                            if len(chain) == 1:
                                # p0 unknown in sign/direction: forward x1 = x0 + eps Minv (p0 + eps/2 g0); backward x_-1 = x0 - eps Minv (p0 - eps/2 g0)
                                pf = M @ (e - x) / eps - 0.5 * eps * g0
                                pb = -(M @ (e - x) / eps) + 0.5 * eps * g0
                                for p_c, side in ((pf, "R"), (pb, "L")):
                                    if abs(float(p_c @ Minv @ p_c) - float(z @ z)) <= 2e-3 * max(1.0, float(z @ z)):
                                        placed = True
                                        if side == "R":
                                            chain.append(e)
                                            right_n += 1
                                        else:
                                            chain.insert(0, e)
                                            left_n += 1
                                        break
                                if not placed:
                                    res.violation("ham", f"momentum-law-NUTS-{unit['mm']}", case, f"first NUTS step from x0 is not a leapfrog step with momentum B z, B B' = M (kernel's inverse mass matrix in ravel order) ({case})")
                                    bad = True
                                    break
                                continue
                            # extend right?
                            if len(chain) >= 2:
                                r_pred = 2 * chain[-1] - chain[-2] + eps**2 * Minv @ t.grad(chain[-1])
                                l_pred = 2 * chain[0] - chain[1] + eps**2 * Minv @ t.grad(chain[0])
                                if np.allclose(e, r_pred, rtol=2e-3, atol=3e-5):
                                    chain.append(e)
                                    right_n += 1
                                    placed = True
                                elif np.allclose(e, l_pred, rtol=2e-3, atol=3e-5):
                                    chain.insert(0, e)
                                    left_n += 1
                                    placed = True
                            if not placed:
                                if any(np.allclose(e, c, rtol=1e-5, atol=1e-6) for c in chain):
                                    continue  # re-evaluation / write-back of a visited point
                                res.violation("ham", f"leapfrog-recurrence-NUTS-{unit['mm']}", case, f"NUTS evaluated the density at {e}, which extends neither end of the trajectory by a leapfrog step for the reference density / step size / mass matrix ({case})")
                                bad = True
                                break
                        if bad:
                            continue
                        if not any(np.allclose(x_final, c, rtol=1e-5, atol=1e-6) for c in chain):
                            res.violation("ham", "nuts-write-back", case, f"state after NUTS holds {x_final}, which is not a point of the trajectory ({case})")
                        res.outcome("ham", "NUTS", unit["mm"], f"L{left_n}R{right_n}", "moved" if not np.allclose(x_final, x) else "stayed")
                    res.transitions += len(evals)
        res.states += 1
    res.executions += n_exec
    res.sample({"unit": unit, "points": [np.round(p, 4).tolist() for p in pts], "transitions_run": n_exec})
    res.note([unit, n_exec, sorted(res.outcomes)])


def run_support(res, unit):
    """
    Constrained support: a proposal that lands where the target density is zero (-inf) or
    undefined (NaN, as TFP's Gamma / Poisson report outside the support) must never be
    accepted, otherwise mass leaks out of the support and the target is not invariant.
    """
    import jax
    import jax.numpy as jnp
    import liesel.goose as gs
    from liesel.goose.epoch import EpochConfig, EpochType

    ep = EpochConfig(EpochType.POSTERIOR, 5, 1, None).to_state(2, 6)
    targets = {
        "nan-outside": lambda s: jnp.where(s["x"] > 0, 2.0 * jnp.log(jnp.abs(s["x"])) - 1.5 * s["x"], jnp.nan),
        "neginf-outside": lambda s: jnp.where(s["x"] > 0, 2.0 * jnp.log(jnp.abs(s["x"])) - 1.5 * s["x"], -jnp.inf),
    }

    def mh_prop(key, model_state, step_size):
        z = jax.random.normal(key, ())
        return gs.MHProposal({"x": model_state["x"] + step_size * z}, jnp.float32(0.0))

    for tname, lp in targets.items():
        itf = gs.DictInterface(lp)
        for kname, k in (("RW", gs.RWKernel(["x"], initial_step_size=1.0)), ("MH", gs.MHKernel(["x"], mh_prop, initial_step_size=1.0)), ("IWLS", gs.IWLSKernel(["x"], initial_step_size=1.0, chol_info_fn=lambda s: jnp.array([[1.0]])))):
            k.identifier = "kernel_00"
            k.set_model(itf)
            for x0 in (0.3, 1.2):
                for z in (-2.5, -6.0):
                    for u in (1e-12, 0.5, 1 - 1e-7):
                        st = {"x": jnp.float32(x0)}
                        ks = k.init_state(jax.random.PRNGKey(0), st)

                        def script(fn, i, shape, info):
                            if fn == "normal":
                                return jnp.full(shape, jnp.float32(z))
                            if fn == "uniform":
                                return u
                            raise RuntimeError(fn)

                        with jax.disable_jit(), seams.ScriptedPRNG(script):
                            out = k.transition(jax.random.PRNGKey(1), ks, st, ep)
                        res.executions += 1
                        res.transitions += 1
                        x1 = float(out.model_state["x"])
                        a = float(out.info.acceptance_prob)
                        case = {"target": tname, "kernel": kname, "x": x0, "z": z, "u": u}
                        res.outcome("support", tname, kname, "left-support" if not x1 > 0 else "stayed")
                        if not x1 > 0:
                            res.violation("support", f"accepts-outside-support-{kname}-{tname}", case, f"{kname}: chain moved from x={x0} to x'={x1}, where the target density is {'undefined (NaN)' if tname.startswith('nan') else 'zero'} (reported acceptance {a}) ({case})")
                        elif not np.isclose(x1, x0):
                            res.outcome("support", tname, kname, "proposal-inside-support")
                            continue  # e.g. IWLS drift keeps this proposal inside the support: nothing to check
                        if a != 0.0:
                            res.violation("support", f"alpha-nonzero-outside-support-{kname}-{tname}", case, f"{kname}: acceptance probability {a} for a proposal outside the support ({case})")
    res.states += 1
    res.sample({"support": sorted(targets)})
    res.note(sorted(res.outcomes))


def run_gibbs_cont(res, unit):
    """
    Continuous Gibbs kernel (inverse-gamma draw for a smoothing variance): the drawn law
    IG(a_g, b_g) is read off the real transition through the gamma seam; the kernel leaves
    the posterior invariant iff that law is the full conditional, i.e. iff
    log pi_model(tau2, rest) - log IG(tau2; a_g, b_g) does not depend on tau2.
    """
    import jax
    import jax.numpy as jnp
    import liesel.goose as gs
    import liesel.model as lsl
    import tensorflow_probability.substrates.jax.bijectors as tfb
    import tensorflow_probability.substrates.jax.distributions as tfd
    from liesel.goose.epoch import EpochConfig, EpochType
    from liesel.model.distreg import DistRegBuilder, tau2_gibbs_kernel
    from scipy.special import gammaln

    ep = EpochConfig(EpochType.POSTERIOR, 5, 1, None).to_state(2, 6)
    pens = {
        "RW1_4 (rank 3)": np.array([[1, -1, 0, 0], [-1, 2, -1, 0], [0, -1, 2, -1], [0, 0, -1, 1]], dtype=np.float32),
        "I_3 (full rank)": np.eye(3, dtype=np.float32),
        "RW2_5 (rank 3)": (lambda D: (D.T @ D).astype(np.float32))(np.diff(np.eye(5), n=2, axis=0)),
    }
    for pname, K in pens.items():
        d = K.shape[0]
        X = np.linspace(-1, 1, 6 * d).reshape(6, d).astype(np.float32)
        yv = np.linspace(-0.5, 0.8, 6).astype(np.float32)
        for a0, b0 in ((1.0, 0.5), (2.5, 0.01)):
            bld = DistRegBuilder()
            bld.add_response(yv, tfd.Normal)
            bld.add_predictor("loc", tfb.Identity)
            bld.add_predictor("scale", tfb.Exp)
            bld.add_np_smooth(X, K, a0, b0, "loc")
            model = bld.build_model()
            grp = [g for g in model.groups().values() if "tau2" in g][0]
            itf = gs.LieselInterface(model)
            kern = tau2_gibbs_kernel(grp)
            kern.identifier = "kernel_00"
            kern.set_model(itf)
            tname, bname = grp["tau2"].name, grp["beta"].name
            for beta in (np.arange(1, d + 1, dtype=np.float32) * 0.3, np.ones(d, dtype=np.float32) * 0.7, np.array([0.5, -0.2, 0.1, 0.9, -0.4][:d], dtype=np.float32)):
                st = itf.update_state({bname: jnp.asarray(beta), tname: jnp.float32(1.3)}, model.state)
                rec = {}

                def script(fn, i, shape, info):
                    if fn != "gamma":
                        raise RuntimeError(f"unexpected draw {fn}")
                    rec["a"] = float(np.asarray(info["a"]))
                    return 1.0

                with jax.disable_jit(), seams.ScriptedPRNG(script):
                    out = kern.transition(jax.random.PRNGKey(1), kern.init_state(jax.random.PRNGKey(0), st), st, ep)
                res.executions += 1
                res.transitions += 1
                a_g = rec["a"]
                b_g = float(out.model_state[f"{tname}_value"].value)  # draw = b_g / 1
                grid = [0.1, 0.5, 1.0, 2.0, 10.0, 100.0]
                diffs = []
                for t2 in grid:
                    lp = float(itf.log_prob(itf.update_state({tname: jnp.float32(t2)}, st)))
                    lig = a_g * math.log(b_g) - float(gammaln(a_g)) - (a_g + 1) * math.log(t2) - b_g / t2
                    diffs.append(lp - lig)
                spread = max(diffs) - min(diffs)
                case = {"penalty": pname, "a": a0, "b": b0, "beta": beta.tolist(), "a_gibbs": a_g, "b_gibbs": b_g}
                res.outcome("gibbs_cont", pname, a0)
                if spread > 0.01 + 1e-6 * max(abs(x) for x in diffs):
                    res.violation("gibbs_cont", "tau2-law-not-full-conditional", case, f"tau2 Gibbs kernel draws IG({a_g:.4f}, {b_g:.5f}) but log pi_model(tau2) - log IG(tau2) varies by {spread:.4f} over tau2 in {grid}: the drawn law is not the model's full conditional, the posterior is not invariant ({case})")
    res.states += 1
    res.sample({"gibbs_cont": sorted(pens)})
    res.note(sorted(res.outcomes))


def run_unit(unit):
    core.assert_repo()
    res = core.UnitResult(unit)
    {"finite": run_finite, "cont": run_cont, "ham": run_ham, "support": run_support, "gibbs_cont": run_gibbs_cont}[unit["part"]](res, unit)
    return res
