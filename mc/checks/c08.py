"""
C08 - recorded chains: real engines drive deterministic, key-ignoring tracer kernels
whose written values identify (key, element, chain, epoch, iteration); every recorded
stream of ``SamplingResults`` (positions, posterior positions, transition infos,
kernel states, generated quantities) is compared element by element with the reference
(mc/ref/c08_chain.py) over

* schedules x durations x thinning x every chunk size ("sched"; all streams on),
* tracked-key selections (constructor ``position_keys`` and the builder's
  positions_included / positions_excluded) x leaf-shape assignments ("keys"),
* store_kernel_states x quantity generator x minimize x chains ("flags"),

plus ``ListEpochChain`` / ``EpochChainManager`` alone over all (duration, thinning,
chunk composition) triples and all small epoch sequences ("listchain", "manager").
"""

from __future__ import annotations

import itertools
import math

from mc import core
from mc.checks import c07
from mc.ref import c07_lifecycle as lc
from mc.ref import c08_chain as ref

PROPERTY = "C08"
RULE = (
    "engine cases = (schedule, thinning, chunk, chains, kernel keys/shapes, tracked-key selection, flags), every "
    "valid schedule up to the tier's length x durations x thinnings x every chunk dividing the durations; tracked "
    "selections = every non-empty subset via position_keys and every (included, excluded) pair leaving >= 1 key; "
    "chain-class cases = every composition of every duration <= bound into chunks x every thinning <= bound, and "
    "every epoch sequence <= 3 with every epoch subset / type predicate. Distinct outcome = (stream, stored index "
    "pattern) resp. (duration, thinning, stored indices)."
)
ASSUMPTIONS = [
    "kernels ignore their PRNG key and write 100000*key + 10000*element + 1000*chain + 100*epoch + iteration (exact in float32), using the engine's epoch clock, which this check also validates against the C07 lifecycle reference in every run",
    "model interface is liesel's DictInterface; 'w' is a model-state entry no kernel writes (stays at its initial value)",
    "generated quantities: only the value derived from the model state and the number of stored entries are pinned, not the epoch clock a generator sees",
    "posterior accessors are called only when a posterior epoch exists",
    "VERIF_SEED only selects the engine seed (a label: kernels ignore keys); chains/leaf shapes/selection products use two schedules each",
]

INIT = ["INITIAL_VALUES", 1, 1]
KERNELS = [
    {"keys": ["x"], "style": "mixin", "needs_history": False},
    {"keys": ["y", "z"], "style": "plain", "needs_history": False},
]
# the same kernels, but the second one asks for its history (its keys may still be
# left out of the tracked positions when no adaptation epoch ever tunes it)
KERNELS_H = [
    {"keys": ["x"], "style": "mixin", "needs_history": False},
    {"keys": ["y", "z"], "style": "plain", "needs_history": True},
]
SHAPE_ROT = [
    {"x": [], "y": [3], "z": [2, 2], "w": []},
    {"x": [3], "y": [2, 2], "z": [], "w": [3]},
    {"x": [2, 2], "y": [], "z": [3], "w": []},
]
KEY_SCHEDULES = [
    [INIT, ["SLOW_ADAPTATION", 3, 2], ["POSTERIOR", 4, 2]],
    [INIT, ["POSTERIOR", 2, 1], ["POSTERIOR", 3, 3]],
]


def bounds(tier):
    q = tier == "quick"
    return {
        "sched": {"max_epochs_after_initial": 2 if q else 3,
                  "durations": {"len1": [1, 2, 3, 4, 6], "len2": [1, 2, 3] if q else [1, 2, 3, 4, 6], "len3": None if q else [1, 3]},
                  "thinning": [1, 2, 3], "chunk": "every divisor of the gcd (constructor) and the builder's choice"},
        "keys": {"position_keys": "None and every non-empty subset of {x,y,z,w}", "included": "subsets of {w,x}",
                 "excluded": "subsets of {x,y,z,w} leaving >= 1 tracked key", "leaf_shapes": [[], [3], [2, 2]], "shape_assignments": 3},
        "flags": {"store_kernel_states": [False, True], "quantity_generator": [False, True], "minimize": [False, True], "chains": [1, 2, 3]},
        "listchain": {"duration": 8 if q else 10, "thinning": 8 if q else 10, "chunking": "all compositions"},
        "manager": {"epochs": 3, "types": 5},
    }


# ---------------------------------------------------------------------------------
# enumeration
# ---------------------------------------------------------------------------------


def sched_cases(tier, seed):
    q = tier == "quick"
    dsets = {0: [1], 1: [1, 2, 3, 4, 6], 2: [1, 2, 3] if q else [1, 2, 3, 4, 6], 3: [1, 3]}
    cases = []
    for n in range(0, 3 if q else 4):
        for types in c07.type_seqs(n):
            for ds in itertools.product(dsets[n], repeat=n):
                for ths in itertools.product(*[c07.thinnings(t, d) for t, d in zip(types, ds)]):
                    sched = [INIT] + [[t, d, k] for t, d, k in zip(types, ds, ths)]
                    g = math.gcd(*ds) if ds else 1
                    variants = [{"via": "ctor", "chunk": c} for c in c07.divisors(g)]
                    if n >= 1:
                        variants.append({"via": "builder"})
                    cfg = {"schedule": sched, "chains": 2, "kernels": KERNELS, "shapes": SHAPE_ROT[0], "tracked": None,
                           "included": [], "excluded": [], "store_kernel_states": True, "qg": True, "seed": seed}
                    cases.append({"kind": "sched", "cfg": cfg, "variants": variants})
    return cases


def key_cases(tier, seed):
    cases = []
    allk = ["x", "y", "z", "w"]
    subsets = [list(s) for r in range(1, 5) for s in itertools.combinations(allk, r)]
    inc_opts = [[], ["w"], ["x"], ["w", "x"]]
    exc_opts = [list(s) for r in range(0, 5) for s in itertools.combinations(allk, r)]
    for si, shapes in enumerate(SHAPE_ROT):
        for sched in KEY_SCHEDULES:
            g = math.gcd(*[s[1] for s in sched[1:]])
            base = {"schedule": sched, "chains": 2, "kernels": KERNELS, "shapes": shapes,
                    "store_kernel_states": False, "qg": False, "seed": seed}
            for tr in [None] + subsets:
                # reversed order for odd shape assignments: order of position_keys must not matter
                t = tr if tr is None or si % 2 == 0 else tr[::-1]
                cases.append({"kind": "keys", "cfg": dict(base, tracked=t), "variants": [{"via": "ctor", "chunk": g}]})
            for inc in inc_opts:
                for exc in exc_opts:
                    kept = [k for k in ["x", "y", "z"] + inc if k not in exc]
                    if not kept:
                        continue
                    cases.append({"kind": "keys", "cfg": dict(base, included=inc, excluded=exc), "variants": [{"via": "builder"}]})
        # excluded / untracked keys that belong to a kernel with needs_history=True, on the
        # schedule without adaptation epochs (no tune call ever looks the history up)
        sched = KEY_SCHEDULES[1]
        g = math.gcd(*[s_[1] for s_ in sched[1:]])
        baseh = {"schedule": sched, "chains": 2, "kernels": KERNELS_H, "shapes": shapes,
                 "store_kernel_states": False, "qg": False, "seed": seed}
        for tr in subsets:
            if "y" in tr and "z" in tr:
                continue
            cases.append({"kind": "keys", "cfg": dict(baseh, tracked=tr), "variants": [{"via": "ctor", "chunk": g}]})
        for inc in ([], ["w"]):
            for exc in (["y"], ["z"], ["y", "z"], ["x", "y"], ["z", "w"]):
                kept = [k for k in ["x", "y", "z"] + inc if k not in exc]
                if kept:
                    cases.append({"kind": "keys", "cfg": dict(baseh, included=inc, excluded=exc), "variants": [{"via": "builder"}]})
    return cases


def flag_cases(tier, seed):
    cases = []
    scheds = [
        [INIT],
        [INIT, ["FAST_ADAPTATION", 2, 2], ["POSTERIOR", 2, 1]],
        [INIT, ["BURNIN", 4, 3], ["POSTERIOR", 4, 2]],
    ]
    for sched in scheds:
        for sks in (False, True):
            for qg in (False, True):
                for mini in (False, True):
                    for chains in (1, 2, 3):
                        cfg = {"schedule": sched, "chains": chains, "kernels": KERNELS, "shapes": SHAPE_ROT[1],
                               # the same selection for both construction routes
                               "tracked": ["x", "y", "z", "w"], "included": ["w"], "excluded": [], "store_kernel_states": sks, "qg": qg, "minimize": mini, "seed": seed}
                        variants = [{"via": "ctor", "chunk": 1}] + ([{"via": "builder"}] if len(sched) > 1 else [])
                        cases.append({"kind": "flags", "cfg": cfg, "variants": variants})
    return cases


def setdur_cases(tier, seed):
    """EngineBuilder.set_duration: the documented schedule of its arguments (reference of C16) recorded
    with the configured warm-up AND posterior thinning."""
    from mc.ref import c16_epochs as r16

    names = {r16.INITIAL: "INITIAL_VALUES", r16.FAST: "FAST_ADAPTATION", r16.SLOW: "SLOW_ADAPTATION", r16.POSTERIOR: "POSTERIOR"}
    cases = []
    grid = [(160, 12, 10, tp, tw) for tp in (1, 3) for tw in (1, 2, 4)] if tier == "quick" else \
        [(w, 12, t, tp, tw) for w in (160, 185) for t in (10, 35) for tp in (1, 2, 3) for tw in (1, 2, 4, 5)]
    for w, p_, t, tp, tw in grid:
        sched = [[names[ty], d, th] for ty, d, th in r16.stan_schedule(w, p_, 75, t, 25, tp, tw)]
        cfg = {"schedule": sched, "chains": 2, "kernels": KERNELS, "shapes": SHAPE_ROT[0], "tracked": None, "included": [], "excluded": [],
               "store_kernel_states": False, "qg": True, "seed": seed, "set_duration": [w, p_, t, tp, tw], "log_len": 256}
        cases.append({"kind": "setdur", "cfg": cfg, "variants": [{"via": "set_duration"}]})
    return cases


def reuse_cases(tier, seed):
    """One results object, asked again after the engine went on sampling (it shares the engine's chains)."""
    scheds = [
        [INIT, ["POSTERIOR", 2, 1], ["POSTERIOR", 3, 3]],
        [INIT, ["BURNIN", 2, 2], ["POSTERIOR", 4, 2], ["POSTERIOR", 2, 1]],
    ]
    cases = []
    for sched in scheds:
        for prefix in range(1, len(sched)):
            cfg = {"schedule": sched, "chains": 2, "kernels": KERNELS, "shapes": SHAPE_ROT[0], "tracked": None, "included": [], "excluded": [],
                   "store_kernel_states": False, "qg": False, "seed": seed, "prefix": prefix, "via": "ctor", "chunk": 1}
            cases.append({"kind": "reuse", "cfg": cfg, "variants": [1]})
    return cases


def chainclass_cases(tier, seed):
    dmax = 8 if tier == "quick" else 10
    cases = []
    for d in range(1, dmax + 1):
        cases.append({"kind": "listchain", "duration": d, "max_thinning": dmax})
    seqs = []
    types = ["INITIAL_VALUES", "FAST_ADAPTATION", "SLOW_ADAPTATION", "BURNIN", "POSTERIOR"]
    for n in (1, 2, 3):
        for s in itertools.product(types, repeat=n):
            seqs.append(list(s))
    size = 40
    for i in range(0, len(seqs), size):
        cases.append({"kind": "manager", "seqs": seqs[i:i + size]})
    return cases


def weight(case):
    if case["kind"] in ("listchain", "manager"):
        return 8
    return len(case["variants"])


def units(tier, seed):
    cases = sched_cases(tier, seed) + key_cases(tier, seed) + flag_cases(tier, seed) + setdur_cases(tier, seed) + reuse_cases(tier, seed) + chainclass_cases(tier, seed)
    target = 36 if tier == "quick" else 150
    total = sum(weight(c) for c in cases)
    n_units = max(1, -(-total // target))
    buckets = [[] for _ in range(n_units)]
    load = [0] * n_units
    for case in cases:
        i = min(range(n_units), key=lambda j: (load[j], j))
        buckets[i].append(case)
        load[i] += weight(case)
    return [{"cases": b, "u": i} for i, b in enumerate(buckets) if b]


# ---------------------------------------------------------------------------------
# engine cases
# ---------------------------------------------------------------------------------


def np_tree(x):
    import jax
    import numpy as np

    return jax.tree_util.tree_map(lambda a: np.asarray(a), x)


def observe(cfg):
    """Runs the engine all at once and pulls every recorded stream as numpy."""
    from mc import enginelab as el

    lab = el.build(cfg).run()
    res = lab.results()
    obs = {"logs": lab.logs(), "chunk": lab.engine._jitted_sample_duration, "tracked": lab.tracked}
    obs["samples"] = np_tree(dict(res.get_samples()))
    has_post = any(s[0] == "POSTERIOR" for s in cfg["schedule"])
    obs["post_samples"] = np_tree(dict(res.get_posterior_samples())) if has_post else None
    infos = res.transition_infos.combine_all()
    obs["infos"] = None if infos.is_none() else {k: np_tree(vars(v)) for k, v in infos.unwrap().items()}
    obs["post_infos"] = {k: np_tree(vars(v)) for k, v in res.get_posterior_transition_infos().items()} if has_post else None
    ks = res.kernel_states
    obs["kernel_states"] = None if ks.is_none() else np_tree(ks.unwrap().combine_all().unwrap())
    gq = res.generated_quantities
    if gq.is_none():
        obs["quantities"] = obs["post_quantities"] = None
    else:
        obs["quantities"] = np_tree(gq.unwrap().combine_all().unwrap())
        pq = gq.unwrap().combine_filtered(lambda config: config.type.name == "POSTERIOR")
        obs["post_quantities"] = None if pq.is_none() else np_tree(pq.unwrap())
    obs["final_kernel_states"] = np_tree(lab.engine._kernel_states)
    return obs


def check_engine_case(res, case):
    import numpy as np

    from mc import enginelab as el

    cfg0 = case["cfg"]
    sched = cfg0["schedule"]
    reported = set()
    res.states += 1

    def report(check, sig, info, msg):
        if (check, sig) not in reported:
            reported.add((check, sig))
            res.violation(check, sig, {"kind": case["kind"], "cfg": cfg0, **info}, msg)

    base = None
    for var in case["variants"]:
        cfg = dict(cfg0, **var)
        cfg["prefix"] = len(sched)
        if var["via"] == "set_duration":
            var = dict(var, args=cfg["set_duration"])
        tracked = el.default_tracked(cfg)
        ctx = f"schedule {sched}, via {var['via']}, chunk {var.get('chunk', 'gcd')}, tracked {cfg.get('tracked')}, included {cfg.get('included')}, excluded {cfg.get('excluded')}"
        try:
            obs = observe(cfg)
        except Exception as e:  # noqa: BLE001
            where = c07.liesel_raised(e)
            if where is None:
                raise
            report("results", f"raised-{type(e).__name__}-{where}", {"variant": var}, f"{type(e).__name__}: {e}; {ctx}")
            res.executions += 1
            continue
        res.executions += 1
        res.transitions += sum(s[1] for s in sched[1:]) * cfg["chains"] * len(cfg["kernels"])
        exps = [ref.expected(sched, cfg["kernels"], cfg["shapes"], tracked, c) for c in range(cfg["chains"])]

        # the clock the values are built from (C07's oracle, same run)
        for k, ker in enumerate(obs["logs"]):
            for c, rows in enumerate(ker):
                bad = lc.compare_events(exps[c]["sim"]["events"][k], rows)
                if bad is not None:
                    report("lifecycle", bad[0], {"variant": var, "kernel": k, "chain": c}, f"kernel {k}, chain {c}: {bad[1]}; {ctx}")

        def cmp_positions(name, got, key_exp):
            if got is None:
                return
            if sorted(got) != sorted(tracked):
                report(name, "tracked-keys", {"variant": var}, f"{name}: stored keys {sorted(got)} != tracked keys {sorted(tracked)}; {ctx}")
                return
            for c in range(cfg["chains"]):
                for key in tracked:
                    exp = exps[c][key_exp][key]
                    g = got[key][c] if got[key].shape[0] == cfg["chains"] else None
                    if g is None or g.shape[0] != exp.shape[0]:
                        report(name, "length", {"variant": var, "chain": c, "key": key},
                               f"{name}[{key!r}] has shape {got[key].shape}, expected ({cfg['chains']}, {exp.shape[0]}, ...); {ctx}")
                    elif not ref.arrays_equal(g, exp):
                        first = int(np.argmax(np.any((g.astype(np.float64) != exp).reshape(exp.shape[0], -1), axis=1)))
                        sig = "initial-value" if first == 0 and key_exp == "positions" else "values"
                        report(name, sig, {"variant": var, "chain": c, "key": key},
                               f"{name}[{key!r}] chain {c}: first difference at stored index {first}: {g[first].tolist()} != {exp[first].tolist()} "
                               f"(stored {g.reshape(g.shape[0], -1)[:, 0].tolist()} vs expected {exp.reshape(exp.shape[0], -1)[:, 0].tolist()}); {ctx}")

        cmp_positions("positions", obs["samples"], "positions")
        cmp_positions("posterior-positions", obs["post_samples"], "posterior_positions")

        # transition infos: every transition, never thinned
        def cmp_infos(name, got, key_exp):
            for c in range(cfg["chains"]):
                exp = exps[c][key_exp]
                if got is None:
                    if exp:
                        report(name, "length", {"variant": var}, f"{name}: nothing stored, expected {len(exp)} transitions; {ctx}")
                    continue
                idents = sorted(got)
                if len(idents) != len(cfg["kernels"]):
                    report(name, "kernels", {"variant": var}, f"{name}: identifiers {idents}; {ctx}")
                for ident in idents:
                    tag = got[ident]["position_moved"]
                    if tag.shape != (cfg["chains"], len(exp)):
                        report(name, "length", {"variant": var, "kernel": ident},
                               f"{name}[{ident}] has shape {tag.shape}, expected ({cfg['chains']}, {len(exp)}); {ctx}")
                    elif tag[c].tolist() != exp or np.any(got[ident]["error_code"] != 0):
                        report(name, "values", {"variant": var, "kernel": ident, "chain": c},
                               f"{name}[{ident}] chain {c}: iteration tags {tag[c].tolist()} != {exp}; {ctx}")

        cmp_infos("infos", obs["infos"], "tags")
        if obs["post_samples"] is not None:
            cmp_infos("posterior-infos", obs["post_infos"], "posterior_tags")

        # kernel states: 1 + number of transitions, each the state right after that transition
        if cfg.get("store_kernel_states"):
            ks = obs["kernel_states"]
            if ks is None:
                report("kernel-states", "missing", {"variant": var}, f"store_kernel_states=True but nothing stored; {ctx}")
            else:
                for k, st in enumerate(ks):
                    final = obs["final_kernel_states"][k]["log"]
                    for c in range(cfg["chains"]):
                        exp_n = exps[c]["kernel_counts"][k]
                        n = st["n"][c].tolist() if st["n"].shape[0] == cfg["chains"] else None
                        if n is None or len(n) != len(exp_n):
                            report("kernel-states", "length", {"variant": var, "kernel": k},
                                   f"kernel state chain has shape {st['n'].shape}, expected ({cfg['chains']}, {len(exp_n)}); {ctx}")
                            continue
                        if n != exp_n:
                            report("kernel-states", "values", {"variant": var, "kernel": k, "chain": c},
                                   f"stored kernel states of kernel {k} chain {c} hold {n} logged calls, expected {exp_n}; {ctx}")
                            continue
                        for i, cnt in enumerate(n):
                            want = np.where(np.arange(final.shape[1])[:, None] < cnt, final[c], 0)
                            if not np.array_equal(st["log"][c, i], want):
                                report("kernel-states", "log-content", {"variant": var, "kernel": k, "chain": c, "index": i},
                                       f"stored kernel state #{i} of kernel {k} chain {c} is not the kernel's state after that transition; {ctx}")
                                break
        elif obs["kernel_states"] is not None:
            report("kernel-states", "unrequested", {"variant": var}, f"kernel states stored although not requested; {ctx}")

        # generated quantities: thinned like the positions
        if cfg.get("qg"):
            for name, got, key_exp in (("quantities", obs["quantities"], "quantity"), ("posterior-quantities", obs["post_quantities"], "posterior_quantity")):
                if name == "posterior-quantities" and obs["post_samples"] is None:
                    continue
                for c in range(cfg["chains"]):
                    exp = exps[c][key_exp]
                    if got is None:
                        report(name, "missing", {"variant": var}, f"{name}: nothing stored; {ctx}")
                        break
                    v = got["tq"]["value"]
                    if v.shape != (cfg["chains"], len(exp)):
                        report(name, "length", {"variant": var}, f"{name} has shape {v.shape}, expected ({cfg['chains']}, {len(exp)}); {ctx}")
                    elif v[c].astype(np.float64).tolist() != exp:
                        report(name, "values", {"variant": var, "chain": c}, f"{name} chain {c}: {v[c].tolist()} != {exp}; {ctx}")
        elif obs["quantities"] is not None:
            report("quantities", "unrequested", {"variant": var}, f"quantities stored without a generator; {ctx}")

        # differential: results do not depend on the chunking
        dg = core.digest([{k: v.tolist() for k, v in sorted(obs["samples"].items())},
                          None if obs["infos"] is None else {i: v["position_moved"].tolist() for i, v in sorted(obs["infos"].items())},
                          None if obs["kernel_states"] is None else [s["n"].tolist() for s in obs["kernel_states"]],
                          None if obs["quantities"] is None else obs["quantities"]["tq"]["value"].tolist()])
        if base is None:
            base = (dg, var)
        elif dg != base[0]:
            report("chunking", "results-depend-on-chunk", {"variant": var, "base": base[1]},
                   f"stored results differ between {base[1]} and {var}; schedule {sched}")

        # vacuity
        first = sorted(obs["samples"])[0]
        stored_per_epoch = [len(ep["stamps"]) for ep in exps[0]["sim"]["epochs"]]
        res.outcome("stored-per-epoch", stored_per_epoch, "of", [s[1] for s in sched], "chunk", obs["chunk"])
        res.outcome("tracked", sorted(obs["samples"]), "shape", list(obs["samples"][first].shape[2:]))
        res.outcome("streams", obs["infos"] is not None, obs["kernel_states"] is not None, obs["quantities"] is not None,
                    obs["post_samples"] is not None, "chains", cfg["chains"])
        ex = res.extra
        thin = [s[2] for s in sched[1:]]
        for name in (f"runs_via_{var['via']}", f"runs_kind_{case['kind']}",
                     "runs_with_thinning" if any(t > 1 for t in thin) else "runs_unthinned",
                     "runs_with_chunk_storing_nothing" if any(t > obs["chunk"] for t in thin) else "runs_every_chunk_stores",
                     "runs_with_posterior" if obs["post_samples"] is not None else "runs_without_posterior"):
            ex[name] = ex.get(name, 0) + 1
        res.note([var, dg])
        res.sample({"schedule": sched, "variant": var, "tracked": sorted(obs["samples"]),
                    "stored_first_elements_chain0": {k: v[0].reshape(v.shape[1], -1)[:, 0].tolist() for k, v in obs["samples"].items()}}, limit=1)


def check_reuse_case(res, case):
    """results = engine.get_results() after the first ``prefix`` epochs; every accessor is called; then
    the remaining epochs are appended and sampled one by one and the SAME results object is asked again:
    what it returns is the (posterior part of the) chain recorded so far."""
    import numpy as np

    from mc import enginelab as el

    cfg = case["cfg"]
    sched = cfg["schedule"]
    res.states += 1
    lab = el.build(cfg)
    tracked = el.default_tracked(cfg)
    try:
        for _ in range(cfg["prefix"]):
            lab.op("n")
        r = lab.results()
        for k in range(cfg["prefix"], len(sched) + 1):
            done = sched[:k]
            res.executions += 1
            res.transitions += 1
            has_post = any(s[0] == "POSTERIOR" for s in done)
            got = {"positions": np_tree(dict(r.get_samples())),
                   "posterior-positions": np_tree(dict(r.get_posterior_samples())) if has_post else None,
                   "posterior-infos": {i: np_tree(vars(v)) for i, v in r.get_posterior_transition_infos().items()} if has_post else None}
            for c in range(cfg["chains"]):
                exp = ref.expected(done, cfg["kernels"], cfg["shapes"], tracked, c)
                for name, key_exp in (("positions", "positions"), ("posterior-positions", "posterior_positions")):
                    if got[name] is None:
                        continue
                    for key in tracked:
                        g, e = got[name][key][c], exp[key_exp][key]
                        if g.shape[0] != e.shape[0] or not ref.arrays_equal(g, e):
                            res.violation(name, "stale-results-object", {"kind": "reuse", "cfg": cfg, "sampled_epochs": k, "key": key},
                                          f"{name}[{key!r}] of a results object obtained after {cfg['prefix']} epoch(s), asked after {k} sampled epochs of {sched}: "
                                          f"{g.shape[0]} stored states {g.reshape(g.shape[0], -1)[:, 0].tolist()}, the recorded chain holds {e.reshape(e.shape[0], -1)[:, 0].tolist()}")
                            return
                if got["posterior-infos"] is not None:
                    for ident, v in got["posterior-infos"].items():
                        if v["position_moved"][c].tolist() != exp["posterior_tags"]:
                            res.violation("posterior-infos", "stale-results-object", {"kind": "reuse", "cfg": cfg, "sampled_epochs": k},
                                          f"posterior infos[{ident}] asked after {k} sampled epochs of {sched}: tags {v['position_moved'][c].tolist()} != {exp['posterior_tags']}")
                            return
            res.outcome("reuse", "asked-after", k, "obtained-after", cfg["prefix"], "posterior" if has_post else "no-posterior")
            if k < len(sched):
                lab.op("a")
                lab.op("n")
    except Exception as e:  # noqa: BLE001
        where = c07.liesel_raised(e)
        if where is None:
            raise
        res.violation("results", f"raised-{type(e).__name__}-{where}", {"kind": "reuse", "cfg": cfg}, f"{type(e).__name__}: {e}")


# ---------------------------------------------------------------------------------
# chain classes alone
# ---------------------------------------------------------------------------------


def make_chunk(lo, size, use_jax):
    """Chunk of `size` states with epoch-global indices lo..lo+size-1: leaves [2 chains, size, ...]."""
    import numpy as np

    idx = np.arange(lo, lo + size, dtype=np.float32)
    a = np.stack([idx, 100 + idx])                       # [2, size]
    b = np.stack([idx[:, None] * np.ones(3, np.float32), 100 + idx[:, None] * np.ones(3, np.float32)])  # [2, size, 3]
    tree = {"a": a, "b": {"c": b}}
    if use_jax:
        import jax.numpy as jnp

        tree = {"a": jnp.asarray(a), "b": {"c": jnp.asarray(b)}}
    return tree


def check_listchain(res, case):
    import numpy as np
    from liesel.goose.chain import ListEpochChain
    from liesel.goose.epoch import EpochConfig, EpochType

    d = case["duration"]
    for th in range(1, case["max_thinning"] + 1):
        for comp in ref.compositions(d):
            for apply in (True, False):
                if not apply and th not in (1, 3):
                    continue
                use_jax = d <= 4
                chain = ListEpochChain(EpochConfig(EpochType.BURNIN, d, th, None), apply_thinning=apply)
                lo = 0
                for size in comp:
                    chain.append(make_chunk(lo, size, use_jax))
                    lo += size
                res.transitions += len(comp)
                res.executions += 1
                want = ref.thinned_indices(comp, th) if apply else list(range(d))
                got = chain.get()
                res.outcome("listchain", d, th, apply, len(want))
                case_id = {"kind": "listchain", "duration": d, "thinning": th, "chunks": comp, "apply_thinning": apply}
                if got.is_none():
                    if want:
                        res.violation("listchain", "nothing-stored", case_id, f"duration {d}, thinning {th}, chunks {comp}: nothing stored, expected indices {want}")
                    continue
                g = np_tree(got.unwrap())
                stored = g["a"][0].tolist()
                ok = (stored == [float(i) for i in want] and g["a"][1].tolist() == [100.0 + i for i in want]
                      and g["b"]["c"].shape == (2, len(want), 3) and g["b"]["c"][1, :, 2].tolist() == [100.0 + i for i in want])
                if not ok:
                    sig = "thinned-indices" if apply and th > 1 else "unthinned"
                    res.violation("listchain", sig, case_id,
                                  f"duration {d}, thinning {th}, chunks {comp}, apply_thinning={apply}: stored epoch indices {stored}, expected {want}")
        res.states += 1


def check_manager(res, case):
    import numpy as np
    from liesel.goose.chain import EpochChainManager
    from liesel.goose.epoch import EpochConfig, EpochType

    for seq in case["seqs"]:
        res.states += 1
        for apply in (True, False):
            man = EpochChainManager(apply_thinning=apply)
            expect = []
            for e, typ in enumerate(seq):
                d = 1 if typ == "INITIAL_VALUES" else 2 + (e % 2) * 2      # 2 or 4
                th = 1 if typ == "INITIAL_VALUES" else 2
                man.advance_epoch(EpochConfig(EpochType[typ], d, th, None))
                man.append(make_chunk(1000 * e, d, False))
                res.transitions += 1
                idx = ref.thinned_indices([d], th) if apply else list(range(d))
                expect.append((typ, [1000.0 * e + i for i in idx]))
            res.executions += 1

            def flat(option):
                return None if option.is_none() else np_tree(option.unwrap())["a"][0].tolist()

            def want(pred):
                out = [v for i, (typ, vals) in enumerate(expect) if pred(i, typ) for v in vals]
                return out or None

            case_id = {"kind": "manager", "epochs": seq, "apply_thinning": apply}
            if flat(man.combine_all()) != want(lambda i, t: True):
                res.violation("manager", "combine_all", case_id, f"combine_all of epochs {seq}: {flat(man.combine_all())} != {want(lambda i, t: True)}")
            for typ in sorted(set(seq)) + ["POSTERIOR"]:
                got = flat(man.combine_filtered(lambda config, typ=typ: config.type == EpochType[typ]))
                exp = want(lambda i, t, typ=typ: t == typ)
                res.outcome("filtered", typ, exp is None)
                if got != exp:
                    res.violation("manager", "combine_filtered", dict(case_id, type=typ), f"combine_filtered(type == {typ}) of epochs {seq}: {got} != {exp}")
            for r in range(0, len(seq) + 1):
                for sub in itertools.combinations(range(len(seq)), r):
                    got = flat(man.combine(list(sub)))
                    exp = want(lambda i, t, sub=sub: i in sub)
                    if got != exp:
                        res.violation("manager", "combine", dict(case_id, epochs_selected=list(sub)), f"combine({list(sub)}) of epochs {seq}: {got} != {exp}")
            if [c.type.name for c in man.get_epochs()] != seq:
                res.violation("manager", "get_epochs", case_id, f"get_epochs() != {seq}")


def run_unit(unit):
    core.assert_repo()
    import logging

    from mc import enginelab as el

    logging.getLogger("liesel").setLevel(logging.ERROR)
    el.enable_compilation_cache()
    res = core.UnitResult(unit)
    for case in unit["cases"]:
        if case["kind"] == "listchain":
            check_listchain(res, case)
        elif case["kind"] == "manager":
            check_manager(res, case)
        elif case["kind"] == "reuse":
            check_reuse_case(res, case)
        else:
            check_engine_case(res, case)
    return res
