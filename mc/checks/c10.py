"""
C10 - reproducibility, key distinctness, chain independence, initial values.

Every configuration of a small lattice (seed x seed form x chains x kernel/generator
counts x schedule x chunk x jitter x initial-state form) is built through the real
``EngineBuilder`` and run on the real ``Engine``. Per configuration several complete
runs are executed (same seed twice, PRNGKey form of the seed, one run per perturbed
chain) and compared leaf by leaf.

Kernels used: (a) key-recording tracer kernels written here (all-integer arithmetic, the
raw key words of *every* lifecycle call are appended to a log in the kernel state and
also stored in the transition info); (b) liesel's RW / HMC / NUTS / IWLS kernels on a
small float model (bit-equality, independence and initial values only).
"""

from __future__ import annotations

import itertools
import os

from mc import core
from mc.ref import c10_ref as ref

PROPERTY = "C10"
RULE = (
    "configuration lattice: engine seed {0,1,VERIF_SEED-derived} x chains x (kernels, quantity generators) x "
    "schedule (epoch-type sequences up to the tier's length, durations/thinning from a small set) x chunk (every "
    "divisor of the gcd) x jitter {none, element-wise, non-element-wise (sum), key-using} x initial state {replicated, per-chain}. Part 1: "
    "for every (schedule, chunk) the product chains x jitter x init is walked with a rotating stride (quick 5/11, "
    "thorough 5) while (kernels, generators), seed and perturbed chain cycle; part 2: the complete product "
    "(kernels, generators) x chains x jitter x init on reference schedules with every chain perturbed. Each "
    "configuration = 2-3 + #perturbed complete engine runs (int seed [twice], PRNGKey form, perturbed chains) on "
    "fresh builders/engines, compared leaf by leaf. Distinct outcome = (sub-check, verdict / event kinds seen / "
    "init form x jitter)."
)
ASSUMPTIONS = [
    "keys are legacy uint32[2] threefry keys; 'distinct key' is decided on the raw key words recorded by the tracer kernels, the quantity generators and the jitter functions",
    "lineage oracle: besides literal distinctness no recorded key may be derivable (jax.random.split fan-out <= 4, depth <= 2) from another recorded key or from the engine's live carry key; deeper/other derivations (fold_in) are not searched",
    "real kernels (RW/HMC/NUTS/IWLS) are run only for bit-equality, independence and initial values (their keys are not observable); XLA CPU is trusted to be deterministic for identical programs and batch shapes",
    "cross-interpreter reproducibility is checked for 2 configurations x up to 3 fresh interpreters (PYTHONHASHSEED chosen so that set(position keys) iterates in different orders); other sources of per-process variation (ASLR, dict order of non-string keys) are not varied",
    "chain independence is decided for per-chain initial states (a replicated state cannot be perturbed in one chain only)",
    "the engine is driven epoch by epoch with sample_next_epoch(); Engine._prng_key is read (not written) after every epoch",
]

EV = {"init": 1, "start": 2, "transition": 3, "end": 4, "tune": 5, "end_warmup": 6}
EV_NAME = {v: k for k, v in EV.items()}


# ---------------------------------------------------------------------------------
# bounds / units
# ---------------------------------------------------------------------------------

TYPES = ["FAST", "SLOW", "BURNIN", "POSTERIOR"]


def _valid(seq):
    seen_post = False
    for t in seq:
        if t == "POSTERIOR":
            seen_post = True
        elif seen_post:
            return False
    return True


def _schedules(tier):
    """List of schedules; a schedule is a list of [type, duration, thinning]."""
    out = []
    if tier == "quick":
        dur1 = [1, 4]
        dur2 = [(2, 4), (3, 3)]
    else:
        dur1 = [1, 2, 4, 6]
        dur2 = [(1, 1), (2, 4), (3, 3)]
    for t in TYPES:
        for d in dur1:
            ths = [1] + ([2] if d % 2 == 0 and d >= 2 and (tier != "quick" or t in ("BURNIN", "POSTERIOR")) else [])
            for th in ths:
                out.append([[t, d, th]])
    for t1, t2 in itertools.product(TYPES, TYPES):
        if not _valid([t1, t2]):
            continue
        for d1, d2 in dur2:
            out.append([[t1, d1, 1], [t2, d2, 1]])
            if d2 % 2 == 0 and (t1, t2) in (("FAST", "POSTERIOR"), ("POSTERIOR", "POSTERIOR"), ("SLOW", "BURNIN")):
                out.append([[t1, d1, 1], [t2, d2, 2]])
    if tier != "quick":
        for seq in itertools.product(TYPES, repeat=3):
            if _valid(seq):
                out.append([[seq[0], 2, 1], [seq[1], 4, 2 if seq[1] == "POSTERIOR" else 1], [seq[2], 2, 1]])
    # simplest first
    out.sort(key=lambda s: (len(s), sum(e[1] for e in s), sum(e[2] for e in s)))
    return out


def _divisors(n):
    return [d for d in range(1, n + 1) if n % d == 0]


def _gcd(schedule):
    import math

    return math.gcd(*[e[1] for e in schedule])


def _seeds(seed):
    return [0, 1, 2 + 7919 * (seed + 1)]


JITTERS = ["none", "det", "sum", "key"]
KQ_QUICK = [(1, 0), (2, 1), (2, 2), (1, 2)]
KQ_THOROUGH = [(1, 0), (1, 1), (2, 1), (2, 2), (1, 2), (3, 1)]

REAL_SETS = [
    # name, list of (kernel class name, position keys)
    ("rw", [("RWKernel", ["a", "b"])]),
    ("rw+nuts", [("RWKernel", ["a"]), ("NUTSKernel", ["b"])]),
    ("nuts", [("NUTSKernel", ["b", "a"])]),
    ("hmc+iwls", [("HMCKernel", ["a"]), ("IWLSKernel", ["b"])]),
]


def bounds(tier):
    return {
        "engine_seeds": "0, 1, 2+7919*(VERIF_SEED+1); int form, repeated int form, PRNGKey form",
        "chains": [1, 2, 3] if tier == "quick" else [1, 2, 3, 4],
        "kernels_x_generators": KQ_QUICK if tier == "quick" else KQ_THOROUGH,
        "schedules": len(_schedules(tier)),
        "schedule_len_max": 2 if tier == "quick" else 3,
        "chunk": "every divisor of gcd(durations); gcd through EngineBuilder.build(), smaller ones through the Engine constructor with the builder's seeds/states",
        "jitter": JITTERS,
        "cross_interpreter": "2 configurations (3 tracer kernels + 1 generator; RW on 2 float keys; key-using jitter on every position key) re-run in fresh interpreters under PYTHONHASHSEED values that give distinct iteration orders of set(position keys)",
        "init": ["replicated", "multi"],
        "real_kernel_sets": [n for n, _ in (REAL_SETS[:3] if tier == "quick" else REAL_SETS)],
        "lineage": {"fanout": 4, "depth": 2},
        "part1_stride": {"quick": "5 (one epoch) / 11 (two epochs)", "thorough": 5}[tier],
        "tracer_cases": len(tracer_cases(tier, 0)),
        "real_kernel_cases": len(real_cases(tier, 0)),
    }


def tracer_cases(tier, seed):
    """
    Part 1 (schedule lattice): for every (schedule, chunk) the product chains x jitter x
    init is walked; quick takes every 5th (single-epoch schedules) / 11th (two-epoch
    schedules) point and thorough every 5th point of the (larger) product with an offset that
    rotates from one (schedule, chunk) to the next, so every value of every factor meets
    every schedule. (kernels, generators), the seed, the perturbed chain and whether
    the int-seed run is repeated cycle through their lists.
    Part 2 (configuration lattice): the complete product (kernels, generators) x chains x
    jitter x init (x chunk in the thorough tier) on reference schedules, every chain
    perturbed, int-seed run repeated.
    """
    scheds = _schedules(tier)
    chains_l = [1, 2, 3] if tier == "quick" else [1, 2, 3, 4]
    kq_l = KQ_QUICK if tier == "quick" else KQ_THOROUGH
    seeds = _seeds(seed)
    cases = []
    n = 0
    pair = 0
    for sch in scheds:
        for chunk in _divisors(_gcd(sch)):
            stride = 5 if tier != "quick" else (5 if len(sch) == 1 else 11)
            pts = list(itertools.product(chains_l, JITTERS, ["replicated", "multi"]))
            for i, (chains, jitter, init) in enumerate(pts):
                if (i + pair) % stride != 0:
                    continue
                nk, nq = kq_l[n % len(kq_l)]
                s = seeds[(n // len(kq_l)) % len(seeds)]
                pert = [n % chains] if (init == "multi" and chains > 1) else []
                cases.append(dict(kind="tracer", seed=s, chains=chains, nk=nk, nq=nq, schedule=sch, chunk=chunk, jitter=jitter, init=init, repeat=(n % (8 if tier == "quick" else 4) == 0), perturb=pert, eseed=(100 + n % 7 if n % 3 == 1 else None)))
                n += 1
            pair += 1
    refs = [[["FAST", 2, 1], ["POSTERIOR", 4, 2]], [["SLOW", 2, 1], ["BURNIN", 2, 1], ["POSTERIOR", 2, 1]]]
    if tier == "quick":
        refs = refs[:1]
    for sch in refs:
        for (nk, nq), chains, jitter, init in itertools.product(kq_l, chains_l, JITTERS, ["replicated", "multi"]):
            for chunk in (_divisors(_gcd(sch)) if tier != "quick" else [_gcd(sch)]):
                s = seeds[n % len(seeds)]
                n += 1
                pert = list(range(chains)) if (init == "multi" and chains > 1) else []
                cases.append(dict(kind="tracer", seed=s, chains=chains, nk=nk, nq=nq, schedule=sch, chunk=chunk, jitter=jitter, init=init, repeat=True, perturb=pert, eseed=(200 + n % 5 if n % 2 == 0 else None), multikey=(n % 4 == 0 and chains > 1)))
    return cases


def real_cases(tier, seed):
    seeds = _seeds(seed)
    cases = []
    if tier == "quick":
        scheds = [[["FAST", 3, 1], ["SLOW", 3, 1], ["POSTERIOR", 3, 1]]]
        chains_l = [3]
        sets = REAL_SETS[:3]
    else:
        scheds = [[["FAST", 3, 1], ["SLOW", 3, 1], ["POSTERIOR", 3, 1]], [["BURNIN", 2, 1], ["POSTERIOR", 4, 2]]]
        chains_l = [2, 4]
        sets = REAL_SETS
    n = 0
    for si, ((name, _), sch, chains) in enumerate(itertools.product(sets, scheds, chains_l)):
        combos = list(itertools.product(["det", "sum", "key"], ["replicated", "multi"]))
        if tier == "quick":
            # two of the six (jitter, init) points per kernel set, rotating: every jitter
            # kind and both init forms occur
            combos = [[combos[0], combos[5]], [combos[3], combos[4]], [combos[1], combos[2]]][si % 3]
        for jitter, init in combos:
            s = seeds[n % len(seeds)]
            n += 1
            pert = list(range(chains)) if init == "multi" else []
            cases.append(dict(kind="real", kset=name, seed=s, chains=chains, schedule=sch, chunk=_gcd(sch), jitter=jitter, init=init, repeat=True, perturb=pert, eseed=(300 + n if n % 2 == 0 else None)))
    # bounded support a < 1: with the element-wise jitter (+0.25) chain 2 starts inside the support
    # (0.75), the perturbed chain 2 (+0.5) outside it; the other chains must not notice
    cases.append(dict(kind="real", kset="rw", seed=seeds[0], chains=3, schedule=[["BURNIN", 2, 1], ["POSTERIOR", 3, 1]], chunk=1, jitter="det", init="multi", repeat=False, perturb=[2], eseed=None, bounded=1.0))
    return cases


def xproc_cases(seed):
    s = _seeds(seed)[2]
    return [
        dict(kind="tracer", seed=s, chains=2, nk=3, nq=1, schedule=[["FAST", 2, 1], ["POSTERIOR", 2, 1]], chunk=2, jitter="key", init="multi", repeat=False, perturb=[]),
        dict(kind="real", kset="rw", seed=s, chains=2, schedule=[["BURNIN", 2, 1], ["POSTERIOR", 2, 1]], chunk=2, jitter="key", init="replicated", repeat=False, perturb=[]),
    ]


def units(tier, seed):
    tc = tracer_cases(tier, seed)
    rc = real_cases(tier, seed)
    out = []
    # group tracer cases so that cases sharing compiled programs stay together:
    # same (schedule, chunk, chains, nk, nq) -> same XLA programs
    size = 8 if tier == "quick" else 40
    tc_sorted = sorted(range(len(tc)), key=lambda i: (tc[i]["chains"], tc[i]["nk"], tc[i]["nq"], tc[i]["chunk"], i))
    first = [tc[i] for i in tc_sorted]
    for u in range(0, len(first), size):
        out.append({"cases": first[u : u + size], "u": len(out)})
        if len(out) == 1:
            # cross-interpreter reproducibility (fresh processes, other string-hash seeds)
            out.append({"kind": "xproc", "cases": xproc_cases(seed), "u": len(out)})
    for c in rc:
        out.append({"cases": [c], "u": len(out)})
    return out


# ---------------------------------------------------------------------------------
# harness-side kernels / generators (implement liesel's protocols)
# ---------------------------------------------------------------------------------

_LIB = {}


def lib():
    """Classes that need liesel/jax imports; built once per process."""
    if _LIB:
        return _LIB
    core.assert_repo()
    import tempfile
    import atexit
    import shutil
    from dataclasses import dataclass

    import jax
    import jax.numpy as jnp

    # per-process XLA compilation cache: the repeated / perturbed runs of one
    # configuration build fresh Engine objects (fresh jit closures) with identical HLO
    d = tempfile.mkdtemp(prefix="c10_xla_")
    atexit.register(shutil.rmtree, d, True)
    try:
        jax.config.update("jax_compilation_cache_dir", d)
        jax.config.update("jax_persistent_cache_min_compile_time_secs", 0.0)
        jax.config.update("jax_persistent_cache_min_entry_size_bytes", -1)
    except Exception:  # pragma: no cover - cache is an optimisation only
        pass

    from liesel.goose.kernel import DefaultTuningInfo, TransitionOutcome, TuningOutcome, WarmupOutcome
    from liesel.goose.pytree import register_dataclass_as_pytree

    @register_dataclass_as_pytree
    @dataclass
    class KeyInfo:
        error_code: int
        acceptance_prob: float
        position_moved: int
        key: object
        time: object

        def minimize(self):
            return self

    @register_dataclass_as_pytree
    @dataclass
    class KeyQuant:
        error_code: int
        key: object

    def rec(ks, ev, key, aux):
        row = jnp.stack(
            [
                jnp.asarray(ev, dtype=jnp.uint32),
                key[0].astype(jnp.uint32),
                key[1].astype(jnp.uint32),
                jnp.asarray(aux).astype(jnp.uint32),
            ]
        )
        log = ks["log"].at[ks["n"]].set(row, mode="drop")
        return {"log": log, "n": ks["n"] + 1}

    class KeyRecKernel:
        """Records the key of every lifecycle call; key- and state-driven integer walk."""

        error_book = {0: "no errors"}
        needs_history = False
        identifier = ""

        def __init__(self, position_keys, cap):
            self.position_keys = tuple(position_keys)
            self._model = None
            self.cap = cap

        def set_model(self, model):
            self._model = model

        def has_model(self):
            return self._model is not None

        def init_state(self, prng_key, model_state):
            ks = {"log": jnp.zeros((self.cap, 4), dtype=jnp.uint32), "n": jnp.asarray(0, dtype=jnp.int32)}
            return rec(ks, EV["init"], prng_key, 0)

        def start_epoch(self, prng_key, kernel_state, model_state, epoch):
            return rec(kernel_state, EV["start"], prng_key, epoch.time)

        def end_epoch(self, prng_key, kernel_state, model_state, epoch):
            return rec(kernel_state, EV["end"], prng_key, epoch.time)

        def transition(self, prng_key, kernel_state, model_state, epoch):
            pos = self._model.extract_position(self.position_keys, model_state)
            new = {}
            for name, x in pos.items():
                v = x[0] * jnp.uint32(3) + (prng_key[0] ^ (prng_key[1] >> 3)) + jnp.uint32(1)
                new[name] = x.at[0].set(v)
            ms = self._model.update_state(new, model_state)
            ks = rec(kernel_state, EV["transition"], prng_key, epoch.time)
            info = KeyInfo(jnp.asarray(0, jnp.int32), jnp.asarray(99.0, jnp.float32), jnp.asarray(99, jnp.int32), prng_key, jnp.asarray(epoch.time).astype(jnp.int32))
            return TransitionOutcome(info, ks, ms)

        def tune(self, prng_key, kernel_state, model_state, epoch, history):
            ks = rec(kernel_state, EV["tune"], prng_key, epoch.time)
            info = DefaultTuningInfo(error_code=jnp.asarray(0, jnp.int32), time=jnp.asarray(epoch.time).astype(jnp.int32))
            return TuningOutcome(info, ks)

        def end_warmup(self, prng_key, kernel_state, model_state, tuning_history):
            ks = rec(kernel_state, EV["end_warmup"], prng_key, 0)
            return WarmupOutcome(jnp.asarray(0, jnp.int32), ks)

    class KeyGen:
        error_book = {0: "no errors"}

        def __init__(self, identifier):
            self.identifier = identifier
            self._model = None

        def set_model(self, model):
            self._model = model

        def has_model(self):
            return self._model is not None

        def generate(self, prng_key, model_state, epoch):
            return KeyQuant(jnp.asarray(0, jnp.int32), prng_key)

    _LIB.update(KeyInfo=KeyInfo, KeyQuant=KeyQuant, KeyRecKernel=KeyRecKernel, KeyGen=KeyGen, jax=jax, jnp=jnp)
    return _LIB


# jitter functions (harness side; the reference versions live in mc/ref/c10_ref.py)


def _jitter_fns(case):
    """
    One jitter function per position key, chosen by mc.ref.c10_ref.jitter_kind: different
    keys get genuinely different functions (the tracked-only key "w" gets +3; in the "det"
    configurations odd kernel keys get "sum").

    Jitter functions of the lattice. All of them are written with ``...`` indexing so
    that they also *work* when the builder (wrongly) hands them the stacked
    [chains, ...] value or one key for all chains - the wrong RESULT is then observed by
    the oracles instead of an exception inside harness code.
      det  element-wise, key-ignoring
      sum  NOT element-wise (adds the sum of all entries of the value), key-ignoring
      key  key-using; the key words are stored in the value itself
    """
    L = lib()
    jnp = L["jnp"]
    jax = L["jax"]
    if case["jitter"] == "none":
        return None
    tracer = case["kind"] == "tracer"

    def det_u(key, val):
        return val.at[..., 0].set(val[..., 0] * jnp.uint32(2) + jnp.uint32(7))

    def sum_u(key, val):
        return val.at[..., 0].set(val[..., 0] + jnp.sum(val, dtype=jnp.uint32))

    def key_u(key, val):
        k0, k1 = key[..., 0], key[..., 1]
        v = val[..., 0] + (k0 ^ k1)
        return jnp.stack([v, jnp.broadcast_to(k0, v.shape), jnp.broadcast_to(k1, v.shape)], axis=-1).astype(jnp.uint32)

    def det_f(key, val):
        return val + jnp.float32(0.25)

    def sum_f(key, val):
        return val + jnp.sum(val)

    def key_f(key, val):
        return val + jax.random.uniform(key, jnp.shape(val), jnp.float32, -1.0, 1.0)

    def w3_u(key, val):
        return val + jnp.uint32(3)

    def w3_f(key, val):
        return val + jnp.float32(3.0)

    table = {"det": det_u, "sum": sum_u, "key": key_u, "w3": w3_u} if tracer else {"det": det_f, "sum": sum_f, "key": key_f, "w3": w3_f}
    return {n: table[ref.jitter_kind(case, n)] for n in ref.jittered_names(case)}


# ---------------------------------------------------------------------------------
# one engine run
# ---------------------------------------------------------------------------------


class LieselRaised(Exception):
    """liesel raised on a valid configuration (the raising frame is liesel's, not the harness')."""

    def __init__(self, exc, stage, where):
        super().__init__(f"{stage}: {exc!r} at {where}")
        self.exc = exc
        self.stage = stage
        self.where = where


def _blame(exc):
    """
    'liesel:<file>:<function>' if the innermost traceback frame that belongs to either
    liesel or the harness is liesel's (liesel raised, or called jax with bad arguments);
    None if it is a harness frame (kernels / generators / jitter functions defined here),
    in which case the exception is a harness error and propagates.
    """
    import traceback

    repo = os.path.realpath(os.environ.get("VERIF_REPO", "/repo"))
    last = None
    for fr in traceback.extract_tb(exc.__traceback__):
        f = os.path.realpath(fr.filename)
        if f.startswith(os.path.join(repo, "liesel") + os.sep):
            last = f"liesel:{os.path.relpath(f, repo)}:{fr.name}"
        elif f.startswith(os.path.realpath(core.VERIF) + os.sep):
            last = None if fr.name in ("run_engine", "_run_engine") else "harness"
    return last if last and last != "harness" else None


def run_engine(case, seed_form="int", perturb=None):
    stage = ["setup"]
    try:
        return _run_engine(case, seed_form, perturb, stage)
    except Exception as e:
        where = _blame(e)
        if where is None:
            raise
        raise LieselRaised(e, stage[0], where) from e


def _epoch_configs(schedule):
    from liesel.goose.epoch import EpochConfig, EpochType

    tmap = {"FAST": EpochType.FAST_ADAPTATION, "SLOW": EpochType.SLOW_ADAPTATION, "BURNIN": EpochType.BURNIN, "POSTERIOR": EpochType.POSTERIOR}
    cfgs = [EpochConfig(EpochType.INITIAL_VALUES, 1, 1, None)]
    for t, d, th in schedule:
        cfgs.append(EpochConfig(tmap[t], d, th, None))
    return cfgs


def _flatten(tree):
    import jax
    import numpy as np

    out = {}
    leaves, _ = jax.tree_util.tree_flatten_with_path(tree)
    for path, leaf in leaves:
        out[jax.tree_util.keystr(path)] = np.asarray(leaf)
    return out


def _run_engine(case, seed_form, perturb, stage):
    """
    Builds and runs one engine for ``case``. Returns dict(leaves, keys, carries, init).
    ``perturb`` = chain index whose initial values are changed (multi init only).
    """
    L = lib()
    jax, jnp = L["jax"], L["jnp"]
    import numpy as np

    import liesel.goose as gs
    from liesel.goose.engine import Engine

    chains = case["chains"]
    schedule = case["schedule"]
    seed = case["seed"]
    eseed = case.get("eseed")
    # with an engine seed the int/key distinction is exercised on set_engine_seed
    seed_arg = seed if (seed_form == "int" or eseed is not None) else jax.random.PRNGKey(seed)

    tracer = case["kind"] == "tracer"
    init_np = ref.initial_values(case, perturb)  # dict name -> np array [chains, ...]
    if tracer:
        nk, nq = case["nk"], case["nq"]
        cap = ref.log_capacity(schedule)
        knames = [f"x{i}" for i in range(nk)]
        model = gs.DictInterface(lambda s: jnp.float32(0.0))
        kernels = [L["KeyRecKernel"]([n], cap) for n in knames]
        gens = [L["KeyGen"](f"g{i}") for i in range(nq)]
        jfn = _jitter_fns(case)
        included = ["w"]
    else:
        kdef = dict(REAL_SETS)[case["kset"]]
        cut = case.get("bounded")  # support a < cut: a jittered start value may fall outside it

        def _lp(s):
            base = -0.5 * jnp.sum((s["a"] - 1.0) ** 2) - 0.25 * jnp.sum(s["b"] ** 2) - 0.1 * s["a"] * s["b"][0]
            return base if cut is None else base + jnp.where(s["a"] < cut, 0.0, -jnp.inf)

        model = gs.DictInterface(_lp)
        kernels = [getattr(gs, cls)(keys) for cls, keys in kdef]
        gens = []
        jfn = _jitter_fns(case)
        included = ["w"]

    builder = gs.EngineBuilder(seed=seed_arg, num_chains=chains)
    if eseed is not None:
        stage[0] = "set_engine_seed"
        if seed_form == "int":
            builder.set_engine_seed(eseed)
        elif seed_form == "key":
            builder.set_engine_seed(jax.random.PRNGKey(eseed))
        else:  # "multi": explicit per-chain key array
            builder.set_engine_seed(jax.random.split(jax.random.PRNGKey(eseed), chains))
    builder.show_progress = False
    builder.store_kernel_states = tracer
    builder.set_epochs(_epoch_configs(schedule))
    builder.set_model(model)
    stage[0] = "set_initial_values"
    if case["init"] == "replicated":
        state = {k: jnp.asarray(v[0]) for k, v in init_np.items()}
        builder.set_initial_values(state)
    else:
        state = {k: jnp.asarray(v) for k, v in init_np.items()}
        builder.set_initial_values(state, multiple_chains=True)
    stage[0] = "configure"
    for k in kernels:
        builder.add_kernel(k)
    for g in gens:
        builder.add_quantity_generator(g)
    if jfn is not None:
        builder.set_jitter_fns(jfn)
    builder.positions_included = included
    stage[0] = "build"
    engine = builder.build()
    if case.get("build_twice"):
        # the same, fully configured builder is asked for a second engine; that one is run
        engine = builder.build()
    if case["chunk"] != engine._jitted_sample_duration:
        stage[0] = "Engine"
        # explicit chunk size: the Engine constructor with what the builder passes
        engine = Engine(
            seeds=engine._seeds,
            model_states=engine._model_states,
            kernel_sequence=engine._kernel_sequence,
            epoch_configs=builder.epochs,
            jitted_sample_duration=case["chunk"],
            model=model,
            position_keys=engine._position_keys,
            minimize_transition_infos=False,
            store_kernel_states=tracer,
            quantity_generators=builder.quantity_generators,
            show_progress=False,
        )

    carries = [np.asarray(engine._prng_key).copy()]
    counts = []

    def cnt():
        if not tracer:
            return None
        return [np.asarray(ks["n"]).copy() for ks in engine._kernel_states]

    counts.append(cnt())
    stage[0] = "sample_next_epoch"
    while not engine.is_sampling_done():
        engine.sample_next_epoch()
        carries.append(np.asarray(engine._prng_key).copy())
        counts.append(cnt())

    stage[0] = "get_results"
    results = engine.get_results()
    tree = {
        "positions": results.positions.combine_all().unwrap(),
        "tinfos": results.transition_infos.combine_all().unwrap(),
        "gq": results.generated_quantities.map(lambda m: m.combine_all().unwrap_or(None)).unwrap_or(None),
        "kstates": results.kernel_states.map(lambda m: m.combine_all().unwrap_or(None)).unwrap_or(None),
        "tuning": results.tuning_infos.map(lambda c: c.get().unwrap_or(None)).unwrap_or(None),
        "final_kstates": engine._kernel_states,
        "final_model_states": engine._model_states,
    }
    post = results.positions.combine_filtered(lambda c: c.type.name == "POSTERIOR")
    tree["posterior"] = post.unwrap_or(None)
    stage[0] = "harness-postprocessing"
    leaves = _flatten(tree)
    tinfo_keys = {kid: np.asarray(ti.key) for kid, ti in tree["tinfos"].items()} if tracer else {}
    gen_keys = {gid: np.asarray(q.key) for gid, q in (tree["gq"] or {}).items()} if tracer else {}

    obs = {"leaves": leaves, "tinfo_keys": tinfo_keys, "gen_keys": gen_keys, "carries": carries, "counts": counts, "builder_keys": [np.asarray(builder._prng_key), np.asarray(builder._engine_key), np.asarray(builder._jitter_key)]}
    if tracer:
        logs = []
        for ki, ks in enumerate(engine._kernel_states):
            log = np.asarray(ks["log"])
            n = np.asarray(ks["n"])
            if int(n.max()) > log.shape[1]:
                raise RuntimeError("tracer log overflow")
            logs.append((log, n))
        obs["logs"] = logs
    return obs


# ---------------------------------------------------------------------------------
# oracles
# ---------------------------------------------------------------------------------


def _same(a, b):
    return a.dtype == b.dtype and a.shape == b.shape and a.tobytes() == b.tobytes()


def compare_runs(la, lb):
    """Returns the sorted list of leaf paths that are not bit-identical."""
    bad = []
    for k in sorted(set(la) | set(lb)):
        if k not in la or k not in lb or not _same(la[k], lb[k]):
            bad.append(k)
    return bad


def compare_other_chains(la, lb, j, chains):
    import numpy as np

    bad, changed_j = [], False
    for k in sorted(set(la) | set(lb)):
        if k not in la or k not in lb:
            bad.append(k)
            continue
        a, b = la[k], lb[k]
        if a.shape != b.shape or a.dtype != b.dtype or a.ndim == 0 or a.shape[0] != chains:
            bad.append(k)
            continue
        for c in range(chains):
            same = a[c].tobytes() == b[c].tobytes()
            if c == j:
                changed_j = changed_j or not same
            elif not same:
                bad.append(f"{k}[chain {c}]")
    return bad, changed_j


def collect_keys(case, obs):
    """
    All keys seen by harness objects in one run:
    list of (k0, k1, label) with label = (who, chain, kernel/generator, event, index).
    """
    import numpy as np

    out = []
    chains = case["chains"]
    for ki, (log, n) in enumerate(obs["logs"]):
        for c in range(chains):
            for r in range(int(n[c])):
                ev, k0, k1, aux = (int(v) for v in log[c, r])
                out.append((k0, k1, ("kernel", c, ki, EV_NAME.get(ev, ev), r)))
    lv = obs["leaves"]
    for name, arr in sorted(obs["gen_keys"].items()):
        for c in range(chains):
            for t in range(arr.shape[1]):
                out.append((int(arr[c, t, 0]), int(arr[c, t, 1]), ("generator", c, name, "generate", t)))
    if case["jitter"] == "key":
        for ki in range(case["nk"]):
            arr = lv[f"['positions']['x{ki}']"]
            for c in range(chains):
                out.append((int(arr[c, 0, 1]), int(arr[c, 0, 2]), ("jitter", c, f"x{ki}", "jitter", 0)))
    return out


def check_case(res, case):
    """Runs all engine runs of one configuration; liesel raising on it is a violation."""
    try:
        _check_case(res, case)
    except LieselRaised as e:
        res.executions += 1
        res.outcome("raised", e.stage, type(e.exc).__name__)
        multi = case["init"] == "multi"
        if e.stage == "set_initial_values":
            check, what = "initial-values", f"EngineBuilder.set_initial_values(state, multiple_chains={multi}) raised: the supplied initial values cannot be honoured"
        else:
            check, what = "engine-raises", f"liesel raised during {e.stage} on a valid configuration"
        c = dict(case)
        res.violation(check, f"{e.stage}-{case['init']}-raises-{type(e.exc).__name__}-in-{e.where.split(':')[-1]}", c, f"{what}: {e.exc!r} ({e.where}) [chains={case['chains']} jitter={case['jitter']} schedule={case['schedule']}]")


def _check_case(res, case):
    import numpy as np

    chains = case["chains"]
    tracer = case["kind"] == "tracer"
    cls = f"{case['kind']}/{case.get('kset', '')}k{case.get('nk', '')}q{case.get('nq', '')}/c{chains}/{case['jitter']}/{case['init']}"
    shape = "-".join(f"{t}{d}" + (f"t{th}" if th > 1 else "") for t, d, th in case["schedule"]) + f"/chunk{case['chunk']}"

    def viol(check, sig, msg, extra=None):
        c = dict(case)
        if extra:
            c["detail"] = extra
        res.violation(check, sig, c, f"{msg} [case {cls} schedule {shape} seed {case['seed']}]")

    # --- run A
    A = run_engine(case, "int")
    runs = 1
    la = A["leaves"]
    res.states += 1
    res.transitions += chains * sum(e[1] for e in case["schedule"])

    # --- reproducibility
    if case["repeat"]:
        B = run_engine(case, "int")
        runs += 1
        bad = compare_runs(la, B["leaves"])
        res.outcome("repro", "equal" if not bad else "differs")
        if bad:
            viol("reproducibility", "same-int-seed-differs", f"two runs with the same int seed differ in {len(bad)} leaves, first {bad[:3]}", bad[:10])
        if not all(_same(x, y) for x, y in zip(A["carries"], B["carries"])):
            viol("reproducibility", "carry-key-differs", "Engine._prng_key differs between two identical runs")
        B2 = run_engine(dict(case, build_twice=True), "int")
        runs += 1
        bad = compare_runs(la, B2["leaves"])
        res.outcome("repro-second-build", "equal" if not bad else "differs")
        if bad:
            viol("reproducibility", "second-build-of-the-same-builder-differs", f"the second engine built from one and the same builder gives different results than the first in {len(bad)} leaves, first {bad[:3]}", bad[:10])
    Ck = run_engine(case, "key")
    runs += 1
    bad = compare_runs(la, Ck["leaves"])
    res.outcome("int-vs-key", "constructor" if case.get("eseed") is None else "set_engine_seed", "equal" if not bad else "differs")
    if bad:
        if case.get("eseed") is None:
            viol("reproducibility", "int-seed-vs-PRNGKey-differs", f"seed={case['seed']} and PRNGKey({case['seed']}) give different results in {len(bad)} leaves, first {bad[:3]}", bad[:10])
        else:
            viol("reproducibility", "set_engine_seed-int-vs-PRNGKey-differs", f"set_engine_seed({case['eseed']}) and set_engine_seed(PRNGKey({case['eseed']})) give different results in {len(bad)} leaves, first {bad[:3]}", bad[:10])
    if not all(_same(x, y) for x, y in zip(A["carries"], Ck["carries"])):
        viol("reproducibility", "carry-key-differs-int-vs-PRNGKey", "Engine._prng_key differs between the int-seed and the PRNGKey-seed run")
    if case.get("multikey"):
        # explicit per-chain key array through set_engine_seed: must run, be reproducible
        # and hand out distinct keys; whether it equals the single-key run is recorded only
        M1 = run_engine(case, "multi")
        M2 = run_engine(case, "multi")
        runs += 2
        badm = compare_runs(M1["leaves"], M2["leaves"])
        res.outcome("engine-seed-array", "reproducible" if not badm else "differs", "same-as-single-key" if not compare_runs(la, M1["leaves"]) else "other-stream")
        if badm:
            viol("reproducibility", "set_engine_seed-key-array-differs", f"two runs with the same per-chain key array differ in {len(badm)} leaves, first {badm[:3]}", badm[:10])
        if tracer:
            seen_m = {}
            for k0, k1, lab in collect_keys(case, M1):
                if (k0, k1) in seen_m:
                    viol("distinct-keys", f"key-array-duplicate-{seen_m[(k0, k1)][0]}:{seen_m[(k0, k1)][3]}-vs-{lab[0]}:{lab[3]}", f"per-chain key array: the same key was handed out twice: {seen_m[(k0, k1)]} and {lab}")
                    break
                seen_m[(k0, k1)] = lab

    # --- initial values
    exp = ref.expected_first_sample(case, la)
    for name, want in exp.items():
        got = la[f"['positions']['{name}']"][:, 0]
        ok = got.shape == want.shape and got.dtype == want.dtype and got.tobytes() == want.tobytes()
        res.outcome("init", case["init"], case["jitter"], "honoured" if ok else "not-honoured")
        if not ok:
            viol(
                "initial-values",
                f"first-sample-{case['init']}-jitter-{case['jitter']}-{'tracked-only' if name == 'w' else 'kernel-key'}",
                f"first stored sample of {name!r} is {got.tolist()} but jitter(initial value) is {want.tolist()}",
                {"name": name},
            )
    if not tracer and case["jitter"] == "key":
        # key-using jitter on floats: value unknown, but must stay within the jitter
        # range of the supplied value and differ between chains
        for name in ("a", "b"):
            got = la[f"['positions']['{name}']"][:, 0]
            init = ref.initial_values(case, None)[name]
            if not (np.all(np.abs(got - init) <= 1.0) and np.all(got != init)):
                viol("initial-values", f"first-sample-{case['init']}-jitter-key-range", f"first sample of {name!r} {got.tolist()} is not initial value {init.tolist()} + U(-1,1)")
            d = (got - init).reshape(chains, -1)
            if chains > 1 and len({d[c].tobytes() for c in range(chains)}) < chains:
                viol("distinct-keys", "jitter-same-draw-in-several-chains", f"key-using jitter added the same noise in several chains: {d.tolist()}")
                res.outcome("jitter-noise", "shared")
            else:
                res.outcome("jitter-noise", "distinct")

    # --- key distinctness and lineage (tracer only)
    if tracer:
        keys = collect_keys(case, A)
        res.extra["keys_observed"] = res.extra.get("keys_observed", 0) + len(keys)
        evs = sorted({lab[3] for _, _, lab in keys})
        res.outcome("events", ",".join(evs))
        seen = {}
        dup = None
        for k0, k1, lab in keys:
            if (k0, k1) in seen:
                dup = (seen[(k0, k1)], lab)
                break
            seen[(k0, k1)] = lab
        res.outcome("distinct", "all-distinct" if dup is None else "duplicate")
        if dup is not None:
            a, b = dup
            viol(
                "distinct-keys",
                f"duplicate-{a[0]}:{a[3]}-vs-{b[0]}:{b[3]}-{'same' if a[1] == b[1] else 'other'}-chain",
                f"the same key was handed out twice: {a} and {b}",
                {"first": a, "second": b},
            )
        # transition infos carry the same keys as the log (observation point 2)
        for ki in range(case["nk"]):
            ti = A["tinfo_keys"][f"kernel_{ki:02d}"]
            log, n = A["logs"][ki]
            for c in range(chains):
                rows = log[c, : int(n[c])]
                tk = rows[rows[:, 0] == EV["transition"]][:, 1:3]
                if tk.shape != ti[c].shape or tk.tobytes() != ti[c].astype(np.uint32).tobytes():
                    viol("distinct-keys", "transition-info-keys-differ-from-kernel-log", f"kernel {ki} chain {c}: keys stored in the transition infos are not the keys the kernel's log holds")
        lin = ref.lineage(case, keys, A["carries"], A["counts"], A["builder_keys"], _split_fn())
        res.outcome("lineage", "independent" if not lin else "derivable")
        for sig, msg, detail in lin[:3]:
            viol("distinct-keys", sig, msg, detail)

    # --- independence of chains
    if case["perturb"]:
        for j in case["perturb"]:
            P = run_engine(case, "int", perturb=j)
            runs += 1
            bad, changed = compare_other_chains(la, P["leaves"], j, chains)
            res.outcome("independence", "unaffected" if not bad else "affected", "perturbed-changed" if changed else "perturbed-unchanged")
            if bad:
                viol("independence", f"perturbing-one-chain-changes-another", f"changing the initial value of chain {j} changed {len(bad)} leaves of other chains, first {bad[:3]}", {"perturbed": j, "leaves": bad[:10]})
            if not changed:
                # the supplied per-chain initial value of chain j had no influence on chain j at all:
                # its initial value is not honoured (kernels in the lattice all depend on their start)
                viol("initial-values", "own-initial-value-has-no-effect", f"changing the initial value of chain {j} changed nothing in chain {j}: the supplied initial value of that chain is not used", {"perturbed": j})
    res.executions += runs
    res.note([cls, shape, case["seed"], core.digest({k: v.tobytes().hex()[:64] + str(v.shape) for k, v in la.items()})])
    res.sample({"case": case, "runs": runs, "leaves": len(la), "keys": len(keys) if tracer else None}, limit=1)


_SPLIT = {}


def _split_fn():
    """children(keys[n,2]) -> dict m -> array [n, m, 2] using the real jax.random.split."""
    if _SPLIT:
        return _SPLIT["f"]
    L = lib()
    jax, jnp = L["jax"], L["jnp"]
    import numpy as np

    fns = {m: jax.jit(jax.vmap(lambda k, m=m: jax.random.split(k, m))) for m in (1, 2, 3, 4)}

    def children(keys):
        keys = np.asarray(keys, dtype=np.uint32).reshape(-1, 2)
        # pad to a power of two to bound the number of compilations
        n = len(keys)
        p = 1
        while p < n:
            p *= 2
        pad = np.zeros((p, 2), np.uint32)
        pad[:n] = keys
        return {m: np.asarray(f(jnp.asarray(pad)))[:n] for m, f in fns.items()}

    _SPLIT["f"] = children
    return children


def _leaf_digests(leaves):
    import hashlib

    return {k: hashlib.sha256(f"{v.dtype}{v.shape}".encode() + v.tobytes()).hexdigest()[:20] for k, v in leaves.items()}


def _jittered_names(case):
    return ref.jittered_names(case)


def run_xproc_unit(res, unit):
    """
    "Two runs with identical seed ... produce bit-identical results" across interpreters:
    the same configurations are run in this process and in fresh Python processes whose
    string hashing differs (PYTHONHASHSEED), i.e. what re-running a script means. The
    hash seeds are chosen by enumeration so that set(<jittered position keys>) iterates
    in pairwise different orders (up to 3 processes).
    """
    import json
    import subprocess
    import sys

    cases = unit["cases"]
    names = [_jittered_names(c) for c in cases]
    probe = "import json,sys; print(json.dumps([list(set(n)) for n in json.loads(sys.argv[1])]))"
    here = json.dumps([list(set(n)) for n in names])
    chosen, seen_orders = [], {here}
    for k in range(1, 60):
        env = {**os.environ, "PYTHONHASHSEED": str(k)}
        out = subprocess.run([sys.executable, "-c", probe, json.dumps(names)], env=env, capture_output=True, text=True, check=True).stdout.strip()
        if out not in seen_orders:
            seen_orders.add(out)
            chosen.append(k)
        if len(chosen) == 3:
            break
    if len(chosen) < 2:
        raise RuntimeError("could not find PYTHONHASHSEED values with different set orders")
    procs = []
    for k in chosen:
        env = {**os.environ, "PYTHONHASHSEED": str(k), "VERIF_REPO": os.environ.get("VERIF_REPO", "/repo")}
        procs.append(subprocess.Popen([sys.executable, "-m", "mc.checks.c10", "--xproc", json.dumps(cases)], cwd=core.VERIF, env=env, stdout=subprocess.PIPE, stderr=subprocess.PIPE, text=True))
    mine = []
    for case in cases:
        try:
            mine.append(_leaf_digests(run_engine(case, "int")["leaves"]))
        except LieselRaised as e:
            for pr in procs:
                pr.kill()
            res.violation("engine-raises", f"{e.stage}-{case['init']}-raises-{type(e.exc).__name__}-in-{e.where.split(':')[-1]}", dict(case), f"liesel raised during {e.stage} on a valid configuration: {e.exc!r} ({e.where})")
            return
    res.states += len(cases)
    res.executions += len(cases)
    for k, pr in zip(chosen, procs):
        out, err = pr.communicate(timeout=900)
        line = [l for l in out.splitlines() if l.startswith("XPROC ")]
        if pr.returncode != 0 or not line:
            raise RuntimeError(f"cross-interpreter worker (PYTHONHASHSEED={k}) failed: rc={pr.returncode} {err[-1500:]}")
        theirs = json.loads(line[0][6:])
        for ci, case in enumerate(cases):
            res.executions += 1
            a, b = mine[ci], theirs[ci]
            bad = sorted(kk for kk in set(a) | set(b) if a.get(kk) != b.get(kk))
            res.outcome("cross-interpreter", case["kind"], "equal" if not bad else "differs")
            if bad:
                c = dict(case)
                c["detail"] = {"PYTHONHASHSEED": k, "leaves": bad[:10]}
                res.violation(
                    "reproducibility",
                    f"differs-across-interpreters-{case['kind']}-{len(_jittered_names(case))}-jittered-keys",
                    c,
                    f"the same configuration (seed {case['seed']}, {case['kind']} kernels, key-using jitter on {_jittered_names(case)}) run in a fresh interpreter with PYTHONHASHSEED={k} differs from this process in {len(bad)} leaves, first {bad[:3]}",
                )
    res.extra["hash_orders_compared"] = len(chosen) + 1
    res.note([cases, mine])
    res.sample({"cross_interpreter_cases": cases, "hash_seeds": chosen}, limit=1)


def _xproc_main(argv):
    import json

    cases = json.loads(argv[argv.index("--xproc") + 1])
    core.assert_repo()
    lib()
    from mc.seams import quiet

    out = []
    with quiet():
        for case in cases:
            out.append(_leaf_digests(run_engine(case, "int")["leaves"]))
    print("XPROC " + json.dumps(out))


def run_unit(unit):
    core.assert_repo()
    res = core.UnitResult(unit)
    if unit.get("kind") == "xproc":
        from mc.seams import quiet as _q

        lib()
        with _q():
            run_xproc_unit(res, unit)
        return res
    from mc.seams import quiet

    import time

    t0 = time.process_time()
    lib()  # imports liesel (which configures its loggers) before they are silenced
    with quiet():
        for case in unit["cases"]:
            check_case(res, case)
    res.extra["cpu_s"] = round(time.process_time() - t0, 1)
    return res


if __name__ == "__main__":
    import sys as _sys

    if "--xproc" in _sys.argv:
        _xproc_main(_sys.argv)
