"""
C05 - Metropolis-Hastings acceptance rule of liesel.goose.mh.mh_step and of the kernels
that call it (MHKernel, RWKernel, IWLSKernel).

Full products over small alphabets of current / proposed log-density, log-correction
and uniform draw, executed on the real code
  * eagerly (jax.disable_jit) with the uniform draw scripted through mc.seams,
  * under jax.jit and jax.jit(jax.vmap) with the scripted draw fed in as a traced value,
  * with un-patched real PRNG keys, among them PRNGKey(14620119) whose uniform draw is
    exactly 0.0 (verified by enumeration), eagerly, under jit and under vmap.
Oracle: mc/ref/c05_mh.py (the rule as stated) + leaf-by-leaf bit comparison of states.
"""

from __future__ import annotations

import itertools
import math

from mc import core
from mc.ref import c05_mh as ref

PROPERTY = "C05"
RULE = (
    "case = (caller, mode, state variant, current lp, proposed lp, log-correction, u); "
    "full product of the alphabets for mh_step on a DictInterface whose state carries its "
    "own log-density and for MHKernel.transition (standard and adaptive branch); lattices "
    "of (current x, proposed x, correction, u) for a Liesel model with a hard support "
    "boundary and of (x, scripted normal z, step size, u) for RWKernel / IWLSKernel on a "
    "target with a -inf and a NaN region; real keys (u = 0.0 key and VERIF_SEED-labelled "
    "keys) x the lp/correction product x {eager, jit, vmap}. Distinct outcome = (caller, "
    "mode, regime of the reference ratio [nan / zero / interior / one], accepted or "
    "rejected, u == 0)."
)
ASSUMPTIONS = [
    "alphabet values are exactly representable in float32, so the log ratio is exact; the reported acceptance probability is compared with float64 exp() with tolerance 5e-6 (lp-carrying states) resp. 5e-5 (Liesel model, kernels, IWLS double well: observed float32 noise 1.2e-6); exact 0 / exact 1 / error codes / decisions / states are compared exactly",
    "the accept/reject decision is judged against the REPORTED acceptance probability (after that was checked against the reference), so float32 underflow of exp() to 0 is treated as probability zero: never accepted",
    "u == alpha exactly in (0,1): either outcome allowed (does not occur on these alphabets except by design at alpha in {0,1})",
    "scripted uniform draws replace jax.random.uniform (seam consumption asserted: exactly one uniform per mh_step); under jit/vmap the scripted value is a traced argument",
    "'state updated with the proposal' = model.update_state(proposal, state) evaluated by the harness outside mh_step; update_state itself is C03's subject",
    "IWLSKernel: the value of the correction is C06's subject; here only the decision-level rule relative to the reported probability, the error code pass-through, the states and the forced rejections outside the support are checked",
    "jax.jit / jax.vmap semantics trusted except for the compared results",
]

LP = ["-inf", "-200", "-20", "-3", "0", "2", "inf", "nan"]
CORR = ["-inf", "-1", "0", "1", "inf", "nan"]
U = [0.0, 2.0**-24, 0.3, 1.0 - 2.0**-24]
ZERO_KEY = 14620119
TOL_EXACT = 5e-6
TOL_MODEL = 5e-5


def bounds(tier):
    q = tier == "quick"
    return {
        "lp_alphabet": LP,
        "correction_alphabet": CORR,
        "u_alphabet": U,
        "state_variants": ["plain", "nonfinite-leaves"],
        "real_keys": 1 + 1 + (6 if q else 30),
        "real_key_op_by_op": "full lp x lp x correction product for the u = 0.0 key; sub-product {0,-inf} x {-inf,-3,2,nan} x {0,nan} for the other keys; jit and vmap: full product for every key",
        "zero_uniform_key": ZERO_KEY,
        "modes": ["eager-scripted", "jit-scripted", "vmap-scripted", "eager-realkey", "jit-realkey", "vmap-realkey"],
        "liesel_lattice": {"x_current": LIESEL_CUR, "x_proposed": [str(v) for v in LIESEL_PROP], "correction": CORR, "u": U},
        "rw_lattice": {"x": RW_X, "z": RW_Z if q else RW_Z_T, "step": RW_S, "u": U},
        "iwls_lattice": {"x": IWLS_X, "z": IWLS_Z if q else IWLS_Z_T, "step": IWLS_S, "u": U},
        "iwls_double_well_lattice": {"x": DW_X, "z": DW_Z if q else DW_Z_T, "step": DW_S, "u": U, "target": "-(x^2-1)^2"},
        "key_discipline": "eager kernel units: the uniform draw deciding acceptance must not share its PRNG key with another draw of the same transition",
    }


LIESEL_CUR = [0.5, 0.25, 1.0, 2.0]
LIESEL_PROP = [-0.5, 0.0, 0.25, 0.75, 1.0, 1.5, "nan"]
RW_X = [0.5, 1.0, 3.0, -1.0]
RW_Z = [-3.0, -1.0, -0.5, 0.5, 1.0, 3.0]
RW_Z_T = [-5.0, -3.0, -2.0, -1.0, -0.5, -0.25, 0.25, 0.5, 1.0, 2.0, 3.0, 5.0]
RW_S = [1.0, 0.5]
IWLS_X = [0.5, 1.0, 2.0]
IWLS_Z = [-3.0, -1.25, 0.75, 1.5, 4.0]
IWLS_Z_T = [-5.0, -3.0, -2.0, -1.25, -0.625, 0.75, 1.5, 2.0, 4.0, 6.0]
IWLS_S = [1.0, 0.5]
DW_X = [1.0, 0.85, -1.25, 0.25]
DW_Z = [-3.0, -2.0, -1.0, -0.5, 0.5, 1.0, 2.0]
DW_Z_T = [-4.0, -3.0, -2.75, -2.0, -1.5, -1.0, -0.5, -0.25, 0.25, 0.5, 1.0, 1.5, 2.0, 3.0]
DW_S = [1.0, 0.5]
TOL_DW = 5e-5


def units(tier, seed):
    q = tier == "quick"
    us = []
    # mh_step, lp-carrying DictInterface state, eager + scripted uniform
    for pair in (LP[0:2], LP[2:4], LP[4:6], LP[6:8]):
        us.append({"kind": "dict", "mode": "eager-scripted", "cur": pair})
    us.append({"kind": "dict", "mode": "jit-scripted", "cur": LP})
    # real, un-patched keys. Op-by-op execution of mh_step outside jit re-compiles both
    # lax.cond calls on every call (~60 ms), so the op-by-op mode runs the full lp x lp x
    # correction product only for the u = 0.0 key and a sub-product for the other keys;
    # jit and vmap run the full product for every key.
    nkeys = 6 if q else 30
    for half in (LP[0:4], LP[4:8]):
        us.append({"kind": "dict-realkey", "keys": [["raw", ZERO_KEY]], "eager": "full", "cur": half})
    keys = [["typed", ZERO_KEY]] + [["raw", 1000 * (seed + 1) + i] for i in range(nkeys)]
    for k in range(1 if q else 4):
        us.append({"kind": "dict-realkey", "keys": keys[k::(1 if q else 4)], "eager": "sub", "cur": LP})
    # MHKernel as caller: full product through transition(), both branches
    for epoch in ("BURNIN", "FAST_ADAPTATION"):
        for pair in (LP[0:4], LP[4:8]):
            us.append({"kind": "mhkernel", "mode": "eager-scripted", "epoch": epoch, "cur": pair})
    us.append({"kind": "mhkernel", "mode": "jit-scripted", "epoch": "POSTERIOR", "cur": LP})
    us.append({"kind": "mhkernel", "mode": "jit-scripted", "epoch": "SLOW_ADAPTATION", "cur": LP})
    # Liesel model with a hard support boundary
    for xc in LIESEL_CUR:
        us.append({"kind": "liesel", "x_current": xc, "key": ZERO_KEY})
    # RW / IWLS kernels as callers
    for ep in ("POSTERIOR", "FAST_ADAPTATION"):
        us.append({"kind": "rw", "epoch": ep, "tier": tier})
    us.append({"kind": "iwls", "epoch": "POSTERIOR", "tier": tier})
    us.append({"kind": "iwls", "epoch": "FAST_ADAPTATION", "tier": tier})
    # IWLS on a smooth double well: proposals landing where the information matrix is
    # indefinite have an undefined ratio (code 90, alpha 0, rejected)
    for ep in ("POSTERIOR", "FAST_ADAPTATION"):
        for st in DW_S:
            us.append({"kind": "iwls-dw", "epoch": ep, "step": st, "tier": tier})
    return us


# ---------------------------------------------------------------------------------
# helpers
# ---------------------------------------------------------------------------------


class Violations:
    """De-duplicates on (check, sig) inside a unit."""

    def __init__(self, res):
        self.res = res
        self.seen = set()

    def __call__(self, check, sig, case, msg):
        if (check, sig) not in self.seen:
            self.seen.add((check, sig))
            self.res.violation(check, sig, case, msg)


def leaves_equal(a, b) -> bool:
    """Same tree structure and every leaf bit-identical (dtype, shape, bytes) after both
    sides went through jnp.asarray (a Python scalar leaf of a Liesel model state comes
    back from lax.cond / jit as the equal JAX array of the canonical dtype)."""
    import jax
    import jax.numpy as jnp
    import numpy as np

    la, ta = jax.tree_util.tree_flatten(a)
    lb, tb = jax.tree_util.tree_flatten(b)
    if ta != tb:
        return False
    for x, y in zip(la, lb):
        x, y = np.asarray(jnp.asarray(x)), np.asarray(jnp.asarray(y))
        if x.dtype != y.dtype or x.shape != y.shape or x.tobytes() != y.tobytes():
            return False
    return True


def ulabel(u):
    if u == 0.0:
        return "u0"
    if u == 2.0**-24:
        return "u2^-24"
    if u == 1.0 - 2.0**-24:
        return "u1-2^-24"
    return f"u{u:.4g}"


def judge(V, res, check, mode, case, u, lps, info, out_state, in_state, up_state, tol, exact=True, must_reject=False):
    """
    Evaluates the rule on one execution.

    lps = (current, proposed, correction) as Python floats for the reference (exact=True)
    or None (exact=False: only the decision-level rule relative to the reported alpha).
    """
    code = int(info[0])
    alpha = float(info[1])
    moved = bool(info[2])
    res.executions += 1
    res.transitions += 1
    alpha_ok = (not math.isnan(alpha)) and 0.0 <= alpha <= 1.0
    if not alpha_ok:
        V(check, f"{mode}:alpha-outside-[0,1]", case, f"reported acceptance probability {alpha} is not in [0,1] ({case})")
    regime = "?"
    if exact:
        cur, prop, corr = lps
        want = ref.rule(cur, prop, corr)
        regime = want["regime"]
        if code != want["code"]:
            V(check, f"{mode}:error-code-{regime}", case, f"error code {code}, expected {want['code']} for log ratio {want['r']} ({case})")
        if regime in ("nan", "zero") and alpha != 0.0:
            V(check, f"{mode}:alpha-not-0-{regime}", case, f"acceptance probability {alpha} reported, expected exactly 0 for log ratio {want['r']} ({case})")
        elif regime == "one" and alpha != 1.0:
            V(check, f"{mode}:alpha-not-1", case, f"acceptance probability {alpha} reported, expected exactly 1 for log ratio {want['r']} ({case})")
        elif regime == "interior" and not (abs(alpha - want["alpha"]) <= tol):
            V(check, f"{mode}:alpha-value", case, f"acceptance probability {alpha} reported, expected exp({want['r']}) = {want['alpha']} ({case})")
    else:
        if code not in (0, ref.NAN_CODE):
            V(check, f"{mode}:error-code-unknown", case, f"error code {code} is neither 0 nor 90 ({case})")
        if code == ref.NAN_CODE and alpha != 0.0:
            V(check, f"{mode}:alpha-not-0-nan", case, f"error code 90 with acceptance probability {alpha} ({case})")
        regime = "nan" if code == ref.NAN_CODE else "zero" if alpha == 0.0 else "one" if alpha == 1.0 else "interior"
        if must_reject and alpha != 0.0:
            V(check, f"{mode}:alpha-not-0-outside-support", case, f"proposal outside the support / in the NaN region but acceptance probability {alpha} ({case})")

    same_in = leaves_equal(out_state, in_state)
    same_up = leaves_equal(out_state, up_state)
    if same_in and same_up:
        raise RuntimeError(f"harness: proposal does not change the state, cannot tell accept from reject: {case}")
    if not same_in and not same_up:
        V(check, f"{mode}:state-neither-input-nor-updated" + ("-moved" if moved else "-not-moved"), case, f"returned state is neither the input state nor update_state(proposal, state); moved flag {moved} ({case})")
        accepted = moved
    else:
        accepted = same_up
    if moved != accepted:
        V(check, f"{mode}:moved-flag", case, f"position_moved = {moved} but the returned state is the {'updated' if accepted else 'input'} state ({case})")

    # decision: strict part from the reference regime, the rest from the reported alpha
    strict = {"nan": False, "zero": False, "one": True}.get(regime) if exact else (False if (must_reject or code == ref.NAN_CODE) else None)
    if strict is False and accepted:
        V(check, f"{mode}:accept-at-alpha0-{ulabel(u)}", case, f"proposal with acceptance probability 0 ({'undefined ratio' if regime == 'nan' else 'zero ratio'}) was ACCEPTED at uniform draw {u} ({case})")
    elif strict is True and not accepted:
        V(check, f"{mode}:reject-at-alpha1-{ulabel(u)}", case, f"proposal with acceptance probability 1 was REJECTED at uniform draw {u} ({case})")
    elif alpha_ok:
        d = ref.decision(alpha, u)
        if d is True and not accepted:
            V(check, f"{mode}:rejected-with-u<alpha" + ("-alpha1" if alpha == 1.0 else ""), case, f"u = {u} < reported alpha = {alpha} but the proposal was rejected ({case})")
        if d is False and accepted:
            V(check, f"{mode}:accepted-with-u>=alpha" + ("-alpha0-" + ulabel(u) if alpha == 0.0 else ""), case, f"u = {u} >= reported alpha = {alpha} but the proposal was accepted ({case})")
    res.outcome(check, mode, regime, "accepted" if accepted else "rejected", "u0" if u == 0.0 else "")
    return accepted


def _states(variant):
    import jax.numpy as jnp
    import numpy as np

    if variant == "plain":
        st = {"x": jnp.array([1.0, 2.0], dtype=jnp.float32), "n": jnp.array([1, 2, 3], dtype=jnp.int32)}
        px = jnp.array([5.0, 6.0], dtype=jnp.float32)
    else:
        st = {"x": jnp.array([np.nan, -np.inf], dtype=jnp.float32), "n": jnp.array([0, -1, 7], dtype=jnp.int32)}
        px = jnp.array([np.inf, -0.0], dtype=jnp.float32)
    return st, px


def _f32(x):
    import jax.numpy as jnp

    return jnp.asarray(float(x), dtype=jnp.float32)


def _info_tuple(info):
    import numpy as np

    return (np.asarray(info.error_code), np.asarray(info.acceptance_prob), np.asarray(info.position_moved))


def _mk_key(form, i):
    import jax

    return jax.random.PRNGKey(i) if form == "raw" else jax.random.key(i)


# ---------------------------------------------------------------------------------
# mh_step on the lp-carrying DictInterface
# ---------------------------------------------------------------------------------


def run_dict(unit, res):
    import jax
    import jax.numpy as jnp
    import numpy as np
    import liesel.goose as gs
    from liesel.goose.mh import mh_step
    from mc.seams import ScriptedPRNG

    V = Violations(res)
    model = gs.DictInterface(lambda s: s["lp"])
    key = jax.random.PRNGKey(0)  # label only: the uniform draw is scripted
    mode = unit["mode"]
    combos = list(itertools.product(unit["cur"], LP, CORR, U))
    res.states += len(combos) * 2

    if mode == "eager-scripted":
        for variant in ("plain", "nonfinite"):
            base, px = _states(variant)
            for cur, prop, corr, u in combos:
                state = {"lp": _f32(cur), **base}
                proposal = {"lp": _f32(prop), "x": px}
                up = model.update_state(proposal, state)
                case = {"variant": variant, "current": cur, "proposed": prop, "correction": corr, "u": u}
                with jax.disable_jit():
                    with ScriptedPRNG([np.float32(u)]) as sp:
                        info, out = mh_step(key, model, proposal, state, float(corr))
                sp.assert_consumed()
                if [e["fn"] for e in sp.log] != ["uniform"] or sp.log[0]["shape"] != ():
                    raise RuntimeError(f"unexpected draws in mh_step: {sp.log}")
                judge(V, res, "mh_step", mode, case, float(np.float32(u)), (float(cur), float(prop), float(corr)), _info_tuple(info), out, state, up, TOL_EXACT)
        res.note([unit, sorted(res.outcomes)])
        res.sample({"kind": "dict", "mode": mode, "cases": len(combos) * 2, "example": combos[len(combos) // 3]})
        return

    # jit / vmap with the scripted draw as a traced argument
    traces = []

    def f(u, proposal, state, c):
        with ScriptedPRNG([u]) as sp:
            out = mh_step(key, model, proposal, state, c)
        sp.assert_consumed()
        traces.append([e["fn"] for e in sp.log])
        return out

    jf = jax.jit(f)
    vf = jax.jit(jax.vmap(f))
    for variant in ("plain", "nonfinite"):
        base, px = _states(variant)
        us, props, states, cs = [], [], [], []
        for cur, prop, corr, u in combos:
            state = {"lp": _f32(cur), **base}
            proposal = {"lp": _f32(prop), "x": px}
            us.append(_f32(u)); props.append(proposal); states.append(state); cs.append(_f32(corr))
            up = model.update_state(proposal, state)
            case = {"variant": variant, "current": cur, "proposed": prop, "correction": corr, "u": u}
            info, out = jf(us[-1], proposal, state, cs[-1])
            judge(V, res, "mh_step", "jit-scripted", case, float(np.float32(u)), (float(cur), float(prop), float(corr)), _info_tuple(info), out, state, up, TOL_EXACT)
        stack = lambda trees: jax.tree_util.tree_map(lambda *xs: jnp.stack(xs), *trees)
        infos, outs = vf(jnp.stack(us), stack(props), stack(states), jnp.stack(cs))
        infos = _info_tuple(infos)
        outs = jax.tree_util.tree_map(np.asarray, outs)
        for i, (cur, prop, corr, u) in enumerate(combos):
            up = model.update_state(props[i], states[i])
            case = {"variant": variant, "current": cur, "proposed": prop, "correction": corr, "u": u, "vmap_index": i}
            out = {k: jnp.asarray(v[i]) for k, v in outs.items()}
            judge(V, res, "mh_step", "vmap-scripted", case, float(np.float32(u)), (float(cur), float(prop), float(corr)), tuple(a[i] for a in infos), out, states[i], up, TOL_EXACT)
    if not traces or any(t != ["uniform"] for t in traces):
        raise RuntimeError(f"seam did not see exactly one uniform draw per trace: {traces}")
    res.note([unit, sorted(res.outcomes)])
    res.sample({"kind": "dict", "mode": mode, "cases": len(combos) * 4, "compilations": len(traces)})


def run_dict_realkey(unit, res):
    import jax
    import jax.numpy as jnp
    import numpy as np
    import liesel.goose as gs
    from liesel.goose.mh import mh_step
    from mc.seams import find_zero_uniform_key

    found = find_zero_uniform_key()
    if found != ZERO_KEY:
        raise RuntimeError(f"smallest PRNGKey with uniform draw 0.0 is {found}, the units use {ZERO_KEY}")
    V = Violations(res)
    model = gs.DictInterface(lambda s: s["lp"])
    base, px = _states("plain")
    combos = list(itertools.product(unit["cur"], LP, CORR))
    sub = set(itertools.product(["0", "-inf"], ["-inf", "-3", "2", "nan"], ["0", "nan"]))
    n_eager = 0
    jf = jax.jit(lambda k, p, s, c: mh_step(k, model, p, s, c))
    vf = jax.jit(jax.vmap(lambda k, p, s, c: mh_step(k, model, p, s, c), in_axes=(None, 0, 0, 0)))
    stack = lambda trees: jax.tree_util.tree_map(lambda *xs: jnp.stack(xs), *trees)
    us_seen = []
    for form, i in unit["keys"]:
        key = _mk_key(form, i)
        u = float(jax.random.uniform(key))  # un-patched; the draw mh_step will see
        us_seen.append(u)
        if i == ZERO_KEY and u != 0.0:
            raise RuntimeError("the zero key does not draw 0.0")
        res.states += len(combos)
        props, states, cs = [], [], []
        for cur, prop, corr in combos:
            state = {"lp": _f32(cur), **base}
            proposal = {"lp": _f32(prop), "x": px}
            props.append(proposal); states.append(state); cs.append(_f32(corr))
            up = model.update_state(proposal, state)
            case = {"key": [form, i], "u": u, "current": cur, "proposed": prop, "correction": corr}
            lps = (float(cur), float(prop), float(corr))
            if unit["eager"] == "full" or (cur, prop, corr) in sub:
                info, out = mh_step(key, model, proposal, state, float(corr))
                judge(V, res, "mh_step", "eager-realkey", case, u, lps, _info_tuple(info), out, state, up, TOL_EXACT)
                n_eager += 1
                if n_eager % 64 == 0:
                    jax.clear_caches()  # every op-by-op lax.cond leaves a compiled executable behind
            info, out = jf(key, proposal, state, cs[-1])
            judge(V, res, "mh_step", "jit-realkey", case, u, lps, _info_tuple(info), out, state, up, TOL_EXACT)
        infos, outs = vf(key, stack(props), stack(states), jnp.stack(cs))
        infos = _info_tuple(infos)
        outs = jax.tree_util.tree_map(np.asarray, outs)
        for j, (cur, prop, corr) in enumerate(combos):
            up = model.update_state(props[j], states[j])
            out = {k: jnp.asarray(v[j]) for k, v in outs.items()}
            case = {"key": [form, i], "u": u, "current": cur, "proposed": prop, "correction": corr, "vmap_index": j}
            judge(V, res, "mh_step", "vmap-realkey", case, u, (float(cur), float(prop), float(corr)), tuple(a[j] for a in infos), out, states[j], up, TOL_EXACT)
    res.note([unit, us_seen, sorted(res.outcomes)])
    res.extra["real_keys"] = len(unit["keys"])
    res.sample({"kind": "dict-realkey", "keys": unit["keys"][:3], "uniforms": us_seen[:3]})


# ---------------------------------------------------------------------------------
# MHKernel as caller (full product through transition())
# ---------------------------------------------------------------------------------


def run_mhkernel(unit, res):
    import jax
    import jax.numpy as jnp
    import numpy as np
    import liesel.goose as gs
    from liesel.goose.epoch import EpochConfig, EpochType
    from liesel.goose.mh_kernel import MHProposal
    from mc.seams import ScriptedPRNG

    V = Violations(res)
    model = gs.DictInterface(lambda s: s["lp"])

    def proposal_fn(key, model_state, step_size):
        return MHProposal({"lp": model_state["plp"], "x": model_state["px"]}, model_state["c"])

    kernel = gs.MHKernel(["lp", "x"], proposal_fn, da_tune_step_size=True)
    kernel.set_model(model)
    epoch = EpochConfig(EpochType[unit["epoch"]], 10, 1, None).to_state(1, 1)
    key = jax.random.PRNGKey(1)
    base, px = _states("plain")
    combos = list(itertools.product(unit["cur"], LP, CORR, U))
    res.states += len(combos)
    mode = unit["mode"] + ":" + unit["epoch"]

    def mk(cur, prop, corr):
        state = {"lp": _f32(cur), **base, "plp": _f32(prop), "px": px, "c": _f32(corr)}
        up = model.update_state({"lp": state["plp"], "x": px}, state)
        return state, up

    if unit["mode"] == "eager-scripted":
        for cur, prop, corr, u in combos:
            state, up = mk(cur, prop, corr)
            ks = kernel.init_state(key, state)
            case = {"epoch": unit["epoch"], "current": cur, "proposed": prop, "correction": corr, "u": u}
            with jax.disable_jit():
                with ScriptedPRNG([np.float32(u)]) as sp:
                    out = kernel.transition(key, ks, state, epoch)
            sp.assert_consumed()
            judge(V, res, "MHKernel", mode, case, float(np.float32(u)), (float(cur), float(prop), float(corr)), _info_tuple(out.info), out.model_state, state, up, TOL_EXACT)
    else:
        traces = []

        def f(u, ks, state):
            with ScriptedPRNG(lambda fn, i, shape, info: u) as sp:
                out = kernel.transition(key, ks, state, epoch)
            traces.append([e["fn"] for e in sp.log])
            return out.info, out.model_state

        jf = jax.jit(f)
        for cur, prop, corr, u in combos:
            state, up = mk(cur, prop, corr)
            ks = kernel.init_state(key, state)
            case = {"epoch": unit["epoch"], "current": cur, "proposed": prop, "correction": corr, "u": u}
            info, out = jf(_f32(u), ks, state)
            judge(V, res, "MHKernel", mode, case, float(np.float32(u)), (float(cur), float(prop), float(corr)), _info_tuple(info), out, state, up, TOL_EXACT)
        # lax.cond traces both branches of TransitionMixin.transition: one uniform each
        if not traces or any(set(t) != {"uniform"} for t in traces):
            raise RuntimeError(f"unexpected draws while tracing MHKernel.transition: {traces}")
    res.note([unit, sorted(res.outcomes)])
    res.sample({"kind": "mhkernel", "mode": mode, "cases": len(combos)})


# ---------------------------------------------------------------------------------
# Liesel model with a hard support boundary
# ---------------------------------------------------------------------------------


def _liesel_model():
    import jax.numpy as jnp
    import liesel.goose as gs
    import liesel.model as lsl
    import tensorflow_probability.substrates.jax.distributions as tfd

    x = lsl.Var(0.5, lsl.Dist(tfd.Uniform, low=0.0, high=1.0), name="x")
    x.parameter = True
    mu = lsl.Var(lsl.Calc(lambda x: 3.0 * x, x), name="mu")
    y = lsl.Var(jnp.array([1.0, 2.0]), lsl.Dist(tfd.Normal, loc=mu, scale=1.0), name="y")
    y.observed = True
    model = lsl.GraphBuilder().add(y).build_model()
    return model, gs.LieselInterface(model)


def run_liesel(unit, res):
    import jax
    import numpy as np
    from liesel.goose.mh import mh_step
    from mc.seams import ScriptedPRNG, quiet

    V = Violations(res)
    with quiet():
        model, iface = _liesel_model()
    xc = unit["x_current"]
    state = iface.update_state({"x": _f32(xc)}, model.state)
    lp_cur = ref.liesel_lp(float(np.float32(xc)))
    got = float(iface.log_prob(state))
    if not (got == lp_cur or abs(got - lp_cur) < 1e-4):
        raise RuntimeError(f"harness: Liesel test model log-density {got} != closed form {lp_cur} at x={xc}")
    key = jax.random.PRNGKey(0)
    zkey = jax.random.PRNGKey(unit["key"])
    if float(jax.random.uniform(zkey)) != 0.0:
        raise RuntimeError("the zero key does not draw 0.0")
    traces = []

    def f(u, proposal, st, c):
        with ScriptedPRNG([u]) as sp:
            out = mh_step(key, iface, proposal, st, c)
        sp.assert_consumed()
        traces.append(1)
        return out

    jf = jax.jit(f)
    jz = jax.jit(lambda proposal, st, c: mh_step(zkey, iface, proposal, st, c))
    props = [p for p in LIESEL_PROP if float(p) != xc]
    res.states += len(props) * len(CORR) * (len(U) + 1)
    for xp in props:
        proposal = {"x": _f32(xp)}
        up = iface.update_state(proposal, state)
        lp_prop = ref.liesel_lp(float(np.float32(float(xp))))
        for corr in CORR:
            lps = (lp_cur, lp_prop, float(corr))
            for u in U:
                case = {"x_current": xc, "x_proposed": str(xp), "correction": corr, "u": u}
                with jax.disable_jit():
                    with ScriptedPRNG([np.float32(u)]) as sp:
                        info, out = mh_step(key, iface, proposal, state, float(corr))
                sp.assert_consumed()
                judge(V, res, "mh_step-liesel", "eager-scripted", case, float(np.float32(u)), lps, _info_tuple(info), out, state, up, TOL_MODEL)
                info, out = jf(_f32(u), proposal, state, _f32(corr))
                judge(V, res, "mh_step-liesel", "jit-scripted", case, float(np.float32(u)), lps, _info_tuple(info), out, state, up, TOL_MODEL)
            case = {"x_current": xc, "x_proposed": str(xp), "correction": corr, "key": unit["key"], "u": 0.0}
            info, out = mh_step(zkey, iface, proposal, state, float(corr))
            judge(V, res, "mh_step-liesel", "eager-realkey", case, 0.0, lps, _info_tuple(info), out, state, up, TOL_MODEL)
            info, out = jz(proposal, state, _f32(corr))
            judge(V, res, "mh_step-liesel", "jit-realkey", case, 0.0, lps, _info_tuple(info), out, state, up, TOL_MODEL)
    if len(traces) != 1:
        raise RuntimeError(f"expected one compilation of the scripted jit function, saw {len(traces)}")
    res.note([unit, sorted(res.outcomes)])
    res.sample({"kind": "liesel", "x_current": xc, "lp_current": lp_cur, "proposals": [str(p) for p in props]})


# ---------------------------------------------------------------------------------
# RWKernel / IWLSKernel as callers
# ---------------------------------------------------------------------------------


def _boundary_model():
    import jax.numpy as jnp
    import liesel.goose as gs

    def lp(state):
        x = state["x"]
        return jnp.where(x > 4.0, jnp.nan, jnp.where(x > 0.0, -0.5 * x * x, -jnp.inf))

    return gs.DictInterface(lp)


def _script(z, u, counts):
    def script(fn, i, shape, info):
        counts[fn] = counts.get(fn, 0) + 1
        if fn == "normal":
            return z
        if fn == "uniform":
            return u
        raise RuntimeError(f"unexpected draw {fn}")

    return script


def _key_discipline(V, check, mode, sp, case):
    """Premise of the rule 'accepted iff u < alpha' with u ~ U(0,1) independent of the
    proposal: the uniform draw must not reuse the key of another draw of the transition."""
    keys = [k for k in sp.keys]
    if any(k is None for k in keys):
        raise RuntimeError("seam could not record a concrete PRNG key in eager mode")
    if sp.duplicate_keys():
        fns = [e["fn"] for e in sp.log]
        V(check, f"{mode}:accept-draw-shares-key", case, f"draws {fns} of one transition used the same PRNG key: the uniform draw deciding acceptance is a function of the proposal draw ({case})")


def run_rw(unit, res):
    import jax
    import jax.numpy as jnp
    import numpy as np
    import liesel.goose as gs
    from liesel.goose.epoch import EpochConfig, EpochType
    from mc.seams import ScriptedPRNG

    V = Violations(res)
    model = _boundary_model()
    kernel = gs.RWKernel(["x"])
    kernel.set_model(model)
    epoch = EpochConfig(EpochType[unit["epoch"]], 10, 1, None).to_state(1, 1)
    key = jax.random.PRNGKey(2)
    zs = RW_Z if unit["tier"] == "quick" else RW_Z_T
    mode = "eager-scripted:" + unit["epoch"]
    for x0, z, s, u in itertools.product(RW_X, zs, RW_S, U):
        res.states += 1
        state = {"x": _f32(x0), "n": jnp.array([1, 2], dtype=jnp.int32)}
        xp = float(np.float32(x0) + np.float32(s) * np.float32(z))  # exact in float32 on this lattice
        up = model.update_state({"x": _f32(xp)}, state)
        ks = kernel.init_state(key, state)
        ks.step_size = _f32(s)
        counts = {}
        case = {"epoch": unit["epoch"], "x": x0, "z": z, "step": s, "u": u, "x_proposed": xp}
        with jax.disable_jit():
            with ScriptedPRNG(_script(np.float32(z), np.float32(u), counts)) as sp:
                out = kernel.transition(key, ks, state, epoch)
        if counts != {"normal": 1, "uniform": 1}:
            raise RuntimeError(f"RWKernel drew {counts}")
        _key_discipline(V, "RWKernel", mode, sp, case)
        lps = (ref.boundary_lp(float(np.float32(x0))), ref.boundary_lp(xp), 0.0)
        judge(V, res, "RWKernel", mode, case, float(np.float32(u)), lps, _info_tuple(out.info), out.model_state, state, up, TOL_MODEL)
    res.note([unit, sorted(res.outcomes)])
    res.sample({"kind": "rw", "epoch": unit["epoch"], "cases": res.states})


def run_iwls(unit, res):
    import jax
    import jax.numpy as jnp
    import numpy as np
    import liesel.goose as gs
    from liesel.goose.epoch import EpochConfig, EpochType
    from mc.seams import ScriptedPRNG

    V = Violations(res)
    model = _boundary_model()
    kernel = gs.IWLSKernel(["x"])
    kernel.set_model(model)
    epoch = EpochConfig(EpochType[unit["epoch"]], 10, 1, None).to_state(1, 1)
    key = jax.random.PRNGKey(3)
    zs = IWLS_Z if unit["tier"] == "quick" else IWLS_Z_T
    mode = "eager-scripted:" + unit["epoch"]
    for x0, z, s, u in itertools.product(IWLS_X, zs, IWLS_S, U):
        res.states += 1
        state = {"x": _f32(x0), "n": jnp.array([1, 2], dtype=jnp.int32)}
        # target -x^2/2 on (0,4]: score -x, information 1 -> mean x (1 - s^2/2), sd s
        xp = x0 * (1.0 - s * s / 2.0) + s * z
        if min(abs(xp - 0.0), abs(xp - 4.0)) < 1e-3:
            raise RuntimeError("harness: IWLS lattice point too close to a support boundary")
        outside = not (0.0 < xp <= 4.0)
        ks = kernel.init_state(key, state)
        ks.step_size = _f32(s)
        counts = {}
        case = {"epoch": unit["epoch"], "x": x0, "z": z, "step": s, "u": u, "x_proposed_closed_form": xp}
        with jax.disable_jit():
            with ScriptedPRNG(_script(np.float32(z), np.float32(u), counts)) as sp:
                out = kernel.transition(key, ks, state, epoch)
        if counts != {"normal": 1, "uniform": 1}:
            raise RuntimeError(f"IWLSKernel drew {counts}")
        _key_discipline(V, "IWLSKernel", mode, sp, case)
        up = model.update_state({"x": _f32(xp)}, state)
        got = out.model_state
        if bool(out.info.position_moved) and abs(float(got["x"]) - xp) < 1e-4:
            up = model.update_state({"x": got["x"]}, state)  # float32 rounding of the proposal
        judge(V, res, "IWLSKernel", mode, case, float(np.float32(u)), None, _info_tuple(out.info), got, state, up, TOL_MODEL, exact=False, must_reject=outside)
    res.note([unit, sorted(res.outcomes)])
    res.sample({"kind": "iwls", "epoch": unit["epoch"], "cases": res.states})


def run_iwls_dw(unit, res):
    import jax
    import jax.numpy as jnp
    import numpy as np
    import liesel.goose as gs
    from liesel.goose.epoch import EpochConfig, EpochType
    from mc.seams import ScriptedPRNG

    V = Violations(res)
    model = gs.DictInterface(lambda st: -((st["x"] ** 2 - 1.0) ** 2))
    kernel = gs.IWLSKernel(["x"])
    kernel.set_model(model)
    epoch = EpochConfig(EpochType[unit["epoch"]], 10, 1, None).to_state(1, 1)
    key = jax.random.PRNGKey(4)
    zs = DW_Z if unit["tier"] == "quick" else DW_Z_T
    s = unit["step"]
    mode = "eager-scripted:" + unit["epoch"]
    n_undef = 0
    for x0, z, u in itertools.product(DW_X, zs, U):
        res.states += 1
        state = {"x": _f32(x0), "n": jnp.array([1, 2], dtype=jnp.int32)}
        xp = ref.dw_proposal(x0, s, z)
        f_prop = ref.dw_info(xp)
        if not math.isnan(xp) and abs(f_prop) < 0.5:
            raise RuntimeError(f"harness: double-well lattice point x'={xp} too close to the edge of the indefinite region")
        corr = ref.dw_correction(x0, xp, s)
        lps = (ref.dw_lp(x0), ref.dw_lp(xp), corr)
        where = "current-indefinite" if math.isnan(xp) else "proposal-indefinite" if f_prop <= 0.0 else "both-definite"
        if math.isnan(corr) != (where != "both-definite"):
            raise RuntimeError("harness: reference correction inconsistent with the information matrices")
        n_undef += where != "both-definite"
        ks = kernel.init_state(key, state)
        ks.step_size = _f32(s)
        counts = {}
        case = {"target": "double-well", "epoch": unit["epoch"], "x": x0, "z": z, "step": s, "u": u, "x_proposed_closed_form": xp, "information_at_proposal": f_prop, "region": where}
        with jax.disable_jit():
            with ScriptedPRNG(_script(np.float32(z), np.float32(u), counts)) as sp:
                out = kernel.transition(key, ks, state, epoch)
        if counts != {"normal": 1, "uniform": 1}:
            raise RuntimeError(f"IWLSKernel drew {counts}")
        _key_discipline(V, "IWLSKernel-dw", mode, sp, case)
        got = out.model_state
        gx = float(got["x"])
        if math.isnan(xp):
            up = model.update_state({"x": _f32(math.nan)}, state)
        elif bool(out.info.position_moved) and abs(gx - xp) < 1e-4:
            up = model.update_state({"x": got["x"]}, state)  # float32 rounding of the proposal
        else:
            up = model.update_state({"x": _f32(xp)}, state)
        judge(V, res, "IWLSKernel-dw", mode + ":" + where, case, float(np.float32(u)), lps, _info_tuple(out.info), got, state, up, TOL_DW)
    if n_undef == 0:
        raise RuntimeError("harness: no proposal of the double-well lattice lands in the indefinite region")
    res.extra["iwls_dw_undefined_ratio_cases"] = n_undef
    res.note([unit, sorted(res.outcomes)])
    res.sample({"kind": "iwls-dw", "epoch": unit["epoch"], "step": s, "cases": res.states, "undefined_ratio_cases": n_undef})


# ---------------------------------------------------------------------------------


def run_unit(unit):
    core.assert_repo()
    res = core.UnitResult(unit)
    kind = unit["kind"]
    run = {
        "dict": run_dict,
        "dict-realkey": run_dict_realkey,
        "mhkernel": run_mhkernel,
        "liesel": run_liesel,
        "rw": run_rw,
        "iwls": run_iwls,
        "iwls-dw": run_iwls_dw,
    }.get(kind)
    if run is None:
        raise RuntimeError(f"unknown unit kind {kind}")
    run(unit, res)
    return res
