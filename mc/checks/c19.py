"""
C19 - error and sample bookkeeping.

(1) pipeline level: real EpochChainManager / SamplingResults objects are filled with
    EVERY error-code array over small layouts (chains x epoch structure x chunking x
    kernels) and pushed through get_error_log -> _make_error_summary -> Summary.error_df
    (a Summary shell without the ArviZ statistics); oracle = counting reference.
(2) engine level: a scripted-error kernel (code read from a per-chain table in the model
    state) makes one engine run realise all 3^T single-chain patterns at once (one chain
    per pattern); full Summary(results), sample_info, to_arviz_inference_data and pickle
    round trip are compared with what is stored / what the table says.
"""

from __future__ import annotations

import itertools
import os

from mc import core
from mc.ref import c19_ref as ref

PROPERTY = "C19"
RULE = (
    "pipeline: for every layout (chains x warm-up structure x posterior structure x chunking x kernel set) "
    "within the tier's cell bound, every assignment of error codes (kernel A: {0,1,2}, kernel B: {0,7}, kernel N: {0,-3,2}; also two kernels of the same class A) to "
    "every (chain, transition) cell; engine: one chain per single-chain pattern (3^T chains) plus small chain "
    "counts with thinning / no warm-up / two kernels. Distinct outcome = (level, where errors occur, in which "
    "chains, stage verdict)."
)
ASSUMPTIONS = [
    "pipeline level builds SamplingResults by hand from EpochChainManager/EpochConfig/DefaultTransitionInfo exactly as the engine does (advance_epoch per epoch, append per chunk); error_df is evaluated on a Summary shell (Summary.__new__ + error_summary + sample_info), i.e. without the ArviZ statistics",
    "the 'relative' column of error_df is not part of the property (counts only)",
    "engine level: the scripted kernel returns code table[chain, n] at its n-th transition (own counter in the kernel state); the oracle counts from the table, not from the stored transition infos",
    "sample_info: sample_size_per_chain must equal the stored posterior draws per chain and warmup_size_per_chain the number of stored warm-up transitions; with warm-up thinning > 1 the number of stored warm-up *positions* is smaller - recorded as an outcome, not a violation",
    "ArviZ/pickle: exact equality of values (after conversion to float64) and of shapes [chain, draw, ...]",
]

BOOK_A = {0: "no errors", 1: "first documented error", 2: "second documented error"}
# kernel B documents code 1 too (with its own message) but never returns it: a summary that
# attributes kernel A's code 1 to kernel B then shows up as a wrong entry instead of a KeyError
BOOK_B = {0: "no errors", 1: "kernel B's own first error", 7: "error number seven"}
# kernel N documents a NEGATIVE code (legal: only 0 is reserved for "no error")
BOOK_N = {0: "no errors", -3: "negative documented error", 2: "positive error of kernel N"}
BOOKS = {"A": BOOK_A, "B": BOOK_B, "N": BOOK_N}
ALPHA = {"A": [0, 1, 2], "B": [0, 7], "N": [0, -3, 2]}


def kernel_id(i):
    """identifier of the i-th kernel (what EngineBuilder assigns)"""
    return f"kernel_{i:02d}"


def _alpha(layout):
    return layout.get("alpha") or [ALPHA[k] for k in layout["kernels"]]


WARM = {0: [[]], 1: [[["BURNIN", 1]]], 2: [[["BURNIN", 2]], [["FAST", 1], ["SLOW", 1]]]}
POST = {0: [[]], 1: [[["POSTERIOR", 1]]], 2: [[["POSTERIOR", 2]], [["POSTERIOR", 1], ["POSTERIOR", 1]]]}


def _layouts(tier):
    max_cells = 6 if tier == "quick" else 8
    out = []
    for chains in (1, 2):
        for w in (0, 1, 2):
            for p in (0, 1, 2):
                if w + p == 0:
                    continue
                for ws in WARM[w]:
                    for ps in POST[p]:
                        epochs = ws + ps
                        chunkings = ["epoch", "unit"] if any(d > 1 for _, d in epochs) else ["epoch"]
                        for ch in chunkings:
                            if chains * (w + p) <= max_cells:
                                out.append(dict(chains=chains, epochs=epochs, chunk=ch, kernels=["A"]))
    # two kernels with different error books
    two = [
        dict(chains=2, epochs=[["BURNIN", 1], ["POSTERIOR", 1]], chunk="epoch", kernels=["A", "B"]),
        dict(chains=1, epochs=[["BURNIN", 1], ["POSTERIOR", 2]], chunk="unit", kernels=["A", "B"]),
        dict(chains=1, epochs=[["FAST", 1], ["SLOW", 1], ["POSTERIOR", 1], ["POSTERIOR", 1]], chunk="epoch", kernels=["A", "B"]),
        dict(chains=2, epochs=[["POSTERIOR", 2]], chunk="epoch", kernels=["A", "B"]),
        dict(chains=2, epochs=[["BURNIN", 2]], chunk="unit", kernels=["A", "B"]),
    ]
    # two kernels of the SAME class with overlapping codes and messages
    two += [
        dict(chains=2, epochs=[["BURNIN", 1], ["POSTERIOR", 1]], chunk="epoch", kernels=["A", "A"], alpha=[[0, 1, 2], [0, 1]]),
        dict(chains=1, epochs=[["BURNIN", 1], ["POSTERIOR", 2]], chunk="epoch", kernels=["A", "A"], alpha=[[0, 1, 2], [0, 1, 2]]),
        dict(chains=3, epochs=[["POSTERIOR", 1]], chunk="epoch", kernels=["A", "A"], alpha=[[0, 1], [0, 1]]),
    ]
    # a kernel with a negative documented code, alone and next to kernel A
    two += [
        dict(chains=2, epochs=[["BURNIN", 1], ["POSTERIOR", 1]], chunk="epoch", kernels=["N"]),
        dict(chains=1, epochs=[["BURNIN", 2], ["POSTERIOR", 2]], chunk="unit", kernels=["N"]),
        dict(chains=2, epochs=[["POSTERIOR", 2]], chunk="unit", kernels=["N"]),
        dict(chains=1, epochs=[["BURNIN", 1], ["POSTERIOR", 1]], chunk="epoch", kernels=["A", "N"]),
        dict(chains=2, epochs=[["POSTERIOR", 1]], chunk="epoch", kernels=["N", "B"]),
    ]
    if tier != "quick":
        two.append(dict(chains=2, epochs=[["BURNIN", 1], ["POSTERIOR", 1]], chunk="epoch", kernels=["A", "N"]))
        two.append(dict(chains=2, epochs=[["BURNIN", 1], ["POSTERIOR", 2]], chunk="epoch", kernels=["N"]))
        two.append(dict(chains=3, epochs=[["POSTERIOR", 1]], chunk="epoch", kernels=["A", "B"]))
        two.append(dict(chains=1, epochs=[["BURNIN", 2], ["POSTERIOR", 2]], chunk="unit", kernels=["A", "B"]))
        out.append(dict(chains=3, epochs=[["BURNIN", 1], ["POSTERIOR", 2]], chunk="epoch", kernels=["A"]))
        out.append(dict(chains=4, epochs=[["BURNIN", 1], ["POSTERIOR", 1]], chunk="epoch", kernels=["A"]))
    out += two
    out.sort(key=lambda l: _npatterns(l))
    return out


def _T(layout):
    return sum(d for _, d in layout["epochs"])


def _npatterns(layout):
    n = 1
    for al in _alpha(layout):
        n *= len(al) ** (layout["chains"] * _T(layout))
    return n


ENGINE_QUICK = [
    # sweep: one chain per pattern over all transitions
    dict(name="sweep-burnin2-post4", sweep=True, books=["A"], schedule=[["BURNIN", 2, 1], ["POSTERIOR", 4, 1]]),
    dict(name="sweep-fast1-slow1-post2x2-two-kernels", sweep=True, books=["A", "B"], schedule=[["FAST", 1, 1], ["SLOW", 1, 1], ["POSTERIOR", 2, 1], ["POSTERIOR", 2, 1]]),
    dict(name="sweep-no-warmup-post4", sweep=True, books=["A"], schedule=[["POSTERIOR", 4, 1]]),
    # small chain counts, thinning
    dict(name="c1-burnin4-post8-thin2", sweep=False, chains=1, books=["A"], schedule=[["BURNIN", 4, 1], ["POSTERIOR", 8, 2]]),
    dict(name="c2-burnin4thin2-post8-thin2-two-kernels", sweep=False, chains=2, books=["A", "B"], schedule=[["BURNIN", 4, 2], ["POSTERIOR", 8, 2]]),
    dict(name="c3-post8-thin4", sweep=False, chains=3, books=["A"], schedule=[["POSTERIOR", 8, 4]]),
    dict(name="c3-fast2-slow2-burnin2-post4", sweep=False, chains=3, books=["A", "B"], schedule=[["FAST", 2, 1], ["SLOW", 2, 1], ["BURNIN", 2, 1], ["POSTERIOR", 4, 1]]),
]
ENGINE_QUICK += [
    dict(name="c2-same-class-burnin2-post4", sweep=False, chains=2, books=["A", "A"], schedule=[["BURNIN", 2, 1], ["POSTERIOR", 4, 1]]),
    dict(name="c3-same-class-post4", sweep=False, chains=3, books=["A", "A"], schedule=[["POSTERIOR", 4, 1]]),
    dict(name="sweep-negative-burnin1-post4", sweep=True, books=["N"], schedule=[["BURNIN", 1, 1], ["POSTERIOR", 4, 1]]),
    dict(name="c2-negative-and-A-burnin2-post4", sweep=False, chains=2, books=["N", "A"], schedule=[["BURNIN", 2, 1], ["POSTERIOR", 4, 1]]),
]
ENGINE_THOROUGH = ENGINE_QUICK + [
    dict(name="sweep-fast2-burnin2-post4", sweep=True, books=["A"], schedule=[["FAST", 2, 1], ["BURNIN", 2, 1], ["POSTERIOR", 4, 1]]),
    dict(name="sweep-burnin2-post4-two-kernels", sweep=True, books=["A", "B"], schedule=[["BURNIN", 2, 1], ["POSTERIOR", 4, 1]]),
    dict(name="c4-burnin6thin3-post12-thin3", sweep=False, chains=4, books=["A", "B"], schedule=[["BURNIN", 6, 3], ["POSTERIOR", 12, 3]]),
]


def bounds(tier):
    ls = _layouts(tier)
    return {
        "pipeline_layouts": len(ls),
        "pipeline_patterns": sum(_npatterns(l) for l in ls),
        "max_cells_single_kernel": 6 if tier == "quick" else 8,
        "chains": [1, 2] if tier == "quick" else [1, 2, 3, 4],
        "warmup_lengths": [0, 1, 2],
        "posterior_lengths": [0, 1, 2],
        "alphabets": ALPHA,
        "engine_runs": [e["name"] for e in (ENGINE_QUICK if tier == "quick" else ENGINE_THOROUGH)],
    }


def units(tier, seed):
    out = []
    shard = 400 if tier == "quick" else 2500
    small = []
    for l in _layouts(tier):
        n = _npatterns(l)
        if n <= shard // 4:
            small.append(l)
            if sum(_npatterns(x) for x in small) >= shard:
                out.append({"kind": "pipeline", "layouts": small, "lo": 0, "hi": None})
                small = []
            continue
        for lo in range(0, n, shard):
            out.append({"kind": "pipeline", "layouts": [l], "lo": lo, "hi": min(n, lo + shard)})
    if small:
        out.insert(0, {"kind": "pipeline", "layouts": small, "lo": 0, "hi": None})
    out.append({"kind": "minimize"})
    out.append({"kind": "pickle-history", "length": 4 if tier == "quick" else 5})
    for e in ENGINE_QUICK if tier == "quick" else ENGINE_THOROUGH:
        out.append({"kind": "engine", "engine": e, "seed": 11 + seed})
    return out


# ---------------------------------------------------------------------------------
# harness-side kernel classes (module level so that pickle can find them)
# ---------------------------------------------------------------------------------


class BookA:
    error_book = BOOK_A


class BookB:
    error_book = BOOK_B


class BookN:
    error_book = BOOK_N


BOOK_CLASSES = {"A": BookA, "B": BookB, "N": BookN}


_LIB = {}


def lib():
    if _LIB:
        return _LIB
    core.assert_repo()
    import jax
    import jax.numpy as jnp

    from liesel.goose.kernel import DefaultTransitionInfo, DefaultTuningInfo, TransitionOutcome, TuningOutcome, WarmupOutcome

    class _Scripted:
        """Returns error code table[n] at its n-th transition; moves its position by +step."""

        needs_history = False
        identifier = ""

        def __init__(self, position_keys, table_key, step):
            self.position_keys = tuple(position_keys)
            self.table_key = table_key
            self.step = step
            self._model = None

        def set_model(self, model):
            self._model = model

        def has_model(self):
            return self._model is not None

        def init_state(self, prng_key, model_state):
            return {"n": jnp.asarray(0, jnp.int32)}

        def start_epoch(self, prng_key, kernel_state, model_state, epoch):
            return kernel_state

        def end_epoch(self, prng_key, kernel_state, model_state, epoch):
            return kernel_state

        def transition(self, prng_key, kernel_state, model_state, epoch):
            n = kernel_state["n"]
            code = model_state[self.table_key][n].astype(jnp.int32)
            pos = self._model.extract_position(self.position_keys, model_state)
            new = {k: v + jnp.asarray(self.step, v.dtype) for k, v in pos.items()}
            ms = self._model.update_state(new, model_state)
            info = DefaultTransitionInfo(error_code=code, acceptance_prob=jnp.asarray(1.0, jnp.float32), position_moved=jnp.asarray(1, jnp.int32))
            return TransitionOutcome(info, {"n": n + 1}, ms)

        def tune(self, prng_key, kernel_state, model_state, epoch, history):
            info = DefaultTuningInfo(error_code=jnp.asarray(0, jnp.int32), time=jnp.asarray(epoch.time).astype(jnp.int32))
            return TuningOutcome(info, kernel_state)

        def end_warmup(self, prng_key, kernel_state, model_state, tuning_history):
            return WarmupOutcome(jnp.asarray(0, jnp.int32), kernel_state)

    # concrete classes live at module level (pickle stores kernel classes by reference)
    g = globals()
    for name, book in (("ScriptedA", BOOK_A), ("ScriptedB", BOOK_B), ("ScriptedN", BOOK_N)):
        cls = type(name, (_Scripted,), {"error_book": book})
        cls.__module__ = __name__
        cls.__qualname__ = name
        g[name] = cls
    _LIB.update(jax=jax, jnp=jnp, ScriptedA=g["ScriptedA"], ScriptedB=g["ScriptedB"], ScriptedN=g["ScriptedN"], DefaultTransitionInfo=DefaultTransitionInfo)
    return _LIB


# ---------------------------------------------------------------------------------
# pipeline level
# ---------------------------------------------------------------------------------


def _etype(name):
    from liesel.goose.epoch import EpochType

    return {"FAST": EpochType.FAST_ADAPTATION, "SLOW": EpochType.SLOW_ADAPTATION, "BURNIN": EpochType.BURNIN, "POSTERIOR": EpochType.POSTERIOR, "INITIAL": EpochType.INITIAL_VALUES}[name]


def phases_of(epochs):
    ph = []
    for e in epochs:
        ph += ["p" if e[0] == "POSTERIOR" else "w"] * e[1]
    return ph


def build_results(layout, codes):
    """SamplingResults filled by hand the way the engine fills it."""
    import numpy as np

    from liesel.goose.chain import EpochChainManager
    from liesel.goose.engine import SamplingResults
    from liesel.goose.epoch import EpochConfig
    from liesel.goose.kernel import DefaultTransitionInfo
    from liesel.option import Option

    chains = layout["chains"]
    pos = EpochChainManager(apply_thinning=True)
    tis = EpochChainManager()
    c0 = EpochConfig(_etype("INITIAL"), 1, 1, None)
    pos.advance_epoch(c0)
    tis.advance_epoch(c0)
    pos.append({"x": np.zeros((chains, 1), np.float32)})
    t = 0
    for name, d in layout["epochs"]:
        cfg = EpochConfig(_etype(name), d, 1, None)
        pos.advance_epoch(cfg)
        tis.advance_epoch(cfg)
        cuts = [(t, t + d)] if layout["chunk"] == "epoch" else [(t + i, t + i + 1) for i in range(d)]
        for a, b in cuts:
            chunk = {}
            for kid, arr in codes.items():
                chunk[kid] = DefaultTransitionInfo(
                    error_code=np.asarray(arr[:, a:b], np.int32),
                    acceptance_prob=np.full((chains, b - a), 0.5, np.float32),
                    position_moved=np.ones((chains, b - a), np.int32),
                )
            tis.append(chunk)
            pos.append({"x": np.tile(np.arange(a + 1, b + 1, dtype=np.float32), (chains, 1))})
        t += d
    classes = {kernel_id(i): BOOK_CLASSES[k] for i, k in enumerate(layout["kernels"])}
    return SamplingResults(
        positions=pos,
        transition_infos=tis,
        generated_quantities=Option(None),
        tuning_infos=Option(None),
        kernel_states=Option(None),
        full_model_states=Option(None),
        kernel_classes=Option({kid: classes[kid] for kid in codes}),
        kernels_by_pos_key=Option({"x": kernel_id(0)}),
    )


class HarnessProblem(RuntimeError):
    pass


def _liesel_raised(e):
    """True if liesel (or a library called by liesel) raised on a valid input: a violation."""
    return not isinstance(e, HarnessProblem) and core.raised_in_repo(e)


def df_rows(df, per_chain):
    """error_df -> {(kernel, code, msg, phase[, chain]): count}"""
    rows = {}
    if df.empty:
        return rows
    d = df.reset_index()
    for _, r in d.iterrows():
        key = (str(r["kernel"]), int(r["error_code"]), str(r["error_msg"]), str(r["phase"]))
        if per_chain:
            key = key + (int(r["chain"]),)
        if key in rows:
            raise HarnessProblem(f"duplicate row {key} in error_df")
        rows[key] = r["count"]
    return rows


def check_pipeline(res, results, codes, phases, books, level, case, sample_info=None, summary_obj=None):
    """
    Oracles shared by both levels. ``results`` is a real SamplingResults; ``codes`` the
    codes the kernels returned. Returns nothing; records violations.
    """
    import numpy as np

    from liesel.goose.summary_m import Summary, _make_error_summary

    where, some = ref.pattern_class(codes, phases)
    tag = f"{where}/{some}"
    has_post = "p" in phases

    def viol(stage, what, msg):
        if len(msg) > 700:
            msg = msg[:700] + " ...(truncated; the case is in the replay file)"
        res.violation(f"{level}-{stage}", f"{what}-errors-{where}-{some}", case, msg)

    # --- error log
    try:
        log_all = results.get_error_log(False).unwrap()
        log_post_opt = results.get_error_log(True)
    except Exception as e:
        if not _liesel_raised(e):
            raise
        viol("log", f"get_error_log-raises-{type(e).__name__}", f"get_error_log raised {e!r}")
        res.outcome(level, tag, "log-raised")
        return
    ok = True
    for posterior_only, log in ((False, log_all), (True, log_post_opt.unwrap() if log_post_opt.is_some() else None)):
        nm = "posterior" if posterior_only else "all"
        if log is None:
            if has_post:
                viol("log", f"posterior-log-missing", "get_error_log(posterior_only=True) is none although posterior transitions exist")
                ok = False
            continue
        if posterior_only and not has_post:
            viol("log", "posterior-log-present-without-posterior", "posterior error log exists although there is no posterior epoch")
            ok = False
            continue
        want = ref.expected_log(codes, phases, posterior_only)
        if set(log) != set(want):
            viol("log", f"{nm}-kernels", f"kernels in the error log {sorted(log)} != {sorted(want)}")
            ok = False
            continue
        for kid, (idx, cols) in want.items():
            kel = log[kid]
            got_idx = np.asarray(kel.transition)
            got_cols = np.asarray(kel.error_codes)
            if got_idx.shape != idx.shape or not np.array_equal(got_idx, idx):
                viol("log", f"{nm}-transition-indices", f"{kid}: transitions with an error {got_idx.tolist()} != {idx.tolist()} (codes {np.asarray(codes[kid]).tolist()}, phases {phases})")
                ok = False
            elif got_cols.shape != cols.shape or not np.array_equal(got_cols, cols):
                viol("log", f"{nm}-error-codes", f"{kid}: logged codes {got_cols.tolist()} != {cols.tolist()}")
                ok = False
            if kel.kernel_ident != kid:
                viol("log", f"{nm}-kernel-ident", f"{kid}: kernel_ident {kel.kernel_ident!r}")
                ok = False
    # --- error summary
    exp = ref.expected_summary(codes, phases, books)
    if summary_obj is not None:
        summ = summary_obj.error_summary
    else:
        try:
            summ = _make_error_summary(log_all, log_post_opt)
        except Exception as e:
            if not _liesel_raised(e):
                raise
            viol("summary", f"_make_error_summary-raises-{type(e).__name__}", f"_make_error_summary raised {e!r} for codes { {k: np.asarray(v).tolist() for k, v in codes.items()} }")
            res.outcome(level, tag, "summary-raised")
            return
    if set(summ) != set(exp):
        viol("summary", "kernels", f"kernels in the error summary {sorted(summ)} != {sorted(exp)}")
        ok = False
    else:
        for kid, entry in exp.items():
            got = summ[kid]
            if {int(k) for k in got} != set(entry):
                viol("summary", "codes", f"{kid}: codes in the summary {sorted(int(k) for k in got)} != {sorted(entry)} (codes {np.asarray(codes[kid]).tolist()})")
                ok = False
                continue
            for code, e in entry.items():
                g = [v for k, v in got.items() if int(k) == code][0]
                if int(g.error_code) != code:
                    viol("summary", "error_code-field", f"{kid}/{code}: error_code field {g.error_code}")
                    ok = False
                if g.error_msg != e["msg"]:
                    viol("summary", "message", f"{kid}/{code}: message {g.error_msg!r} != error book {e['msg']!r}")
                    ok = False
                tot = np.asarray(g.count_per_chain).tolist()
                if tot != e["total"]:
                    viol("summary", "count-total", f"{kid}/{code}: count_per_chain {tot} != {e['total']} (codes {np.asarray(codes[kid]).tolist()}, phases {phases})")
                    ok = False
                gp = g.count_per_chain_posterior
                gp = None if gp is None else np.asarray(gp).tolist()
                if gp != e["posterior"]:
                    viol("summary", "count-posterior", f"{kid}/{code}: count_per_chain_posterior {gp} != {e['posterior']} (codes {np.asarray(codes[kid]).tolist()}, phases {phases})")
                    ok = False
    # --- error_df
    if has_post:
        if summary_obj is not None:
            shell = summary_obj
        else:
            shell = Summary.__new__(Summary)
            shell.error_summary = summ
            shell.sample_info = sample_info
            shell.per_chain = False  # the constructor's default
        for per_chain in (True, False):
            want = ref.expected_rows(exp, per_chain)
            try:
                df = shell.error_df(per_chain=per_chain)
                cols = set(df.reset_index().columns)
                if not df.empty and (("chain" in cols) != per_chain):
                    viol("df", f"chain-level-per_chain-{per_chain}", f"Summary.error_df(per_chain={per_chain}) returned a table {'without' if per_chain else 'with'} a chain level (columns {sorted(map(str, cols))}); summary built with per_chain={getattr(shell, 'per_chain', None)}")
                    ok = False
                    continue
                got = df_rows(df, per_chain)
            except Exception as e:
                if not _liesel_raised(e):
                    raise
                viol("df", f"error_df-per_chain-{per_chain}-raises-{type(e).__name__}", f"Summary.error_df(per_chain={per_chain}) raised {e!r} for codes { {k: np.asarray(v).tolist() for k, v in codes.items()} } phases {phases}")
                ok = False
                continue
            if set(got) != set(want):
                miss = sorted(set(want) - set(got))[:3]
                extra = sorted(set(got) - set(want))[:3]
                viol("df", f"rows-per_chain-{per_chain}", f"error_df rows differ: missing {miss}, unexpected {extra}")
                ok = False
                continue
            for key, n in want.items():
                g = got[key]
                if not (g == n):
                    viol("df", f"count-{key[3]}-per_chain-{per_chain}", f"error_df count for {key} is {g}, expected {n} (codes { {k: np.asarray(v).tolist() for k, v in codes.items()} }, phases {phases})")
                    ok = False
                    break
    res.outcome(level, tag, "ok" if ok else "violated")


def run_pipeline_unit(res, unit):
    import numpy as np

    lib()
    for layout in unit["layouts"]:
        chains, T = layout["chains"], _T(layout)
        phases = phases_of(layout["epochs"])
        ks = layout["kernels"]
        books = {kernel_id(i): BOOKS[k] for i, k in enumerate(ks)}
        cells = chains * T
        alph = []
        for al in _alpha(layout):
            alph += [al] * cells
        n = _npatterns(layout)
        lo, hi = unit["lo"], unit["hi"] if unit["hi"] is not None else n
        sample_info = {"num_chains": chains, "sample_size_per_chain": phases.count("p"), "warmup_size_per_chain": phases.count("w")}
        it = itertools.islice(itertools.product(*alph), lo, hi)
        cnt = 0
        for pat in it:
            codes = {}
            for i, k in enumerate(ks):
                codes[kernel_id(i)] = np.array(pat[i * cells : (i + 1) * cells], dtype=np.int32).reshape(chains, T)
            results = build_results(layout, codes)
            case = {"layout": layout, "pattern": [int(v) for v in pat]}
            check_pipeline(res, results, codes, phases, books, "pipeline", case, sample_info)
            cnt += 1
        res.states += cnt
        res.executions += cnt
        res.transitions += cnt * cells * len(ks)
        res.note([layout, lo, hi, cnt])
        res.sample({"layout": layout, "patterns": cnt, "last_pattern": [int(v) for v in pat]}, limit=1)


# ---------------------------------------------------------------------------------
# engine level
# ---------------------------------------------------------------------------------


def _tables(spec):
    """error-code tables [chains, T] per kernel id, from the spec alone."""
    import numpy as np

    T = sum(d for _, d, _ in spec["schedule"])
    out = {}
    if spec["sweep"]:
        first = ALPHA[spec["books"][0]]
        a = np.array(list(itertools.product(first, repeat=T)), dtype=np.int32)
        out[kernel_id(0)] = a
        for i, bk in enumerate(spec["books"][1:], start=1):
            # later kernels: all patterns of their alphabet, repeated cyclically and in
            # reversed order, so that every pattern meets many patterns of kernel 0
            pb = np.array(list(itertools.product(ALPHA[bk], repeat=T)), dtype=np.int32)
            idx = (np.arange(len(a))[::-1] * 5) % len(pb)
            out[kernel_id(i)] = pb[idx]
    else:
        chains = spec["chains"]
        for i, bk in enumerate(spec["books"]):
            al = ALPHA[bk]
            tab = np.zeros((chains, T), np.int32)
            for c in range(chains):
                for t in range(T):
                    tab[c, t] = al[(t + c * (i + 1) + i) % len(al)]
            out[kernel_id(i)] = tab
    return out


def run_engine_unit(res, unit):
    import pickle
    import tempfile

    import numpy as np

    L = lib()
    jnp = L["jnp"]
    import liesel.goose as gs
    from liesel.experimental.arviz import to_arviz_inference_data
    from liesel.goose.engine import SamplingResults
    from liesel.goose.epoch import EpochConfig

    spec = unit["engine"]
    tables = _tables(spec)
    chains = next(iter(tables.values())).shape[0]
    sched = spec["schedule"]
    T = sum(d for _, d, _ in sched)
    phases = []
    for t, d, th in sched:
        phases += ["p" if t == "POSTERIOR" else "w"] * d
    nk = len(spec["books"])

    state = {"x": jnp.asarray(np.arange(chains, dtype=np.float32) * 100.0), "tab0": jnp.asarray(tables[kernel_id(0)])}
    kernels = [L["Scripted" + spec["books"][0]](["x"], "tab0", 1.0)]
    if nk == 2:
        state["y"] = jnp.asarray(np.stack([np.arange(chains, dtype=np.float32), -np.arange(chains, dtype=np.float32)], axis=1))
        state["tab1"] = jnp.asarray(tables[kernel_id(1)])
        kernels.append(L["Scripted" + spec["books"][1]](["y"], "tab1", 0.5))
    builder = gs.EngineBuilder(seed=unit["seed"], num_chains=chains)
    builder.show_progress = False
    builder.set_epochs([EpochConfig(_etype("INITIAL"), 1, 1, None)] + [EpochConfig(_etype(t), d, th, None) for t, d, th in sched])
    builder.set_model(gs.DictInterface(lambda s: jnp.float32(0.0)))
    builder.set_initial_values(state, multiple_chains=True)
    for k in kernels:
        builder.add_kernel(k)
    engine = builder.build()
    engine.sample_all_epochs()
    results = engine.get_results()
    res.executions += 1
    res.states += chains
    res.transitions += chains * T * nk

    case = {"engine": spec, "seed": unit["seed"]}
    books = {kernel_id(i): BOOKS[bk] for i, bk in enumerate(spec["books"])}

    # what the kernels returned is what is stored (prerequisite of everything else)
    stored = results.transition_infos.combine_all().unwrap()
    for kid, tab in tables.items():
        got = np.asarray(stored[kid].error_code)
        if got.shape != tab.shape or not np.array_equal(got, tab):
            res.violation("engine-stored", f"transition-infos-error-codes-{spec['name']}", case, f"{kid}: stored error codes differ from the codes the kernel returned (shape {got.shape} vs {tab.shape})")

    # stored samples by phase (reference: kernel adds +step per transition; thinning)
    exp_post, exp_warm = {}, {}
    t = 0
    init = {"x": np.asarray(state["x"], np.float64)}
    steps = {"x": 1.0}
    if nk == 2:
        init["y"] = np.asarray(state["y"], np.float64)
        steps["y"] = 0.5
    for name, v0 in init.items():
        post, warm = [], []
        t = 0
        for typ, d, th in sched:
            for i in range(1, d + 1):
                if i % th == 0:
                    val = v0 + steps[name] * (t + i)
                    (post if typ == "POSTERIOR" else warm).append(val)
            t += d
        exp_post[name] = np.stack(post, axis=1) if post else None
        exp_warm[name] = np.stack(warm, axis=1) if warm else None

    n_post = exp_post["x"].shape[1]
    n_warm_trans = phases.count("w")
    n_warm_pos = 0 if exp_warm["x"] is None else exp_warm["x"].shape[1]
    own_info = {"num_chains": chains, "sample_size_per_chain": n_post, "warmup_size_per_chain": n_warm_trans}
    try:
        summ = gs.Summary(results)
        si = summ.sample_info
    except Exception as e:
        if not _liesel_raised(e):
            raise
        res.violation("engine-summary", f"Summary-raises-{type(e).__name__}-{spec['name']}", case, f"Summary(results) raised {e!r} on a valid run ({nk} kernels, schedule {sched})")
        res.outcome("engine", "Summary", "raised", type(e).__name__)
        summ = None
        si = own_info
    if int(si["num_chains"]) != chains:
        res.violation("engine-sample-info", f"num_chains-{spec['name']}", case, f"sample_info num_chains {si['num_chains']} != {chains}")
    if int(si["sample_size_per_chain"]) != n_post:
        res.violation("engine-sample-info", f"sample_size_per_chain-{spec['name']}", case, f"sample_info sample_size_per_chain {si['sample_size_per_chain']} != stored posterior draws {n_post}")
    if int(si["warmup_size_per_chain"]) != n_warm_trans:
        res.violation("engine-sample-info", f"warmup_size_per_chain-{spec['name']}", case, f"sample_info warmup_size_per_chain {si['warmup_size_per_chain']} != stored warm-up transitions {n_warm_trans}")
    res.outcome("engine", "sample_info", "warmup-positions-thinned" if n_warm_pos != n_warm_trans else "warmup-positions-all", "posterior-thinned" if n_post != phases.count("p") else "posterior-all")
    stored_post = results.get_posterior_samples()
    for name, want in exp_post.items():
        got = np.asarray(stored_post[name], np.float64)
        if got.shape != want.shape or not np.array_equal(got, want):
            res.violation("engine-stored", f"posterior-samples-{spec['name']}", case, f"stored posterior samples of {name!r} differ from the kernel's trajectory (shape {got.shape} vs {want.shape})")

    # whole pipeline on the engine's results, with the real Summary object
    check_pipeline(res, results, tables, phases, books, "engine", case, sample_info=own_info, summary_obj=summ)
    # per-chain pattern classes for the vacuity guard
    for c in range(chains if chains <= 7000 else 0):
        res.outcome("engine-chain", *ref.pattern_class({k: v[c : c + 1] for k, v in tables.items()}, phases))

    # ArviZ
    for include_warmup in (False, True):
        if include_warmup and exp_warm["x"] is None:
            try:
                to_arviz_inference_data(results, include_warmup=True)
                res.outcome("arviz", "include_warmup-without-warmup", "returned")
            except Exception as e:
                res.outcome("arviz", "include_warmup-without-warmup", "raised", type(e).__name__)
            continue
        try:
            idata = to_arviz_inference_data(results, include_warmup=include_warmup)
        except Exception as e:
            if not _liesel_raised(e):
                raise
            res.violation("arviz", f"to_arviz-raises-{type(e).__name__}-include_warmup-{include_warmup}-{spec['name']}", case, f"to_arviz_inference_data(include_warmup={include_warmup}) raised {e!r}")
            continue
        groups = [("posterior", exp_post)] + ([("warmup_posterior", exp_warm)] if include_warmup else [])
        for gname, exp in groups:
            if not hasattr(idata, gname):
                res.violation("arviz", f"group-{gname}-missing-{spec['name']}", case, f"inference data has no group {gname} (include_warmup={include_warmup})")
                continue
            grp = getattr(idata, gname)
            for name, want in exp.items():
                if name not in grp:
                    res.violation("arviz", f"{gname}-variable-missing-{spec['name']}", case, f"{gname} lacks variable {name!r}")
                    continue
                got = np.asarray(grp[name].values, np.float64)
                if got.shape != want.shape or not np.array_equal(got, want):
                    res.violation("arviz", f"{gname}-values-include_warmup-{include_warmup}-{spec['name']}", case, f"{gname}[{name!r}] differs from the stored samples: shape {got.shape} vs {want.shape}")
                else:
                    res.outcome("arviz", gname, "exact")
        if not include_warmup and hasattr(idata, "warmup_posterior"):
            res.violation("arviz", f"warmup-present-without-include_warmup-{spec['name']}", case, "warm-up group present although include_warmup=False")

    # pickle round trip
    import jax

    with tempfile.TemporaryDirectory(prefix="c19_") as d:
        path = os.path.join(d, "results.pkl")
        try:
            results.pkl_save(path)
            back = SamplingResults.pkl_load(path)
        except Exception as e:
            if not _liesel_raised(e):
                raise
            res.violation("pickle", f"pickle-raises-{type(e).__name__}-{spec['name']}", case, f"pkl_save/pkl_load raised {e!r}")
            back = None
    fields = ["positions", "transition_infos", "generated_quantities", "tuning_infos", "kernel_states", "full_model_states", "kernel_classes", "kernels_by_pos_key"]

    def leaves_of(r):
        out = {}
        for mgr_name in ("positions", "transition_infos"):
            mgr = getattr(r, mgr_name)
            eps = mgr.get_epochs()
            out[mgr_name + ".epochs"] = [(int(e.type), int(e.duration), int(e.thinning)) for e in eps]
            for i in range(len(eps)):
                opt = mgr.get_specific_chain(i).get()
                tree = opt.unwrap() if opt.is_some() else None
                for path_, leaf in jax.tree_util.tree_flatten_with_path(tree)[0]:
                    out[f"{mgr_name}[{i}]{jax.tree_util.keystr(path_)}"] = np.asarray(leaf)
        tun = r.tuning_infos.map(lambda c: c.get().unwrap_or(None)).unwrap_or(None)
        for path_, leaf in jax.tree_util.tree_flatten_with_path(tun)[0]:
            out["tuning" + jax.tree_util.keystr(path_)] = np.asarray(leaf)
        kc = r.kernel_classes.unwrap_or(None)
        out["kernel_classes"] = None if kc is None else {k: v.__name__ for k, v in kc.items()}
        out["error_books"] = None if kc is None else {k: dict(v.error_book) for k, v in kc.items()}
        kp = r.kernels_by_pos_key.unwrap_or(None)
        out["kernels_by_pos_key"] = None if kp is None else dict(kp)
        out["options"] = {f: getattr(r, f).is_some() for f in fields if hasattr(getattr(r, f), "is_some")}
        return out

    missing = [f for f in fields if not hasattr(back, f)]
    if back is None:
        pass
    elif missing:
        res.violation("pickle", f"fields-missing-{spec['name']}", case, f"reloaded results lack fields {missing}")
    else:
        la, lb = leaves_of(results), leaves_of(back)
        bad = []
        for k in sorted(set(la) | set(lb)):
            if k not in la or k not in lb:
                bad.append(k)
            elif isinstance(la[k], np.ndarray):
                if la[k].dtype != lb[k].dtype or la[k].shape != lb[k].shape or la[k].tobytes() != lb[k].tobytes():
                    bad.append(k)
            elif la[k] != lb[k]:
                bad.append(k)
        res.outcome("pickle", "exact" if not bad else "differs")
        if bad:
            res.violation("pickle", f"round-trip-differs-{spec['name']}", case, f"pickle round trip changed {len(bad)} items, first {bad[:4]}")
        else:
            # and the reloaded object still answers the queries identically
            s2 = back.get_posterior_samples()
            for name, want in exp_post.items():
                if not np.array_equal(np.asarray(s2[name], np.float64), want):
                    res.violation("pickle", f"posterior-after-reload-{spec['name']}", case, f"posterior samples of {name!r} after reload differ")
    res.note([spec["name"], chains, T, core.digest({k: np.asarray(v).tolist() for k, v in tables.items()})])
    res.sample({"engine": spec, "chains": chains, "transitions_per_chain": T, "sample_info": {k: int(v) for k, v in si.items()}}, limit=1)


def run_pickle_history_unit(res, unit):
    """Every word up to the stated length over {save A, save B (a longer run), save C, load} on ONE
    path: a load returns the results that were saved last (error codes, epochs, positions)."""
    import os
    import tempfile

    import numpy as np
    from liesel.goose.engine import SamplingResults

    lib()
    layA = dict(chains=2, epochs=[["BURNIN", 1], ["POSTERIOR", 2]], chunk="epoch", kernels=["A"])
    layB = dict(chains=2, epochs=[["BURNIN", 1], ["POSTERIOR", 2], ["POSTERIOR", 2]], chunk="epoch", kernels=["A"])
    codes = {
        "A": (layA, {kernel_id(0): np.array([[0, 1, 0], [0, 0, 2]], np.int32)}),
        "B": (layB, {kernel_id(0): np.array([[0, 1, 0, 2, 2], [0, 0, 2, 1, 0]], np.int32)}),
        "C": (layA, {kernel_id(0): np.array([[1, 1, 1], [2, 0, 0]], np.int32)}),
    }

    def view(r):
        ti = r.transition_infos.combine_all().unwrap()
        return ({k: np.asarray(v.error_code).tolist() for k, v in ti.items()},
                [(int(e.type), int(e.duration)) for e in r.positions.get_epochs()],
                np.asarray(r.get_posterior_samples()["x"]).tolist())

    objs = {k: build_results(l, c) for k, (l, c) in codes.items()}
    want = {k: view(o) for k, o in objs.items()}
    ops = ["A", "B", "C", "load"]
    seen_v = set()
    with tempfile.TemporaryDirectory(prefix="c19h_") as d:
        n = 0
        for L in range(2, unit["length"] + 1):
            for word in itertools.product(ops, repeat=L):
                if word[0] == "load" or word[-1] != "load":
                    continue
                n += 1
                path = os.path.join(d, f"r{n % 3}.pkl")  # paths are reused across words as well
                last = None
                res.executions += 1
                for pos, op in enumerate(word):
                    res.transitions += 1
                    try:
                        if op == "load":
                            got = view(SamplingResults.pkl_load(path))
                            res.outcome("pickle-history", "load-after", last, "first-load" if "load" not in word[:pos] else "later-load")
                            if got != want[last] and "stale" not in seen_v:
                                seen_v.add("stale")
                                res.violation("pickle", "load-returns-not-the-last-saved", {"word": list(word), "pos": pos},
                                              f"ops {list(word[:pos + 1])} on one path: pkl_load returned error codes {got[0]} / epochs {got[1]}, last saved was {last}: {want[last][0]} / {want[last][1]}")
                        else:
                            objs[op].pkl_save(path)
                            last = op
                    except Exception as e:
                        if not _liesel_raised(e):
                            raise
                        if "raises" not in seen_v:
                            seen_v.add("raises")
                            res.violation("pickle", f"history-raises-{type(e).__name__}", {"word": list(word), "pos": pos}, f"ops {list(word[:pos + 1])}: {e!r}")
                        break
    res.states += n
    res.note(["pickle-history", unit["length"], n])


def run_minimize_unit(res, unit):
    """Engine option minimize_transition_infos: for every built-in kernel class the transition info
    type it returns is instantiated for every documented error code x acceptance value x moved flag
    (kernel-specific diagnostics consistent with the code) and minimize() must keep these three fields."""
    import dataclasses
    import typing

    import jax.numpy as jnp
    import liesel.goose as gs
    from liesel.goose.kernel import DefaultTransitionInfo

    kernels = [gs.RWKernel, gs.IWLSKernel, gs.HMCKernel, gs.NUTSKernel, gs.MHKernel, gs.GibbsKernel]
    seen = set()
    for K in kernels:
        # the info class is the second type argument of the TransitionMixin base / the return type
        info_cls = None
        for base in getattr(K, "__orig_bases__", ()):
            for a in typing.get_args(base):
                if isinstance(a, type) and dataclasses.is_dataclass(a) and hasattr(a, "minimize"):
                    info_cls = a
        if info_cls is None:
            info_cls = DefaultTransitionInfo
        if info_cls in seen:
            continue
        seen.add(info_cls)
        names = [f.name for f in dataclasses.fields(info_cls)]
        codes = sorted(K.error_book)
        for code in codes:
            for ap in (0.0, 0.25, 1.0):
                for moved in (0, 1):
                    kw = {}
                    for n in names:
                        if n == "error_code":
                            kw[n] = jnp.int32(code)
                        elif n == "acceptance_prob":
                            kw[n] = jnp.float32(ap)
                        elif n == "position_moved":
                            kw[n] = jnp.int32(moved)
                        elif n == "divergent":
                            kw[n] = jnp.bool_(code & 1)
                        elif n == "maximum_tree_depth":
                            kw[n] = jnp.bool_(code & 2)
                        else:
                            kw[n] = jnp.int32(3)
                    info = info_cls(**kw)
                    res.executions += 1
                    res.transitions += 1
                    try:
                        m = info.minimize()
                        got = (int(m.error_code), float(m.acceptance_prob), int(m.position_moved))
                    except Exception as e:
                        if not _liesel_raised(e):
                            raise
                        res.violation("minimize", f"raises-{info_cls.__name__}", {"kernel": K.__name__, "code": code}, f"{info_cls.__name__}.minimize() raised {e!r}")
                        break
                    res.outcome("minimize", info_cls.__name__, code)
                    if got != (code, ap, moved):
                        res.violation("minimize", f"fields-changed-{info_cls.__name__}", {"kernel": K.__name__, "code": code, "acceptance_prob": ap, "moved": moved},
                                      f"{info_cls.__name__}(error_code={code}, acceptance_prob={ap}, position_moved={moved}).minimize() holds (error_code, acceptance_prob, position_moved) = {got}: "
                                      "with minimize_transition_infos=True the stored error codes are not the codes the transitions returned")
                        break
    res.states += len(seen)
    res.note(["minimize", sorted(c.__name__ for c in seen)])


def run_unit(unit):
    core.assert_repo()
    res = core.UnitResult(unit)
    if unit["kind"] == "minimize":
        run_minimize_unit(res, unit)
        return res
    if unit["kind"] == "pickle-history":
        from mc.seams import quiet

        with quiet():
            run_pickle_history_unit(res, unit)
        return res
    import time
    import warnings

    from mc.seams import quiet

    import logging

    t0 = time.process_time()
    lib()
    import arviz

    # "Shape validation failed" for < 4 draws; arviz uses a private Logger instance
    logging.getLogger("arviz").setLevel(logging.ERROR)
    if hasattr(arviz, "_log"):
        arviz._log.setLevel(logging.ERROR)
    with quiet(), warnings.catch_warnings():
        warnings.simplefilter("ignore")
        if unit["kind"] == "pipeline":
            run_pipeline_unit(res, unit)
        else:
            run_engine_unit(res, unit)
    res.extra["cpu_s"] = round(time.process_time() - t0, 1)
    return res
