"""
C14 - transforming a variable preserves the model (change of variables).

Full product over (distribution family x bijector option) x entry point x parameter kind
(constants / other variables, for the distribution and for the bijector arguments) x
(value shape, per_obs, parameter flag); every case is a real liesel model that is built
once and then walked over a lattice of unconstrained values by assignment, followed by
assignments to the parameter variables. Oracle: mc/ref/c14_ref.py (scipy base densities,
closed-form bijectors and log-derivatives, float64).

Sub-checks (the `check` field): entry (the transformation call itself), initial (values
right after the transformation), flags (parameter flag moved, original keeps no
distribution), value (original == b(t) after every assignment), logprob (new variable's
log-density, Model.log_prob / log_prior / log_lik), params (model-dependent arguments
take effect on assignment), raises (liesel raised while the transformed model was used),
chain (the new variable is transformed a second time; the innermost variable is walked and
the reference composes both bijectors and both Jacobians).
An exception counts as a violation only if mc.core.raised_in_repo() attributes it to liesel.
"""

from __future__ import annotations

import warnings

import numpy as np

from mc import core
from mc.ref import c14_ref as ref

PROPERTY = "C14"
RULE = (
    "(family x bijector option: 13 families, instance / class+arguments / default bijector) x entry point "
    "{Var.transform(instance), Var.transform(cls, *args | **args), Var.transform(None), auto_transform at build, "
    "deprecated GraphBuilder.transform(instance | cls with *args | **args | None)} x parameter kind {all constants, distribution "
    "parameters as variables (one with a hyper-prior), bijector arguments as variables, both} x "
    "build style {GraphBuilder.add(x), add(sink only), Model([x]), Model([sink]) where the sink y ~ Normal(x, 1.5) "
    "reaches x only as an input; all four for auto_transform, a sub-grid for the other entries in quick} x "
    "{scalar, vector(3)} x per_obs {on, off} x parameter flag {set, not set}; per case a lattice of 7 "
    "(thorough 13) unconstrained values is walked by assignment in the built model, then every parameter "
    "variable is re-assigned; plus chained (double) transformations walked by the innermost variable. Distinct outcome = (entry, option kind, parameter kind, shape/per_obs/flag, step kind, sign of log-density)."
)
ASSUMPTIONS = [
    "TFP's base densities and bijectors are trusted as such, but every number is compared with an independent scipy/closed-form float64 reference, so a wrong use (Invert dropped, forward/inverse swapped, wrong arguments) shows",
    "TFP's default event-space bijectors are taken from its documentation (HalfCauchy: loc+exp, InverseGamma: 1/softplus, Gamma/HalfNormal/Exponential: softplus, LogNormal: exp, Beta: sigmoid, Uniform/TruncatedNormal: sigmoid scaled to [low, high], Normal: identity)",
    "float32 model against float64 reference: values within 2e-5 relative, log-densities within 2e-4 x (1 + |log p| + |log b'|) per element",
    "chained transformations: first step through every Var.transform entry point and every form of the deprecated GraphBuilder.transform, second step b2 in {Scale(2.0) instance, Shift(shift=-0.5) class} through Var.transform or through GraphBuilder.transform (all four combinations), constant parameters, in built models and without a model (update() by hand)",
    "lattice points only: nothing is said about values between them; one (thorough: two) parameter settings per family plus one re-assignment per parameter variable",
]

T_QUICK = (-3.0, -1.0, -0.25, 0.0, 0.5, 1.5, 4.0)
T_THOROUGH = (-6.0, -3.0, -2.0, -1.0, -0.25, -1e-3, 0.0, 0.1, 0.5, 1.0, 1.5, 4.0, 7.0)

import os  # noqa: E402

TOLSCALE = float(os.environ.get("VERIF_TOLSCALE", "1"))  # development aid only (margin measurement)
VAL_RTOL = 2e-5 * TOLSCALE
LP_RTOL = 2e-4 * TOLSCALE

FAMILIES = {
    # cls, params, var (parameters that may be variables with any bijector), alt values,
    # x0 (scalar, vector) in the support
    "LogNormal": dict(cls="LogNormal", params={"loc": 0.3, "scale": 0.6}, var=["loc", "scale"], alt={"loc": -0.5, "scale": 1.1}, x0=(1.3, (0.5, 1.0, 2.5)), support="pos"),
    "HalfCauchy": dict(cls="HalfCauchy", params={"loc": 0.0, "scale": 2.5}, var=["scale"], alt={"scale": 1.2}, x0=(1.3, (0.5, 1.0, 2.5)), support="pos"),
    "InverseGamma": dict(cls="InverseGamma", params={"concentration": 3.0, "scale": 2.0}, var=["concentration", "scale"], alt={"concentration": 2.0, "scale": 0.7}, x0=(1.3, (0.5, 1.0, 2.5)), support="pos"),
    "Gamma": dict(cls="Gamma", params={"concentration": 2.5, "rate": 1.5}, var=["concentration", "rate"], alt={"concentration": 1.2, "rate": 0.6}, x0=(1.3, (0.5, 1.0, 2.5)), support="pos"),
    "HalfNormal": dict(cls="HalfNormal", params={"scale": 1.7}, var=["scale"], alt={"scale": 0.6}, x0=(1.3, (0.5, 1.0, 2.5)), support="pos"),
    "Exponential": dict(cls="Exponential", params={"rate": 0.8}, var=["rate"], alt={"rate": 2.0}, x0=(1.3, (0.5, 1.0, 2.5)), support="pos"),
    "HalfCauchyLoc": dict(cls="HalfCauchy", params={"loc": 1.0, "scale": 2.5}, var=["loc", "scale"], alt={"loc": 0.25, "scale": 1.2}, x0=(1.5, (1.2, 2.0, 3.5)), support="shifted"),
    "Beta": dict(cls="Beta", params={"concentration1": 2.0, "concentration0": 3.5}, var=["concentration1", "concentration0"], alt={"concentration1": 0.8, "concentration0": 1.5}, x0=(0.3, (0.2, 0.5, 0.85)), support="unit"),
    "Uniform01": dict(cls="Uniform", params={"low": 0.0, "high": 1.0}, var=[], var_default=["low", "high"], alt={"low": -0.5, "high": 2.0}, x0=(0.3, (0.2, 0.5, 0.85)), support="unit"),
    "Uniform11": dict(cls="Uniform", params={"low": -1.0, "high": 1.0}, var=[], var_default=["low", "high"], alt={"low": -2.0, "high": 1.5}, x0=(-0.4, (-0.7, 0.1, 0.6)), support="sym"),
    "UniformAB": dict(cls="Uniform", params={"low": 0.5, "high": 3.0}, var=[], var_default=["low", "high"], alt={"low": 0.0, "high": 4.0}, x0=(1.0, (0.7, 1.5, 2.8)), support="ab"),
    "TruncatedNormal": dict(cls="TruncatedNormal", params={"loc": 0.2, "scale": 1.0, "low": -1.0, "high": 1.0}, var=["loc", "scale"], alt={"loc": -0.3, "scale": 0.5}, x0=(-0.4, (-0.7, 0.1, 0.6)), support="sym"),
    "Normal": dict(cls="Normal", params={"loc": 0.4, "scale": 1.3}, var=["loc", "scale"], alt={"loc": -1.0, "scale": 0.5}, x0=(0.7, (-1.2, 0.3, 2.0)), support="real"),
}

# bijector options per support: (kind, bijector name, kwargs, alt kwargs for variable arguments)
OPTIONS = {
    "pos": [("inst", "Exp", {}, {}), ("inst", "Softplus", {}, {}), ("inst", "Softplus", {"hinge_softness": 0.7}, {}),
            ("cls", "Softplus", {"hinge_softness": 0.7}, {"hinge_softness": 1.5}), ("default", None, {}, {})],
    "shifted": [("default", None, {}, {})],
    "unit": [("inst", "Sigmoid", {}, {}), ("cls", "Sigmoid", {"low": 0.0, "high": 1.0}, {}), ("default", None, {}, {})],
    "sym": [("inst", "AlgebraicSigmoid", {}, {}), ("inst", "Tanh", {}, {}), ("cls", "Sigmoid", {"low": -1.0, "high": 1.0}, {}), ("default", None, {}, {})],
    "ab": [("inst", "Sigmoid", {"low": 0.5, "high": 3.0}, {}), ("cls", "Sigmoid", {"low": 0.5, "high": 3.0}, {}), ("default", None, {}, {})],
    "real": [("inst", "Scale", {"scale": 2.0}, {}), ("cls", "Scale", {"scale": 2.0}, {"scale": 0.5}), ("inst", "Shift", {"shift": -0.5}, {}),
             ("cls", "Shift", {"shift": -0.5}, {"shift": 1.0}), ("default", None, {}, {})],
}

ENTRIES = {
    "inst": ["Var.transform(instance)", "GraphBuilder.transform(instance)"],
    "cls": ["Var.transform(cls,**args)", "Var.transform(cls,*args)", "GraphBuilder.transform(cls,**args)", "GraphBuilder.transform(cls,*args)"],
    "default": ["Var.transform(None)", "auto_transform", "GraphBuilder.transform(None)"],
}

# how the model is built after the transformation was requested: from the variable itself
# or only from a downstream "sink" (y ~ Normal(x, 1.5), observed) of which x is an input -
# then x (and, for auto_transform, the request to transform it) is only reachable
# through the graph
STYLES = ("add(x)", "add(sink)", "Model([x])", "Model([sink])")
SINK_Y = (0.3, -1.2, 2.5)
SINK_SCALE = 1.5


def styles(entry, pk, tier):
    if entry.startswith("GraphBuilder.transform"):  # the deprecated method adds x itself
        return ["add(x)", "add(sink)"] if tier != "quick" else ["add(x)"]
    if tier != "quick" or entry == "auto_transform":
        return list(STYLES)
    if entry == "Var.transform(None)":
        return ["add(x)", "add(sink)"]
    if entry in ("Var.transform(instance)", "Var.transform(cls,**args)") and pk == "const":
        return ["add(x)", "Model([sink])"]
    return ["add(x)"]


# second transformation applied to the new variable (chained transformations)
SECONDS = {
    "inst:Scale(2.0)": ("inst", "Scale", {"scale": 2.0}),
    "cls:Shift(shift=-0.5)": ("cls", "Shift", {"shift": -0.5}),
}
U_QUICK = (-1.5, -0.25, 0.0, 0.5, 1.5)
U_THOROUGH = (-3.0, -1.5, -0.25, 0.0, 0.1, 0.5, 1.5, 3.0)


def chain_cases(opt, tier):
    """(entry, second, style, shape, per_obs, flag) for the chained transformations."""
    entries = [e for e in ENTRIES[opt[0]] if e != "auto_transform"]  # Var.transform and the deprecated GraphBuilder.transform
    seconds = ["inst:Scale(2.0)", "cls:Shift(shift=-0.5)", "gb:inst:Scale(2.0)", "gb:cls:Shift(shift=-0.5)"]  # gb: = second step through GraphBuilder.transform
    out = []
    for e in entries:
        for sec in seconds:
            dep = e.startswith("GraphBuilder") or sec.startswith("gb:")
            if tier == "quick":
                out += [(e, sec, "add(x)", "scalar", True, True), (e, sec, "no-model", "vec3", True, True)]
                out += [(e, sec, "add(x)", "vec3", False, False)] if dep else [(e, sec, "Model([x])", "vec3", False, False)]
            else:
                for style in (("add(x)", "add(sink)", "no-model") if dep else ("add(x)", "add(sink)", "Model([x])", "Model([sink])", "no-model")):
                    for shp, po, fl in (("scalar", True, True), ("scalar", True, False), ("vec3", True, True), ("vec3", False, False)):
                        out.append((e, sec, style, shp, po, fl))
    return out


SECOND_PARAMS = {  # thorough: a second parameter setting per family
    "LogNormal": {"loc": -1.0, "scale": 0.25}, "HalfCauchy": {"loc": 0.0, "scale": 0.4}, "InverseGamma": {"concentration": 1.5, "scale": 4.0},
    "Gamma": {"concentration": 0.7, "rate": 3.0}, "HalfNormal": {"scale": 0.3}, "Exponential": {"rate": 5.0}, "HalfCauchyLoc": {"loc": -2.0, "scale": 1.0},
    "Beta": {"concentration1": 0.6, "concentration0": 0.9}, "Normal": {"loc": -3.0, "scale": 0.2}, "TruncatedNormal": {"loc": -0.8, "scale": 2.0, "low": -1.0, "high": 1.0},
}


def bounds(tier):
    return {
        "families": list(FAMILIES),
        "bijector_options": {k: [f"{o[0]}:{o[1]}{o[2] or ''}" for o in v] for k, v in OPTIONS.items()},
        "entry_points": sorted({e for v in ENTRIES.values() for e in v}),
        "parameter_kinds": ["const", "distvar", "bijvar", "bothvar"],
        "build_styles": {"auto_transform": list(STYLES), "other entry points": "add(x) always; add(sink) / Model([x]) / Model([sink]) on a sub-grid (quick) or all (thorough)"},
        "shape_perobs_flag": [list(c) for c in combos(tier)],
        "t_lattice": list(T_QUICK if tier == "quick" else T_THOROUGH),
        "chained_transformations": {"second": ["inst:Scale(2.0)", "cls:Shift(shift=-0.5)"], "second_via": ["Var.transform", "GraphBuilder.transform"], "first": "every Var.transform and GraphBuilder.transform entry of every (family, option)", "u_lattice": list(U_QUICK if tier == "quick" else U_THOROUGH),
                                    "styles": ["add(x)", "Model([x]) (Var.transform-only chains)", "no-model"] if tier == "quick" else ["add(x)", "add(sink)", "Model([x]) / Model([sink]) (Var.transform-only chains)", "no-model"]},
        "parameter_settings_per_family": 1 if tier == "quick" else 2,
    }


def combos(tier):
    if tier == "quick":
        return [("scalar", True, True), ("scalar", True, False), ("vec3", True, True), ("vec3", False, True), ("vec3", False, False)]
    return [(s, p, f) for s in ("scalar", "vec3") for p in (True, False) for f in (True, False)]


def units(tier, seed):
    us = []
    for fam, spec in FAMILIES.items():
        for oi, opt in enumerate(OPTIONS[spec["support"]]):
            us.append({"family": fam, "option": oi, "tier": tier, "pset": 0})
            if tier != "quick" and fam in SECOND_PARAMS:
                us.append({"family": fam, "option": oi, "tier": tier, "pset": 1})
    return us


# ---------------------------------------------------------------------------------


class Recorder:
    def __init__(self, res):
        self.res = res
        self.seen = set()

    def fail(self, check, sig, case, msg):
        if (check, sig) in self.seen:
            return
        self.seen.add((check, sig))
        self.res.violation(check, sig, case, msg)


def param_kinds(spec, opt):
    kind = opt[0]
    has_dist_vars = bool(spec["var"]) or (kind == "default" and bool(spec.get("var_default")))
    out = ["const"]
    if has_dist_vars:
        out.append("distvar")
    if kind == "cls":
        out.append("bijvar")
        if has_dist_vars:
            out.append("bothvar")
    return out


def make_bijector(tfb, liesel_bij, name, kwargs):
    if name == "AlgebraicSigmoid":
        return liesel_bij.AlgebraicSigmoid(**kwargs)
    return getattr(tfb, name)(**kwargs)


def bijector_class(tfb, liesel_bij, name):
    return liesel_bij.AlgebraicSigmoid if name == "AlgebraicSigmoid" else getattr(tfb, name)


def build(case, spec, opt, params0):
    """Prepares the variables of a case. Returns (closure performing the transformation
    and the build, names of parameter variables, names of bijector-argument variables)."""
    import jax.numpy as jnp
    import liesel.bijectors as liesel_bij
    import liesel.model as lsl
    import tensorflow_probability.substrates.jax.bijectors as tfb
    import tensorflow_probability.substrates.jax.distributions as tfd

    kind, bname, bkw, _ = opt
    pk = case["paramkind"]
    dist_vars = []
    kw = {}
    varnames = list(spec["var"]) + (list(spec.get("var_default", [])) if kind == "default" else [])
    for k, v in params0.items():
        if pk in ("distvar", "bothvar") and k in varnames:
            pv = lsl.Var(jnp.float32(v), name=f"p_{k}")
            if not dist_vars:  # hyper-prior on the first parameter variable
                pv = lsl.Var(jnp.float32(v), lsl.Dist(tfd.Normal, loc=0.0, scale=10.0), name=f"p_{k}")
                pv.parameter = True
            dist_vars.append(k)
            kw[k] = pv
        else:
            kw[k] = float(v)
    x0 = spec["x0"][0] if case["shape"] == "scalar" else spec["x0"][1]
    dist = lsl.Dist(getattr(tfd, spec["cls"]), **kw)
    dist.per_obs = case["per_obs"]
    x = lsl.Var(jnp.asarray(np.asarray(x0, dtype=np.float32)), dist, name="x")
    x.parameter = case["flag"]

    bij_vars = []
    bargs = {}
    if kind == "cls":
        for k, v in bkw.items():
            if pk in ("bijvar", "bothvar"):
                bargs[k] = lsl.Var(jnp.float32(v), name=f"b_{k}")
                bij_vars.append(k)
            else:
                bargs[k] = float(v)

    entry = case["entry"]
    style = case["style"]
    gb = lsl.GraphBuilder()
    sink = None
    if "sink" in style:
        sink = lsl.obs(jnp.asarray(np.asarray(SINK_Y, dtype=np.float32)), lsl.Dist(tfd.Normal, loc=x, scale=SINK_SCALE), name="y")

    def do_entry():
      tv = None
      with warnings.catch_warnings():
        warnings.simplefilter("ignore")
        if entry == "Var.transform(instance)":
            tv = x.transform(make_bijector(tfb, liesel_bij, bname, bkw))
        elif entry == "Var.transform(cls,**args)":
            tv = x.transform(bijector_class(tfb, liesel_bij, bname), **bargs)
        elif entry == "Var.transform(cls,*args)":  # positional, in the order of the bijector's signature
            tv = x.transform(bijector_class(tfb, liesel_bij, bname), *bargs.values())
        elif entry == "GraphBuilder.transform(cls,*args)":
            tv = gb.transform(x, bijector_class(tfb, liesel_bij, bname), *bargs.values())
        elif entry == "Var.transform(None)":
            tv = x.transform(None)
        elif entry == "auto_transform":
            x.auto_transform = True
        elif entry == "GraphBuilder.transform(instance)":
            tv = gb.transform(x, make_bijector(tfb, liesel_bij, bname, bkw))
        elif entry == "GraphBuilder.transform(cls,**args)":
            tv = gb.transform(x, bijector_class(tfb, liesel_bij, bname), **bargs)
        elif entry == "GraphBuilder.transform(None)":
            tv = gb.transform(x)
        else:
            raise ValueError(entry)
        if case.get("second"):
            # chained transformation: the new (strong, distributed) variable is transformed again
            via_gb = case["second"].startswith("gb:")  # second step through the deprecated builder method
            kind2, name2, kw2 = SECONDS[case["second"].removeprefix("gb:")]
            if kind2 == "inst":
                b2 = make_bijector(tfb, liesel_bij, name2, kw2)
                tv2 = gb.transform(tv, b2) if via_gb else tv.transform(b2)
            else:
                c2 = bijector_class(tfb, liesel_bij, name2)
                tv2 = gb.transform(tv, c2, **kw2) if via_gb else tv.transform(c2, **kw2)
            if style == "no-model":
                return (x, tv, tv2)
        top = sink if sink is not None else x
        if style.startswith("Model("):
            return lsl.Model([top])
        gb.add(top)
        return gb.build_model()

    return do_entry, dist_vars, bij_vars


def run_case(res, rec, case, spec, opt, params0, lattice):
    import jax.numpy as jnp

    kind, bname, bkw, balt = opt
    fam_cls = spec["cls"]
    sigbase = f"{case['family']}/{kind}:{bname or 'default'}/{case['entry']}/{case['style']}"

    do_entry, dist_vars, bij_vars = build(case, spec, opt, params0)  # harness part: errors propagate
    try:
        model = do_entry()
    except Exception as e:  # noqa: BLE001
        # thrown by liesel on a supported combination -> violation; thrown by the harness
        # (or by TFP called directly from the harness) -> harness error
        if not core.raised_in_repo(e, transparent=("do_entry", "run_case")):
            raise
        rec.fail("entry", f"{sigbase}:raises-{type(e).__name__}", case, f"{case['entry']} [{case['style']}] on {fam_cls} with {bname or 'the default bijector'} raised {type(e).__name__}: {str(e)[:300]}")
        res.transitions += 1
        return None
    res.transitions += 2  # transformation + build
    t_init = np.asarray(model.vars["x_transformed"].value) if "x_transformed" in model.vars else None
    try:
        walk = _after_build(res, rec, case, spec, opt, params0, lattice, model, dist_vars, bij_vars, sigbase)
    except Exception as e:  # noqa: BLE001
        if not core.raised_in_repo(e, transparent=("_after_build", "check_state", "run_case")):
            raise
        rec.fail("raises", f"{sigbase}:raises-{type(e).__name__}", case, f"{sigbase}: liesel raised {type(e).__name__} while the transformed model was used (assignment / value / log_prob): {str(e)[:300]}")
        return None
    if walk is None:
        return None
    # a second pass through the API: the model is taken apart and built again from the same objects
    # (the transformation was requested once; the rebuilt model must be the same transformed model)
    import liesel.model as lsl

    sig2 = sigbase + "/rebuilt"
    try:
        for k in dist_vars:
            if f"p_{k}" in model.vars:
                model.vars[f"p_{k}"].value = jnp.float32(params0[k])
        for k in bij_vars:
            if f"b_{k}" in model.vars:
                model.vars[f"b_{k}"].value = jnp.float32(bkw[k])
        model.vars["x_transformed"].value = jnp.asarray(t_init)
        _, vars_ = model.pop_nodes_and_vars()
        model2 = lsl.GraphBuilder().add(*vars_.values()).build_model()
        res.transitions += 2
        _after_build(res, rec, case, spec, opt, params0, lattice[:2], model2, dist_vars, bij_vars, sig2)
    except Exception as e:  # noqa: BLE001
        if not core.raised_in_repo(e, transparent=("_after_build", "check_state", "run_case")):
            raise
        rec.fail("raises", f"{sig2}:raises-{type(e).__name__}", case, f"{sig2}: pop_nodes_and_vars() + building the model again from the same variables (or using it) raised {type(e).__name__}: {str(e)[:300]}")
    return walk


def _after_build(res, rec, case, spec, opt, params0, lattice, model, dist_vars, bij_vars, sigbase):
    import jax.numpy as jnp

    kind, bname, bkw, balt = opt
    fam_cls = spec["cls"]
    shape = () if case["shape"] == "scalar" else (3,)
    has_sink = "sink" in case["style"]
    if "x_transformed" not in model.vars or "x" not in model.vars:
        rec.fail("entry", f"{sigbase}:no-transformed-variable", case, f"{sigbase}: the built model has variables {list(model.vars)}: no unconstrained variable x_transformed was created")
        return None
    # every variable handed to the distribution / the bijector must be part of the model
    missing = [f"p_{k}" for k in dist_vars if f"p_{k}" not in model.vars] + [f"b_{k}" for k in bij_vars if f"b_{k}" not in model.vars]
    if has_sink and "y" not in model.vars:
        missing.append("y")
    if missing:
        rec.fail("entry", f"{sigbase}:argument-variable-not-in-model", {**case, "missing": missing},
                 f"{sigbase}: variables {missing} given as distribution parameters / bijector arguments are not part of the built model {list(model.vars)} (disconnected from the graph)")
    ox, tx = model.vars["x"], model.vars["x_transformed"]

    params = dict(params0)
    bparams = dict(bkw)

    def bref():
        return ref.default_bijector(fam_cls, params) if kind == "default" else ref.Bij(bname, **bparams)

    def f32r(v):
        return float(np.float32(v))

    params = {k: f32r(v) for k, v in params.items()}
    bparams = {k: f32r(v) for k, v in bparams.items()}
    hyper_name = f"p_{dist_vars[0]}" if dist_vars else None  # carries the hyper-prior

    # ---- right after the transformation -------------------------------------------------
    x0 = np.asarray(spec["x0"][0] if case["shape"] == "scalar" else spec["x0"][1], dtype=np.float32).astype(np.float64)
    got_x = np.asarray(ox.value, dtype=np.float64)
    got_t = np.asarray(tx.value, dtype=np.float64)
    want_t = bref().inverse(x0)
    res.states += 1
    if got_x.shape != x0.shape or not np.all(np.abs(got_x - x0) <= 10 * VAL_RTOL * (1 + np.abs(x0))):
        rec.fail("initial", f"{sigbase}:original-value-changed", case, f"{sigbase}: original value {got_x.tolist()} after the transformation, was {x0.tolist()}")
    if got_t.shape != x0.shape or not np.all(np.abs(got_t - want_t) <= 1e-4 * (1 + np.abs(want_t))):
        rec.fail("initial", f"{sigbase}:new-value-not-inverse", case, f"{sigbase}: new variable starts at {got_t.tolist()}, b^-1(x0) = {want_t.tolist()}")

    # ---- flags ---------------------------------------------------------------------------
    flags = (bool(tx.parameter), bool(ox.parameter), ox.dist_node is None, bool(ox.has_dist), bool(ox.weak), bool(tx.strong), bool(tx.has_dist))
    res.outcome("flags", case["entry"], case["flag"], flags)
    if bool(tx.parameter) != case["flag"]:
        rec.fail("flags", f"{sigbase}:parameter-flag-not-moved", case, f"{sigbase}: original parameter flag was {case['flag']}, new variable has parameter={tx.parameter}")
    if ox.parameter:
        rec.fail("flags", f"{sigbase}:original-still-parameter", case, f"{sigbase}: original variable still has parameter=True")
    if ox.dist_node is not None or ox.has_dist:
        rec.fail("flags", f"{sigbase}:original-keeps-distribution", case, f"{sigbase}: original variable keeps a distribution (dist_node={ox.dist_node})")
    if not ox.weak or not tx.strong or not tx.has_dist:
        rec.fail("flags", f"{sigbase}:weak-strong", case, f"{sigbase}: original weak={ox.weak}, new strong={tx.strong}, new has_dist={tx.has_dist}")
    if bool(tx.dist_node.per_obs) != case["per_obs"]:
        rec.fail("flags", f"{sigbase}:per_obs-not-transferred", case, f"{sigbase}: per_obs={tx.dist_node.per_obs} on the new distribution, was {case['per_obs']}")

    # ---- oracle for the current state -----------------------------------------------------
    def check_state(step, t32):
        t = np.asarray(t32, dtype=np.float64)
        b = bref()
        want_x = b.forward(t)
        base = ref.base_logpdf(fam_cls, want_x, params)
        ld = b.logdet(t)
        lp_el = base + ld
        tol_el = LP_RTOL * (1 + np.abs(base) + np.abs(ld))
        hyper = float(ref.base_logpdf("Normal", params[dist_vars[0]], {"loc": 0.0, "scale": 10.0})) if hyper_name else 0.0
        case_s = {**case, "step": step, "t": t.tolist(), "params": dict(params), "bijector_args": dict(bparams)}
        res.states += 1
        res.transitions += 1

        gx = np.asarray(ox.value, dtype=np.float64)
        if gx.shape != want_x.shape or not np.all(np.abs(gx - want_x) <= VAL_RTOL * (1 + np.abs(want_x))):
            rec.fail("value" if step[0] == "t" else "params", f"{sigbase}:original!=b(t)", case_s, f"{sigbase} [{step}]: original value {gx.tolist()} but b(t) = {want_x.tolist()} at t = {t.tolist()} (params {params}, bijector args {bparams})")
        glp = np.asarray(tx.log_prob, dtype=np.float64)
        want_lp = lp_el if case["per_obs"] else np.sum(lp_el)
        tol_lp = tol_el if case["per_obs"] else np.sum(tol_el)
        if glp.shape != np.shape(want_lp):
            rec.fail("logprob", f"{sigbase}:log_prob-shape", case_s, f"{sigbase}: log_prob shape {glp.shape}, expected {np.shape(want_lp)} (per_obs={case['per_obs']})")
        elif not np.all(np.abs(glp - want_lp) <= tol_lp):
            rec.fail("logprob" if step[0] == "t" else "params", f"{sigbase}:new-log_prob", case_s,
                     f"{sigbase} [{step}]: log_prob of the new variable at t={t.tolist()} is {glp.tolist()}, log p(b(t)) + log|b'(t)| = {np.asarray(want_lp).tolist()} (log p = {base.tolist()}, log|b'| = {ld.tolist()}; params {params}, bijector args {bparams})")
        olp = ox.log_prob
        if not (np.ndim(olp) == 0 and float(olp) == 0.0):
            rec.fail("flags", f"{sigbase}:original-log_prob-nonzero", case_s, f"{sigbase}: original variable reports log_prob {olp}")
        tot = float(np.sum(lp_el))
        ttol = float(np.sum(tol_el)) + LP_RTOL * (1 + abs(hyper))
        lik = 0.0
        if has_sink:  # y_j ~ Normal(x, SINK_SCALE), x broadcast against the three observations
            ll = ref.base_logpdf("Normal", np.asarray(SINK_Y, dtype=np.float32).astype(np.float64), {"loc": np.broadcast_to(want_x, (3,)), "scale": SINK_SCALE})
            lik = float(np.sum(ll))
            ttol += LP_RTOL * float(np.sum(1 + np.abs(ll)))
        mlp, mprior, mlik = float(model.log_prob), float(model.log_prior), float(model.log_lik)
        if not abs(mlp - (tot + hyper + lik)) <= ttol:
            rec.fail("logprob", f"{sigbase}:Model.log_prob", case_s, f"{sigbase} [{step}]: Model.log_prob = {mlp}, expected {tot + hyper + lik} at t={t.tolist()}")
        want_prior = (tot if case["flag"] else 0.0) + hyper
        if not abs(mprior - want_prior) <= ttol:
            rec.fail("logprob", f"{sigbase}:Model.log_prior", case_s, f"{sigbase} [{step}]: Model.log_prior = {mprior}, expected {want_prior} (parameter flag {case['flag']}) at t={t.tolist()}")
        if not abs(mlik - lik) <= (ttol if has_sink else 0.0):
            rec.fail("logprob", f"{sigbase}:Model.log_lik", case_s, f"{sigbase} [{step}]: Model.log_lik = {mlik}, expected {lik}")
        res.outcome(case["entry"], case["style"], kind, case["paramkind"], case["shape"], case["per_obs"], case["flag"], step[0], "lp>0" if tot > 0 else "lp<0")
        return glp

    # ---- lattice walk by assignment ---------------------------------------------------------
    if shape == ():
        assigns = [np.float32(t) for t in lattice]
    else:
        L = list(lattice)
        assigns = [np.asarray([L[(3 * i + j) % len(L)] for j in range(3)], dtype=np.float32) for i in range(-(-len(L) // 3))]
    last = None
    walk = []
    for i, t32 in enumerate(assigns):
        tx.value = jnp.asarray(t32)
        last = check_state(("t", i), t32)
        if case.get("note"):
            res.note([case, np.asarray(t32).tolist(), np.asarray(last).tolist()])
            walk.append({"t": np.asarray(t32).tolist(), "original_value": np.asarray(ox.value).tolist(), "new_log_prob": np.asarray(last).tolist()})
    tcur = assigns[-2] if len(assigns) > 1 else assigns[-1]
    tx.value = jnp.asarray(tcur)
    check_state(("t", "back"), tcur)

    # ---- model-dependent arguments take effect on assignment --------------------------------
    for k in dist_vars:
        if f"p_{k}" not in model.vars:
            continue  # reported above
        params[k] = f32r(spec["alt"][k])
        model.vars[f"p_{k}"].value = jnp.float32(spec["alt"][k])
        check_state(("p", k), tcur)
    for k in bij_vars:
        if k in balt and f"b_{k}" in model.vars:
            bparams[k] = f32r(balt[k])
            model.vars[f"b_{k}"].value = jnp.float32(balt[k])
            check_state(("b", k), tcur)
    res.executions += 1
    return walk


def run_chain_case(res, rec, case, spec, opt, params0, lattice):
    """x --b1--> x_transformed --b2--> x_transformed_transformed (innermost, strong)."""
    kind, bname, bkw, _ = opt
    sigbase = f"{case['family']}/{kind}:{bname or 'default'}/{case['entry']}+{case['second']}/{case['style']}"
    do_entry, _, _ = build(case, spec, opt, params0)
    try:
        obj = do_entry()
    except Exception as e:  # noqa: BLE001
        if not core.raised_in_repo(e, transparent=("do_entry", "run_chain_case")):
            raise
        rec.fail("chain", f"{sigbase}:raises-{type(e).__name__}", case, f"{sigbase}: transforming the new variable a second time / building the model raised {type(e).__name__}: {str(e)[:300]}")
        res.transitions += 1
        return
    res.transitions += 3
    try:
        _after_chain(res, rec, case, spec, opt, params0, lattice, obj, sigbase)
    except Exception as e:  # noqa: BLE001
        if not core.raised_in_repo(e, transparent=("_after_chain", "run_chain_case", "state")):
            raise
        rec.fail("chain", f"{sigbase}:raises-{type(e).__name__}", case, f"{sigbase}: liesel raised {type(e).__name__} while the chain was used: {str(e)[:300]}")


def _after_chain(res, rec, case, spec, opt, params0, lattice, obj, sigbase):
    import jax.numpy as jnp

    kind, bname, bkw, _ = opt
    fam_cls = spec["cls"]
    model = None
    if case["style"] == "no-model":
        ox, mid, inn = obj
    else:
        model = obj
        names = ("x", "x_transformed", "x_transformed_transformed")
        if any(n not in model.vars for n in names):
            rec.fail("chain", f"{sigbase}:no-transformed-variable", case, f"{sigbase}: the built model has variables {list(model.vars)}, expected {names}")
            return
        ox, mid, inn = (model.vars[n] for n in names)
    params = {k: float(np.float32(v)) for k, v in params0.items()}
    b1 = ref.default_bijector(fam_cls, params) if kind == "default" else ref.Bij(bname, **{k: float(np.float32(v)) for k, v in bkw.items()})
    k2, n2, kw2 = SECONDS[case["second"].removeprefix("gb:")]
    b2 = ref.Bij(n2, **{k: float(np.float32(v)) for k, v in kw2.items()})
    has_sink = "sink" in case["style"]

    x0 = np.asarray(spec["x0"][0] if case["shape"] == "scalar" else spec["x0"][1], dtype=np.float32).astype(np.float64)
    t0 = b1.inverse(x0)
    u0 = b2.inverse(t0)
    res.states += 1
    for what, var, want in (("original", ox, x0), ("middle", mid, t0), ("innermost", inn, u0)):
        got = np.asarray(var.value, dtype=np.float64)
        if got.shape != want.shape or not np.all(np.abs(got - want) <= 1e-4 * (1 + np.abs(want))):
            rec.fail("chain", f"{sigbase}:initial-{what}-value", case, f"{sigbase}: after both transformations the {what} variable has value {got.tolist()}, expected {want.tolist()}")
    flags = (bool(inn.parameter), bool(mid.parameter), bool(ox.parameter), mid.dist_node is None, ox.dist_node is None, bool(mid.weak), bool(ox.weak), bool(inn.strong), bool(inn.has_dist))
    res.outcome("chain-flags", case["flag"], flags)
    if flags != (case["flag"], False, False, True, True, True, True, True, True):
        rec.fail("chain", f"{sigbase}:flags", {**case, "flags": list(flags)},
                 f"{sigbase}: (innermost.parameter, middle.parameter, original.parameter, middle has no dist, original has no dist, middle weak, original weak, innermost strong, innermost has dist) = {flags}, expected ({case['flag']}, False, False, True, True, True, True, True, True)")
    if bool(inn.dist_node.per_obs) != case["per_obs"]:
        rec.fail("chain", f"{sigbase}:per_obs-not-transferred", case, f"{sigbase}: per_obs={inn.dist_node.per_obs} on the innermost distribution")

    shape = () if case["shape"] == "scalar" else (3,)
    L = list(lattice)
    assigns = [np.float32(u) for u in L] if shape == () else [np.asarray([L[(3 * i + j) % len(L)] for j in range(3)], dtype=np.float32) for i in range(-(-len(L) // 3))]
    for i, u32 in enumerate(assigns):
        inn.value = jnp.asarray(u32)
        if model is None:  # no model: update downstream by hand, innermost first
            inn.update()
            mid.update()
            ox.update()
        u = np.asarray(u32, dtype=np.float64)
        t = b2.forward(u)
        x = b1.forward(t)
        base = ref.base_logpdf(fam_cls, x, params)
        ld = b1.logdet(t) + b2.logdet(u)
        lp_el = base + ld
        tol_el = LP_RTOL * (1 + np.abs(base) + np.abs(b1.logdet(t)) + np.abs(b2.logdet(u)))
        cs = {**case, "u": u.tolist()}
        res.states += 1
        res.transitions += 1
        gm = np.asarray(mid.value, dtype=np.float64)
        gx = np.asarray(ox.value, dtype=np.float64)
        if gm.shape != t.shape or not np.all(np.abs(gm - t) <= VAL_RTOL * (1 + np.abs(t))):
            rec.fail("chain", f"{sigbase}:middle!=b2(u)", cs, f"{sigbase}: middle variable {gm.tolist()} but b2(u) = {t.tolist()} at u = {u.tolist()}")
        if gx.shape != x.shape or not np.all(np.abs(gx - x) <= VAL_RTOL * (1 + np.abs(x))):
            rec.fail("chain", f"{sigbase}:original!=b1(b2(u))", cs, f"{sigbase}: original value {gx.tolist()} but b1(b2(u)) = {x.tolist()} at u = {u.tolist()} (middle variable {gm.tolist()}): the original did not follow the innermost variable")
        glp = np.asarray(inn.log_prob, dtype=np.float64)
        want_lp = lp_el if case["per_obs"] else np.sum(lp_el)
        tol_lp = tol_el if case["per_obs"] else np.sum(tol_el)
        if glp.shape != np.shape(want_lp) or not np.all(np.abs(glp - want_lp) <= tol_lp):
            rec.fail("chain", f"{sigbase}:innermost-log_prob", cs, f"{sigbase}: log_prob of the innermost variable at u={u.tolist()} is {glp.tolist()}, log p(b1(b2(u))) + log|b1'| + log|b2'| = {np.asarray(want_lp).tolist()}")
        for what, var in (("original", ox), ("middle", mid)):
            olp = var.log_prob
            if not (np.ndim(olp) == 0 and float(olp) == 0.0):
                rec.fail("chain", f"{sigbase}:{what}-log_prob-nonzero", cs, f"{sigbase}: {what} variable reports log_prob {olp}")
        if model is not None:
            tot = float(np.sum(lp_el))
            ttol = float(np.sum(tol_el))
            lik = 0.0
            if has_sink:
                ll = ref.base_logpdf("Normal", np.asarray(SINK_Y, dtype=np.float32).astype(np.float64), {"loc": np.broadcast_to(x, (3,)), "scale": SINK_SCALE})
                lik = float(np.sum(ll))
                ttol += LP_RTOL * float(np.sum(1 + np.abs(ll)))
            mlp, mprior = float(model.log_prob), float(model.log_prior)
            if not abs(mlp - (tot + lik)) <= ttol:
                rec.fail("chain", f"{sigbase}:Model.log_prob", cs, f"{sigbase}: Model.log_prob = {mlp}, expected {tot + lik} at u={u.tolist()}")
            if not abs(mprior - (tot if case["flag"] else 0.0)) <= ttol:
                rec.fail("chain", f"{sigbase}:Model.log_prior", cs, f"{sigbase}: Model.log_prior = {mprior}, expected {tot if case['flag'] else 0.0} at u={u.tolist()}")
        res.outcome("chain", case["entry"], case["second"], case["style"], case["shape"], case["per_obs"], case["flag"], "lp>0" if float(np.sum(lp_el)) > 0 else "lp<0")
    res.executions += 1


def run_unit(unit):
    core.assert_repo()
    res = core.UnitResult(unit)
    rec = Recorder(res)
    if unit["family"] == "LogNormal" and unit["option"] == 0:
        ref.selftest()
    spec = FAMILIES[unit["family"]]
    opt = OPTIONS[spec["support"]][unit["option"]]
    tier = unit["tier"]
    lattice = T_QUICK if tier == "quick" else T_THOROUGH
    params0 = dict(spec["params"]) if unit["pset"] == 0 else dict(SECOND_PARAMS[unit["family"]])
    first = True
    for entry in ENTRIES[opt[0]]:
        for pk in param_kinds(spec, opt):
            for style in styles(entry, pk, tier):
                for shp, per_obs, flag in combos(tier):
                    case = {"family": unit["family"], "bijector": f"{opt[0]}:{opt[1] or 'default'}{opt[2] or ''}", "entry": entry, "style": style, "paramkind": pk,
                            "shape": shp, "per_obs": per_obs, "flag": flag, "dist_params": params0}
                    if first:
                        case["note"] = True
                    walk = run_case(res, rec, case, spec, opt, params0, lattice)
                    if first:
                        res.sample({**case, "walk": walk})
                    first = False
    # chained transformations: the new variable is transformed a second time
    ulat = U_QUICK if tier == "quick" else U_THOROUGH
    for entry, sec, style, shp, per_obs, flag in chain_cases(opt, tier):
        case = {"family": unit["family"], "bijector": f"{opt[0]}:{opt[1] or 'default'}{opt[2] or ''}", "entry": entry, "second": sec, "style": style, "paramkind": "const",
                "shape": shp, "per_obs": per_obs, "flag": flag, "dist_params": params0}
        run_chain_case(res, rec, case, spec, opt, params0, ulat)
    return res
