"""
C17 - Model.simulate() draws a joint ancestral sample.

Hierarchies v0 ~ Normal(link(mu), 1), v1 ~ Deterministic(link(v0)), v2 ~
Deterministic(link(v1) [+ v0]) where every ``link`` is one of the ways a child can depend
on its parent in a liesel graph (direct, cached Calc, TransientCalc, weak Var, two chained
Calcs, keyword input). Deterministic children turn "which parent value did the child's
distribution see" into an exact equality. All skip sets x naming styles x auto-update
settings x stale/fresh initial state x value shapes x seeds are enumerated on the real
Model.simulate.
"""

from __future__ import annotations

import itertools

from mc import core

PROPERTY = "C17"
RULE = (
    "structures: chains of depth 2 and 3 (plus a diamond) over 6 link kinds per edge; value shapes "
    "() / (3,) / (2,3) with scalar and vector parents; skip sets: every subset of the variables, "
    "named by variable, dist-node or value-proxy name; auto_update on/off; model fresh or stale "
    "(hyper-parameter assigned without update) beforehand; seeds {0, 1, VERIF_SEED+2}. Distinct "
    "outcome = (structure class, skip pattern, auto, stale, which variables changed)."
)
ASSUMPTIONS = [
    "TFP's Normal/Deterministic samplers are trusted; link functions are exact in float32 (negation, doubling, halving)",
    "a distribution node without a variable is never simulated (documented behaviour), not part of the space",
]

LINKS = ["direct", "calc", "tcalc", "wvar", "calc2", "kw", "mixed"]
VN = ["zv0", "mv1", "av2"]  # variable names: children sort before their parents
DISTNAME = {1: "user_named_prior"}  # the distribution node of v1 carries a user-chosen name
FN = {"neg": lambda x: -x, "twice": lambda x: 2.0 * x, "half": lambda x: 0.5 * x}


def bounds(tier):
    return {"depth": 3, "links": LINKS, "shapes": "() (3,) (2,3)", "seeds": 2 if tier == "quick" else 3, "skip_sets": "all subsets"}


def units(tier, seed):
    seeds = [0, 1] if tier == "quick" else [0, 1, seed + 2]
    us = [{"cases": [], "seeds": seeds, "diamond2": True}, {"cases": [], "seeds": seeds, "siblings": True}]
    # depth 2: mu -> v0 -> v1
    shapes2 = [((), ()), ((), (3,)), ((), (2, 3)), ((3,), (3,)), ((3,), (2, 3))]
    for l0 in LINKS:
        for l1 in LINKS:
            cases = []
            for sh in shapes2:
                cases.append({"links": [l0, l1], "shapes": [list(sh[0]), list(sh[1])]})
            if l0 in ("direct", "calc"):
                cases.append({"links": [l0, l1], "shapes": [[], []], "int_init": True})
                cases.append({"links": [l0, l1], "shapes": [[3], [2, 3]], "int_init": True})
            if l0 in ("direct", "calc", "kw"):
                # multivariate root (event shape (3,)): value shapes (3,) and (2,3)
                cases.append({"links": [l0, l1], "shapes": [[3], [3]], "mv": True})
                cases.append({"links": [l0, l1], "shapes": [[2, 3], [2, 3]], "mv": True})
            us.append({"cases": cases, "seeds": seeds})
    # depth 3: mu -> v0 -> v1 -> v2, and diamond v2 <- (v0, v1)
    shapes3 = [((), (), ()), ((), (3,), (2, 3))] if tier == "quick" else [((), (), ()), ((), (3,), (2, 3)), ((3,), (3,), (3,)), ((), (), (3,))]
    for l1 in LINKS:
        for l2 in LINKS:
            if tier == "quick" and l2 in ("calc2", "kw"):
                continue  # as last link these are covered at depth 2 (and as middle link here)
            cases = []
            for l0 in (["calc"] if tier == "quick" else LINKS):
                for sh in shapes3:
                    cases.append({"links": [l0, l1, l2], "shapes": [list(s) for s in sh]})
                    if l2 in ("calc", "direct", "tcalc"):
                        cases.append({"links": [l0, l1, l2], "shapes": [list(s) for s in sh], "diamond": True})
            us.append({"cases": cases, "seeds": seeds[:1] if tier == "quick" else seeds})
    return us


# ---------------------------------------------------------------------------------


class Rec:
    """Recording distribution: logs the parameters it was initialised with when it samples."""

    def __init__(self, label, log, base, *args, **kwargs):
        self.label, self.log, self.args, self.kwargs = label, log, args, kwargs
        self.d = base(*args, **kwargs)

    @property
    def event_shape(self):
        return self.d.event_shape

    @property
    def batch_shape(self):
        return self.d.batch_shape

    def log_prob(self, x):
        return self.d.log_prob(x)

    def sample(self, sample_shape, seed):
        import numpy as np

        vals = [np.asarray(a) for a in self.args] + [np.asarray(v) for _, v in sorted(self.kwargs.items())]
        self.log.append((self.label, vals))
        return self.d.sample(sample_shape, seed)


def build(case, log):
    """Returns (model, handles). v_k has value of shape shapes[k]."""
    import jax.numpy as jnp
    import liesel.model as lsl
    import tensorflow_probability.substrates.jax.distributions as tfd

    links, shapes = case["links"], [tuple(s) for s in case["shapes"]]
    fns = ["neg", "twice", "half"]
    mu = lsl.Var(jnp.float32(0.5), name="mu")
    h = {"mu": mu, "link_nodes": []}

    def link(kind, parent, k):
        """Returns (node or var usable as dist input, as_kwarg?)."""
        f = FN[fns[k % 3]]
        if kind == "direct":
            return parent, FN_ID, False
        if kind == "calc":
            n = lsl.Calc(f, parent, _name=f"l{k}")
            h["link_nodes"].append((n, [parent], f))
            return n, f, False
        if kind == "tcalc":
            n = lsl.TransientCalc(f, parent, _name=f"l{k}")
            return n, f, False
        if kind == "wvar":
            n = lsl.Var(lsl.Calc(f, parent), name=f"l{k}")
            h["link_nodes"].append((n.value_node, [parent], f))
            return n, f, False
        if kind == "calc2":
            a = lsl.Calc(f, parent, _name=f"l{k}a")
            b = lsl.Calc(f, a, _name=f"l{k}b")
            h["link_nodes"].append((a, [parent], f))
            h["link_nodes"].append((b, [a], f))
            return b, (lambda x, f=f: f(f(x))), False
        if kind in ("kw", "mixed"):
            n = lsl.Calc(f, parent, _name=f"l{k}")
            h["link_nodes"].append((n, [parent], f))
            return n, f, kind
        raise ValueError(kind)

    FN_ID = lambda x: x  # noqa
    vs, reffn = [], []
    parent = mu
    for k, (lk, shp) in enumerate(zip(links, shapes)):
        node, f, kw = link(lk, parent, k)
        if k == 0:
            if case.get("mv"):
                # event rank 1: v0 ~ MVNDiag(loc = link(mu) * ones(3), scale_diag = ones(3))
                mv = lambda loc, scale_diag: tfd.MultivariateNormalDiag(loc=loc * jnp.ones(3), scale_diag=scale_diag)  # noqa
                base = lambda *a, _k=k, **kws: Rec(VN[_k], log, mv, *a, **kws)  # noqa
                dist = lsl.Dist(base, loc=node, scale_diag=jnp.ones(3, dtype=jnp.float32))
            elif kw == "mixed":
                nrm = lambda scale, loc: tfd.Normal(loc=loc, scale=scale)  # noqa  positional scale, keyword loc
                base = lambda *a, _k=k, **kws: Rec(VN[_k], log, nrm, *a, **kws)  # noqa
                dist = lsl.Dist(base, lsl.Value(jnp.float32(1.0), _name=f"one{k}"), loc=node)
            else:
                base = lambda *a, _k=k, **kws: Rec(VN[_k], log, tfd.Normal, *a, **kws)  # noqa
                dist = lsl.Dist(base, loc=node, scale=jnp.float32(1.0)) if kw else lsl.Dist(base, node, jnp.float32(1.0))
            reffn.append(("normal", f, None))
        else:
            if case.get("diamond") and k == 2:
                # v2 ~ Det(link(v1) + v0-part): second parent v0 enters directly
                extra = vs[0]
                comb = lsl.Calc(lambda a, b: a + 4.0 * jnp.sum(b), node, extra, _name="comb")
                h["link_nodes"].append((comb, [node, extra], None))
                base = lambda *a, _k=k, **kws: Rec(VN[_k], log, tfd.Deterministic, *a, **kws)  # noqa
                dist = lsl.Dist(base, loc=comb, _name=DISTNAME.get(k, ""))
                reffn.append(("det-diamond", f, None))
            else:
                if kw == "mixed":
                    det = lambda dummy, loc: tfd.Deterministic(loc=loc)  # noqa  positional constant, keyword loc
                    base = lambda *a, _k=k, **kws: Rec(VN[_k], log, det, *a, **kws)  # noqa
                    dist = lsl.Dist(base, lsl.Value(jnp.float32(7.0), _name=f"dummy{k}"), loc=node, _name=DISTNAME.get(k, ""))
                else:
                    base = lambda *a, _k=k, **kws: Rec(VN[_k], log, tfd.Deterministic, *a, **kws)  # noqa
                    dist = lsl.Dist(base, loc=node, _name=DISTNAME.get(k, "")) if kw else lsl.Dist(base, node, _name=DISTNAME.get(k, ""))
                reffn.append(("det", f, None))
        init = jnp.full(shp, jnp.float32(0.25) * (k + 1))
        if case.get("int_init") and k == 0:
            init = jnp.zeros(shp, dtype=jnp.int32)  # a continuous variable that happens to hold integers
        v = lsl.Var(init, dist, name=VN[k])
        vs.append(v)
        parent = v
    wbase = lambda *a, **kws: Rec("w", log, tfd.Normal, *a, **kws)  # noqa
    w = lsl.Var(jnp.full(shapes[0], jnp.float32(0.0)), lsl.Dist(wbase, jnp.float32(0.0), jnp.float32(1.0)), name="w")
    h["w"] = w
    m = lsl.GraphBuilder().add(vs[-1], w).build_model()
    h["vs"], h["reffn"] = vs, reffn
    return m, h


def run_case(res, case, seeds):
    import jax
    import jax.numpy as jnp
    import numpy as np

    n = len(case["links"])
    names = [VN[k] for k in range(n)]
    styles = ["var", "dist", "proxy"]

    def skip_names(subset, style):
        out = []
        for k in subset:
            out.append({"var": VN[k], "dist": DISTNAME.get(k, f"{VN[k]}_log_prob"), "proxy": f"{VN[k]}_var_value"}[style])
        return out

    for r in range(n + 1):
        for subset in itertools.combinations(range(n), r):
            sty = styles if len(subset) == 1 else [styles[(sum(subset) + len(subset)) % 3]] if subset else ["var"]
            for style in sty:
                skip = skip_names(subset, style)
                results = {}
                for auto in (True, False):
                    for stale in (False, True, "restored"):
                        for s in (seeds[:1] if stale == "restored" else seeds):
                            key = jax.random.PRNGKey(s)
                            log = []
                            m, h = build(case, log)
                            vs = h["vs"]
                            mu_val = np.float32(0.5)
                            if stale is True:
                                m.auto_update = False
                                h["mu"].value = np.float32(3.0)
                                mu_val = np.float32(3.0)
                            elif stale == "restored":
                                # the model visited other values and was put back with Model.state:
                                # nothing of the intermediate state may survive
                                saved = m.state
                                h["mu"].value = np.float32(40.0)
                                for kk, v in enumerate(vs):
                                    v.value = jnp.full(np.shape(v.value), 50.0 + kk, dtype=jnp.asarray(v.value).dtype)
                                m.update()
                                m.state = saved
                            m.auto_update = auto
                            before = [np.asarray(v.value).copy() for v in vs]
                            log.clear()
                            cname0 = {"case": case, "skip": skip, "auto": auto, "stale": stale, "seed": s}
                            try:
                                m.simulate(key, skip=skip)
                                after_try = [np.asarray(v.value).copy() for v in vs]
                                if all(a.shape == b_.shape for a, b_ in zip(after_try, before)):
                                    m.update()
                            except Exception as e:
                                if not core.raised_in_repo(e, transparent=("log_prob", "sample", "<lambda>")):
                                    raise
                                shapes_now = [np.shape(v.value) for v in vs]
                                res.violation("simulate", "simulate-or-update-raises", cname0, f"simulate()/update() failed on a valid model: {type(e).__name__}: {str(e)[:120]} (value shapes now {shapes_now}, before {[b_.shape for b_ in before]}) ({cname0})")
                                res.executions += 1
                                continue
                            res.executions += 1
                            res.transitions += 1
                            after = [np.asarray(v.value).copy() for v in vs]
                            cname = {"case": case, "skip": skip, "auto": auto, "stale": stale, "seed": s}

                            # shapes preserved / skipped untouched
                            for k in range(n):
                                if after[k].shape != before[k].shape:
                                    res.violation("simulate", "shape-changed", cname, f"v{k}: shape {before[k].shape} -> {after[k].shape} ({cname})")
                                if k in subset and not (after[k].shape == before[k].shape and np.array_equal(after[k], before[k])):
                                    res.violation("simulate", f"skipped-changed-{style}", cname, f"skipped v{k} (named by {style}) was modified ({cname})")
                            w_after = np.asarray(h["w"].value)
                            if w_after.shape != before[0].shape and not case.get("mv"):
                                res.violation("simulate", "shape-changed", cname, f"w: shape changed to {w_after.shape}")
                            if 0 not in subset and not case.get("mv") and w_after.shape == after[0].shape:
                                # two independent N(., 1) draws: identical noise means the same key was used twice
                                noise0 = after[0] - np.asarray(h["reffn"][0][1](mu_val), dtype=np.float32)
                                if np.allclose(noise0, w_after, rtol=0, atol=1e-6):
                                    res.violation("simulate", "prng-key-reuse", cname, f"v0 and the independent variable w received identical standard-normal noise {w_after.ravel()[:3]}: the same PRNG key was used for both ({cname})")
                            if any(after[k].shape != before[k].shape for k in range(n)):
                                continue  # reported above; nothing else can be evaluated on mis-shaped values
                            drawn = [lbl for lbl, _ in log if lbl != "w"]
                            want_drawn = [VN[k] for k in range(n) if k not in subset]
                            if sorted(drawn) != sorted(want_drawn):
                                res.violation("simulate", f"drawn-set-{style}", cname, f"variables drawn {drawn} != non-skipped {want_drawn} ({cname})")
                                continue

                            # each draw saw the NEW values of its ancestors
                            fns = h["reffn"]
                            logd = dict(log)
                            for k in range(n):
                                if k in subset:
                                    continue
                                kind, f, _ = fns[k]
                                if k == 0:
                                    exp_loc = f(mu_val)
                                    got = logd[VN[0]]
                                    if case["links"][0] == "mixed":
                                        got = got[1:]  # (scale, loc): positional constant first
                                    # Normal(loc, scale): loc is first positional or kw (sorted: loc, scale)
                                    if not np.array_equal(np.asarray(got[0], dtype=np.float32), np.asarray(exp_loc, dtype=np.float32)):
                                        res.violation("simulate", "stale-parameter-root", cname, f"v0 drawn with loc {got[0]} but link(mu)={exp_loc} ({cname})")
                                    if np.array_equal(after[0], before[0]):
                                        res.violation("simulate", "root-not-drawn", cname, f"v0 unchanged by simulate ({cname})")
                                    if case.get("int_init") and np.all(after[0] == np.round(after[0])):
                                        res.violation("simulate", "draw-truncated-to-integer", cname, f"v0 ~ Normal held integer zeros before simulate and holds only integers {after[0].ravel()[:4]} afterwards: the draw was cast to the old dtype ({cname})")
                                else:
                                    par = after[k - 1]
                                    exp = f(par)
                                    if kind == "det-diamond":
                                        exp = exp + np.float32(4.0) * np.sum(after[0], dtype=np.float32)
                                    exp_b = np.broadcast_to(exp, after[k].shape) if np.ndim(exp) <= after[k].ndim else None
                                    if exp_b is None or not np.allclose(after[k], exp_b, rtol=0, atol=0 if kind == "det" else 1e-4):
                                        old = f(before[k - 1])
                                        why = "the parent's OLD value" if np.ndim(old) <= after[k].ndim and np.allclose(after[k], np.broadcast_to(old, after[k].shape)) else "something else"
                                        res.violation("simulate", f"stale-parameter-{case['links'][k]}-auto{int(auto)}", cname, f"v{k} = {after[k].ravel()[:3]} but its distribution at the new ancestors gives {np.ravel(exp)[:3]} (matches {why}) ({cname})")
                            results[(auto, stale, s)] = after

                            # determinism: a second fresh model with the same seed
                            if auto and not stale:
                                log2 = []
                                m2, h2 = build(case, log2)
                                m2.simulate(key, skip=skip)
                                res.executions += 1
                                again = [np.asarray(v.value) for v in h2["vs"]]
                                if not all(np.array_equal(a, b) for a, b in zip(after, again)):
                                    res.violation("simulate", "not-determined-by-seed", cname, f"two fresh models with the same seed disagree ({cname})")

                            # coherence after update()
                            m.update()
                            bad = [nm for nm, nd in m.nodes.items() if nd.outdated]
                            if bad:
                                res.violation("simulate", "outdated-after-update", cname, f"outdated after simulate+update: {bad[:3]}")
                            for node, ins, f in h["link_nodes"]:
                                if f is None:
                                    continue
                                want = f(np.asarray(ins[0].value))
                                if not np.array_equal(np.asarray(node.value), want):
                                    res.violation("simulate", "incoherent-after-update", cname, f"{node.name} = {node.value} != f(input) = {want} after simulate+update ({cname})")
                            lp = 0.0
                            for v in vs + [h["w"]]:
                                lp = lp + float(np.sum(np.asarray(v.dist_node.init_dist().log_prob(v.value))))
                            if not (np.isclose(float(m.log_prob), lp, rtol=1e-5, atol=1e-5) or (np.isinf(lp) and float(m.log_prob) == lp)):
                                res.violation("simulate", "log-prob-incoherent", cname, f"model.log_prob {float(m.log_prob)} != recomputed {lp} ({cname})")
                            res.outcome(len(case["links"]), tuple(subset), auto, stale, tuple(bool(not np.array_equal(a, b)) for a, b in zip(after, before)))

                # same seed => same result under both auto-update settings
                for stale in (False, True, "restored"):
                    for s in seeds:
                        a, b = results.get((True, stale, s)), results.get((False, stale, s))
                        if a is not None and b is not None and not all(np.array_equal(x, y) for x, y in zip(a, b)):
                            res.violation("simulate", "auto-update-changes-result", {"case": case, "skip": skip, "stale": stale, "seed": s}, f"simulate gives different values with auto_update on vs off (case {case}, skip {skip}, stale {stale}, seed {s}): {[x.ravel()[:2] for x in a]} vs {[y.ravel()[:2] for y in b]}")
                # different seeds => different root draws
                if 0 not in subset and len(seeds) > 1:
                    a, b = results.get((True, False, seeds[0])), results.get((True, False, seeds[1]))
                    if a is not None and b is not None and np.array_equal(a[0], b[0]):
                        res.violation("simulate", "seed-ignored", {"case": case}, f"root draw identical for seeds {seeds[:2]}")
    res.states += 1


def run_diamond2(res, seeds):
    """
    a ~ N(0,1), b ~ N(0,1); t = Calc(h, b); y ~ N(loc = Calc(add, t, a), scale = Calc(g, a)).
    A shared ancestor (a) reachable on two paths, with a further cached Calc (t) that is only
    reachable through the FIRST parameter: every parameter of y must see the NEW a and b.
    All four argument orders of the two-input Calc / the Dist are enumerated.
    """
    import jax
    import jax.numpy as jnp
    import liesel.model as lsl
    import numpy as np
    import tensorflow_probability.substrates.jax.distributions as tfd

    for order in range(4):
        for auto in (True, False):
            for s in seeds:
                log = []
                a = lsl.Var(jnp.float32(0.1), lsl.Dist(lambda *x: Rec("a", log, tfd.Normal, *x), jnp.float32(0.0), jnp.float32(1.0)), name="pa")
                b = lsl.Var(jnp.float32(0.2), lsl.Dist(lambda *x: Rec("b", log, tfd.Normal, *x), jnp.float32(0.0), jnp.float32(1.0)), name="pb")
                t = lsl.Calc(lambda v: 2.0 * v, b, _name="t")
                loc = lsl.Calc(lambda u, v: u + v, t, a, _name="loc") if order % 2 == 0 else lsl.Calc(lambda v, u: u + v, a, t, _name="loc")
                scale = lsl.Calc(lambda v: 1.0 + 0.0 * v + jnp.abs(v) * 0.5, a, _name="scale")
                mk = lambda **kw: Rec("y", log, tfd.Normal, **kw)  # noqa
                dist = lsl.Dist(mk, loc=loc, scale=scale) if order < 2 else lsl.Dist(mk, scale=scale, loc=loc)
                y = lsl.Var(jnp.float32(0.3), dist, name="ay")
                m = lsl.GraphBuilder().add(y).build_model()
                m.auto_update = auto
                log.clear()
                cname = {"case": "diamond2", "order": order, "auto": auto, "seed": s}
                try:
                    m.simulate(jax.random.PRNGKey(s))
                except Exception as e:
                    if not core.raised_in_repo(e, transparent=("log_prob", "sample", "<lambda>")):
                        raise
                    res.violation("simulate", "simulate-or-update-raises", cname, f"simulate failed: {type(e).__name__}: {e}")
                    continue
                res.executions += 1
                res.transitions += 1
                a_new, b_new = np.float32(a.value), np.float32(b.value)
                got = dict(log).get("y")
                if got is None:
                    res.violation("simulate", "drawn-set-var", cname, "y was not drawn")
                    continue
                want_loc = np.float32(np.float32(2.0) * b_new + a_new)
                want_scale = np.float32(1.0 + 0.0 * a_new + abs(a_new) * 0.5)
                got_loc, got_scale = np.float32(got[0]), np.float32(got[1])  # kwargs sorted: loc, scale
                if not (np.isclose(got_loc, want_loc, rtol=1e-6, atol=1e-6) and np.isclose(got_scale, want_scale, rtol=1e-6, atol=1e-6)):
                    res.violation("simulate", f"stale-parameter-diamond-auto{int(auto)}", cname, f"y drawn with (loc, scale) = ({got_loc}, {got_scale}) but the newly drawn ancestors a={a_new}, b={b_new} give ({want_loc}, {want_scale}) ({cname})")
                res.outcome("diamond2", order, auto)
    res.states += 1


def run_siblings(res, seeds):
    """
    'The result is determined by the seed': n mutually independent parameters with a common child,
    the identical construction code run several times in one process (all copies kept alive, so the
    objects sit at different addresses and are created in different allocator states). Every copy,
    simulated with the same seed and skip set, must end with identical values - for every skip set
    of size <= 1, both auto-update settings, and again after deep copy.
    """
    import copy

    import jax
    import jax.numpy as jnp
    import liesel.model as lsl
    import numpy as np
    import tensorflow_probability.substrates.jax.distributions as tfd

    keep = []

    def build(n):
        thetas = [lsl.Var(jnp.float32(0.0), lsl.Dist(tfd.Normal, loc=jnp.float32(i), scale=jnp.float32(1.0)), name=f"th{(7 * i) % n}_{i}") for i in range(n)]
        mean = lsl.Calc(lambda *t: sum(t), *thetas)
        y = lsl.Var(jnp.zeros(3, jnp.float32), lsl.Dist(tfd.Normal, loc=mean, scale=jnp.float32(1.0)), name="y")
        keep.append([bytearray(37 * (len(keep) + 1)) for _ in range(5 + 3 * len(keep))])  # perturb the allocator between copies
        return lsl.GraphBuilder().add(y).build_model()

    for n in (3, 6):
        models = [build(n) for _ in range(6)]
        models.append(copy.deepcopy(models[0]))
        keep.append(models)
        names = sorted(models[0].vars)
        for s in seeds:
            for skip in [()] + [(nm,) for nm in names if nm != "y"][:3]:
                for auto in (True, False):
                    outs = []
                    for m in models:
                        m.auto_update = auto
                        for nm in names:
                            m.vars[nm].value = jnp.zeros_like(m.vars[nm].value)
                        m.update()
                        try:
                            m.simulate(jax.random.PRNGKey(s), skip=skip)
                            m.update()
                        except Exception as e:
                            if not core.raised_in_repo(e):
                                raise
                            res.violation("simulate", "simulate-or-update-raises", {"case": "siblings", "n": n}, f"simulate failed: {type(e).__name__}: {e}")
                            return
                        outs.append({nm: np.asarray(m.vars[nm].value).tolist() for nm in names})
                        res.executions += 1
                        res.transitions += 1
                    differing = [i for i, o in enumerate(outs) if o != outs[0]]
                    res.outcome("siblings", n, len(skip), auto)
                    if differing:
                        which = sorted(nm for nm in names if outs[differing[0]][nm] != outs[0][nm])
                        res.violation("simulate", "not-determined-by-seed", {"case": "siblings", "n": n, "seed": s, "skip": list(skip), "auto": auto},
                                      f"{n} independent parameters, seed {s}, skip {list(skip)}: identically built model copies {differing} differ from copy 0 in {which}")
                        return
                    if len({tuple(np.ravel(outs[0][nm])) for nm in names if nm not in skip and nm != "y"}) < n - len(skip):
                        res.violation("simulate", "siblings-share-draw", {"case": "siblings", "n": n, "seed": s}, f"independent parameters received identical draws: {outs[0]}")
                        return
    res.states += 1


def run_unit(unit):
    core.assert_repo()
    res = core.UnitResult(unit)
    if unit.get("diamond2"):
        run_diamond2(res, unit["seeds"])
    if unit.get("siblings"):
        run_siblings(res, unit["seeds"])
    for case in unit["cases"]:
        run_case(res, case, unit["seeds"])
        res.sample({"case": case, "seeds": unit["seeds"]}, limit=1)
    res.note([res.executions, sorted(res.outcomes)[:50]])
    return res
