"""
C06 - proposal corrections of the RW / IWLS / MH kernels.

Every unit fixes (kernel variant, model family, block layout, model interface), builds
the REAL kernel on a real model interface and evaluates ``kernel.transition`` on the
full product  lattice points x  *  scripted Gaussian draws z  *  step sizes s  *
scripted uniform draws u  *  epoch types.  The Gaussian and the uniform draw are owned
by ``mc.seams.ScriptedPRNG``; the script hands the kernel *traced inputs*, so one
compiled function (jit + vmap, the mode the engine uses) evaluates the whole lattice;
a sub-lattice is re-run eagerly (``jax.disable_jit()``, list script, recording model
interface) and must agree.

Oracle (mc/ref/c06_ref.py, float64, analytic gradient / Hessian):
  * proposal law: x'(z) is affine in z, x'(0) = documented mean, A A^T = documented
    covariance (A recovered from z = e_i) - RW N(x, s^2 I), IWLS N(x + s^2/2 F^-1 g,
    s^2 F^-1) with F = -Hessian or the user's matrix, MH: the user's map;
  * reported acceptance probability == min(1, pi(x')q(x|x') / (pi(x)q(x'|x)));
  * reverse move: at x' the draw that proposes x is scripted; both acceptance
    probabilities together satisfy detailed balance w.r.t. the reference pi and q;
  * the move happens iff u < alpha, writes x' (else leaves the state untouched), never
    touches keys outside the block;
  * key discipline (eager, real keys read by the seam): the Gaussian and the uniform draw of
    one transition use different PRNG keys, none is the kernel's input key, and transitions
    with different input keys share no key (otherwise the accept decision is a function of
    the proposal and the realised process is not the one alpha describes);
  * solve / mvn_log_prob / mvn_sample on all lattices of 2x2 / 3x3 Cholesky factors.
"""

from __future__ import annotations

import itertools
import math

import numpy as np

from mc import core
from mc.ref import c06_ref as R

PROPERTY = "C06"
RULE = (
    "units: kernel variant (RW, IWLS with -Hessian, IWLS with a constant / state-dependent "
    "user information, MH with drift / multiplicative / independence proposals and with proposals declaring -inf / +inf corrections for irreversible moves) x model family "
    "(Gaussian, logistic, Poisson, Gamma-Poisson on the log scale; DictInterface and a real "
    "lsl.Model through LieselInterface and the legacy lsl.GooseModel, auto_update on and off) x block layout (scalar, vector, two keys listed in "
    "non-alphabetical order, one key of two). Per unit the full product lattice(x) x scripted "
    "z (0, unit vectors, lattice) x step sizes x scripted u x epoch types is executed on the "
    "real kernel.transition (jit+vmap over the product, scripted draws passed as traced inputs), "
    "plus for every (x,z,s) the reverse move from x' (z' solved from the reconstructed proposal "
    "map), plus an eager sub-lattice. Distinct outcome = (kernel, alpha class, moved, u class)."
)
ASSUMPTIONS = [
    "lattice statement: nothing is claimed between lattice points; lattices cover alpha=1, 0<alpha<1 and alpha~0, accepted and rejected moves, scalar/vector/multi-key blocks",
    "the Gaussian and uniform draws are scripted through jax.random.normal/uniform (ScriptedPRNG); key splitting stays real, the key is an input label (VERIF_SEED)",
    "reference pi, gradient, Hessian and Gaussian densities are float64 closed forms (finite-difference self-test per unit); liesel computes in float32; tolerances: alpha 2e-4 absolute, log-ratio 2e-3 + 2e-5*magnitude when alpha_ref > 1e-4",
    "the MH acceptance rule itself (u < alpha) is C05's subject; here u only labels the accept / reject branch",
    "a proposal is observed through the accepted state at u = 0; where the reported alpha is exactly 0 (float32 underflow, or the NaN guard with error code 90 after a float32 overflow far out in the Poisson families) the proposal is predicted from the documented law (Cholesky square root) and the reference alpha there must be <= 2e-4",
    "independence of the proposal draw and the accept draw is checked structurally (distinct PRNG keys per draw, per unit x {standard, adaptive} x 3 input keys, eager); jax.random's independence across distinct split keys is trusted",
    "jit+vmap is trusted to compute the same function as eager execution except on the eager sub-lattice where both are compared",
]

TOL_ALPHA = 2e-4
U_HI = 1.0 - 2.0**-24


def bounds(tier):
    return {
        "step_sizes": S_LAT[tier],
        "uniforms": [0.0, 0.5, U_HI],
        "epoch_types": E_LAT[tier],
        "x_lattice_1d": X1[tier],
        "x_lattice_3d": X3[tier],
        "z_lattice": "0, +-e_i, product lattice " + str(ZP[tier]),
        "eager_cases_per_unit": EAGER[tier],
        "utils": "all lower-triangular 2x2 and 3x3 factors with diag in {0.5,1,2.5}, off-diag in {-0.8,0,1.3}",
        "off": OFFS[tier],
    }


S_LAT = {"quick": [0.1, 0.5, 1.0, 2.0], "thorough": [0.05, 0.1, 0.3, 0.5, 1.0, 2.0, 3.0]}
E_LAT = {"quick": [1, 4], "thorough": [1, 2, 3, 4]}
X1 = {"quick": [-1.2, -0.3, 0.4, 1.1, 2.0], "thorough": [-2.0, -1.2, -0.7, -0.3, 0.0, 0.4, 0.8, 1.1, 1.6, 2.0, 2.6]}
X3 = {
    "quick": [[-0.8, 0.5, 1.4], [-1.0, 0.2], [-0.4, 0.9]],
    "thorough": [[-1.5, -0.8, 0.5, 1.4], [-1.0, 0.2, 1.2], [-0.9, -0.4, 0.9]],
}
ZP = {"quick": [-1.3, 0.6], "thorough": [-2.1, 0.6, 1.6]}
Z1 = {"quick": [0.0, 1.0, -1.0, 0.5, -2.2, 1.7], "thorough": [0.0, 1.0, -1.0, 0.5, -2.2, 1.7, 0.1, -0.4, 3.0, -3.1]}
EAGER = {"quick": 3, "thorough": 8}
OFFS = {"quick": [0.3], "thorough": [0.3, -0.6]}

LAYOUTS = {
    # name: (d, position_keys, description of state keys)
    "scalar": (1, ["x"]),
    "vector": (3, ["x"]),
    "twokeys": (3, ["zeta", "alpha"]),
    "partial": (3, ["zeta"]),
}


def units(tier, seed):
    out = [{"kind": "utils", "dim": 2}, {"kind": "utils", "dim": 3}]
    i = 0

    def add(**kw):
        nonlocal i
        for off in OFFS[tier]:
            i += 1
            out.append({"kind": "kernel", "tier": tier, "key": 1000 * seed + i, "off": off, "iface": "dict", **kw})

    fams = ["gauss", "logit", "pois", "gampois"]
    for fam in fams:
        for lay in LAYOUTS:
            if fam == "gampois" and lay in ("twokeys", "partial") and tier == "quick":
                continue
            add(kernel="rw", family=fam, layout=lay)
            add(kernel="iwls", info=None, family=fam, layout=lay)
    for fam in ["gauss", "pois", "logit"]:
        for lay in ["scalar", "vector", "twokeys"] if tier == "quick" else list(LAYOUTS):
            for info in ["const", "statedep"]:
                if tier == "quick" and fam == "logit" and info == "const":
                    continue
                add(kernel="iwls", info=info, family=fam, layout=lay)
    for prop in ["drift", "mult", "indep"]:
        for fam in ["gauss", "pois"] if tier == "quick" else ["gauss", "pois", "logit", "gampois"]:
            for lay in ["scalar", "twokeys"] if tier == "quick" else list(LAYOUTS):
                add(kernel="mh", proposal=prop, family=fam, layout=lay)
    # user proposals that declare non-finite corrections (irreversible moves): forwarded unchanged
    for prop in ["onesided", "gate"]:
        for fam in ["gauss", "pois"]:
            for lay in ["scalar", "twokeys"] if tier == "quick" else list(LAYOUTS):
                add(kernel="mh", proposal=prop, family=fam, layout=lay)
    # legacy interface lsl.GooseModel and models with auto_update off
    extra_ifaces = [
        ("goose-noauto", [dict(kernel="rw"), dict(kernel="iwls", info=None), dict(kernel="mh", proposal="drift")], ["vector", "partial"]),
        ("goose", [dict(kernel="rw"), dict(kernel="iwls", info=None), dict(kernel="mh", proposal="drift")], ["vector"]),
        ("liesel-noauto", [dict(kernel="rw"), dict(kernel="iwls", info=None)], ["partial"]),
    ]
    for iface, kerns, lays in extra_ifaces:
        for kern in kerns:
            for lay in lays if tier == "quick" else ["scalar", "vector", "twokeys", "partial"]:
                i += 1
                out.append({"kind": "kernel", "tier": tier, "key": 1000 * seed + i, "off": OFFS[tier][0], "iface": iface, "family": "pois", "layout": lay, **kern})
    # real lsl.Model through LieselInterface (Poisson regression and Gaussian)
    for kern in [dict(kernel="rw"), dict(kernel="iwls", info=None), dict(kernel="iwls", info="statedep"), dict(kernel="mh", proposal="drift")]:
        for lay in ["vector", "partial"] if tier == "quick" else ["scalar", "vector", "twokeys", "partial"]:
            i += 1
            out.append({"kind": "kernel", "tier": tier, "key": 1000 * seed + i, "off": OFFS[tier][0], "iface": "liesel", "family": "pois", "layout": lay, **kern})
    return out


# ---------------------------------------------------------------------------------
# jax twins of the families (written from the statistical definition, with tfd where
# that is natural), model construction
# ---------------------------------------------------------------------------------


def _assemble(layout):
    """state dict -> theta (jnp) and theta -> dict of block/rest leaves."""
    import jax.numpy as jnp

    if layout in ("scalar",):
        return (lambda st: jnp.reshape(st["x"], (1,))), (lambda th: {"x": th[0]})
    if layout == "vector":
        return (lambda st: st["x"]), (lambda th: {"x": th})
    return (
        lambda st: jnp.concatenate([st["zeta"], jnp.reshape(st["alpha"], (1,))]),
        lambda th: {"zeta": th[0:2], "alpha": th[2]},
    )


def _family_logp_jnp(name, d):
    import jax.numpy as jnp
    import tensorflow_probability.substrates.jax.distributions as tfd

    X = jnp.asarray(np.array(R.X_ROWS, dtype=np.float32)[:, :d])
    if name == "gauss":
        m = jnp.asarray(np.array(R.G_MEAN, dtype=np.float32)[:d])
        P = jnp.asarray(np.array(R.G_PREC, dtype=np.float32)[:d, :d])
        dr = jnp.asarray(np.array(R.G_OFFDIR, dtype=np.float32)[:d])

        def lp(th, off):
            r = th - (m + off * dr)
            return -0.5 * jnp.dot(r, P @ r)

        return lp
    if name == "logit":
        y = jnp.asarray(R.Y_BIN, dtype=jnp.float32)

        def lp(th, off):
            eta = X @ th + off
            return jnp.sum(tfd.Bernoulli(logits=eta).log_prob(y)) + jnp.sum(tfd.Normal(0.0, R.TAU).log_prob(th))

        return lp
    if name == "pois":
        y = jnp.asarray(R.Y_CNT, dtype=jnp.float32)

        def lp(th, off):
            eta = X @ th + off
            return jnp.sum(tfd.Poisson(log_rate=eta).log_prob(y)) + jnp.sum(tfd.Normal(0.0, R.TAU).log_prob(th))

        return lp
    if name == "gampois":
        a = jnp.asarray(np.array(R.GP_A, dtype=np.float32)[:d])
        b = jnp.asarray(np.array(R.GP_B, dtype=np.float32)[:d])
        Y = jnp.asarray(np.array(R.GP_Y, dtype=np.float32)[:d])

        def lp(th, off):
            lam = jnp.exp(th)
            prior = jnp.sum(tfd.Gamma(a, b).log_prob(lam) + th)  # + log |d lam / d theta|
            lik = jnp.sum(tfd.Poisson(rate=lam[:, None] * jnp.exp(off)).log_prob(Y))
            return prior + lik

        return lp
    raise ValueError(name)


class Setup:
    """Real model interface + real kernel for one unit."""

    def __init__(self, unit):
        import jax
        import jax.numpy as jnp
        from jax.flatten_util import ravel_pytree

        import liesel.goose as gs

        self.unit = unit
        self.layout = unit["layout"]
        self.d, self.pkeys = LAYOUTS[self.layout]
        self.family = unit["family"]
        self.off = float(np.float32(unit["off"]))
        self.fam = R.Family(self.family, self.d)
        to_theta, to_leaves = _assemble(self.layout)
        self.to_theta, self.to_leaves = to_theta, to_leaves
        # flat order of the block as jax flattens a position dict (harness knowledge
        # used only to translate between dict leaves and block vectors)
        label = to_leaves(jnp.arange(self.d, dtype=jnp.float32))
        flat, _ = ravel_pytree({k: label[k] for k in self.pkeys})
        self.bidx = [int(v) for v in np.asarray(flat)]
        self.k = len(self.bidx)
        self.block = R.Block(self.fam, self.bidx, self.off)

        if unit["iface"] == "dict":
            lp = _family_logp_jnp(self.family, self.d)

            def log_prob_fn(st):
                return lp(to_theta(st), st["off"])

            self.iface = gs.DictInterface(log_prob_fn)
            self.base_state = None
        else:
            self._build_liesel()

        self.kernel = self._build_kernel(gs)
        self.kernel.set_model(self.iface)
        self.key = jax.random.PRNGKey(int(unit["key"]))

    # -- liesel model --------------------------------------------------------------
    def _build_liesel(self):
        import jax.numpy as jnp
        import tensorflow_probability.substrates.jax.distributions as tfd

        import liesel.goose as gs
        import liesel.model as lsl

        assert self.family == "pois"
        d = self.d
        X = np.array(R.X_ROWS, dtype=np.float32)[:, :d]
        y = np.array(R.Y_CNT, dtype=np.float32)
        off = lsl.Var(jnp.asarray(self.off, dtype=jnp.float32), name="off")
        if self.layout == "scalar":
            x = lsl.param(jnp.asarray(0.0), lsl.Dist(tfd.Normal, loc=0.0, scale=R.TAU), name="x")
            eta = lsl.Var(lsl.Calc(lambda x, o: X[:, 0] * x + o, x, off), name="eta")
        elif self.layout == "vector":
            x = lsl.param(jnp.zeros(d), lsl.Dist(tfd.Normal, loc=0.0, scale=R.TAU), name="x")
            eta = lsl.Var(lsl.Calc(lambda x, o: X @ x + o, x, off), name="eta")
        else:
            zeta = lsl.param(jnp.zeros(2), lsl.Dist(tfd.Normal, loc=0.0, scale=R.TAU), name="zeta")
            alpha = lsl.param(jnp.asarray(0.0), lsl.Dist(tfd.Normal, loc=0.0, scale=R.TAU), name="alpha")
            eta = lsl.Var(lsl.Calc(lambda z, a, o: X[:, 0:2] @ z + X[:, 2] * a + o, zeta, alpha, off), name="eta")
        yv = lsl.obs(jnp.asarray(y), lsl.Dist(tfd.Poisson, log_rate=eta), name="y")
        from mc.seams import quiet

        import warnings

        with quiet():
            model = lsl.GraphBuilder().add(yv).build_model()
        kind = self.unit["iface"]
        model.auto_update = not kind.endswith("-noauto")
        if not model.auto_update:
            model.update()
        if kind.startswith("goose"):
            with warnings.catch_warnings():
                warnings.simplefilter("ignore", FutureWarning)  # lsl.GooseModel is deprecated
                self.iface = lsl.GooseModel(model)
        else:
            self.iface = gs.LieselInterface(model)
        if self.iface._model.auto_update != model.auto_update:
            raise RuntimeError("the interface's model copy lost the auto_update setting")
        self.base_state = model.state

    # -- state construction --------------------------------------------------------
    def state_of(self, theta):
        import jax.numpy as jnp

        leaves = self.to_leaves(theta)
        if self.base_state is None:
            st = dict(leaves)
            st["off"] = jnp.asarray(self.off, dtype=jnp.float32)
            return st
        return self.iface.update_state(leaves, self.base_state)

    def theta_of(self, state):
        import jax.numpy as jnp

        keys = list(self.to_leaves(jnp.zeros(self.d)).keys())
        pos = self.iface.extract_position(keys, state)
        return self.to_theta(pos)

    def off_of(self, state):
        return self.iface.extract_position(["off"], state)["off"]

    # -- kernel ----------------------------------------------------------------------
    def _build_kernel(self, gs):
        import jax
        import jax.numpy as jnp
        from jax.flatten_util import ravel_pytree

        u = self.unit
        if u["kernel"] == "rw":
            return gs.RWKernel(self.pkeys)
        if u["kernel"] == "iwls":
            info = u.get("info")
            if info is None:
                return gs.IWLSKernel(self.pkeys)
            C = jnp.asarray(np.array(R.U_CONST, dtype=np.float32)[: self.k, : self.k])
            iface, pkeys = self.iface, self.pkeys

            def chol_info_fn(model_state):
                xb, _ = ravel_pytree(iface.extract_position(pkeys, model_state))
                if info == "const":
                    F = C
                else:
                    t = jnp.tanh(xb)
                    F = C + jnp.diag(0.5 * xb**2) + 0.25 * jnp.outer(t, t)
                return jnp.linalg.cholesky(F)

            return gs.IWLSKernel(self.pkeys, chol_info_fn=chol_info_fn)
        if u["kernel"] == "mh":
            kind = u["proposal"]
            iface, pkeys, k = self.iface, self.pkeys, self.k
            center = jnp.asarray(np.array(R.MH_CENTER, dtype=np.float32)[:k])

            def norm_lp(x, mean, s):
                return jnp.sum(jax.scipy.stats.norm.logpdf(x, mean, s))

            def proposal_fn(key, model_state, step_size):
                pos = iface.extract_position(pkeys, model_state)
                xb, unravel = ravel_pytree(pos)
                z = jax.random.normal(key, xb.shape)
                s = step_size
                if kind == "drift":
                    xp = xb + s * R.MH_DRIFT + s * z
                    corr = norm_lp(xb, xp + s * R.MH_DRIFT, s) - norm_lp(xp, xb + s * R.MH_DRIFT, s)
                elif kind == "mult":
                    xp = xb * jnp.exp(s * z)
                    corr = jnp.sum(jnp.log(xp) - jnp.log(xb))
                elif kind == "onesided":
                    # irreversible move: every component goes up; q(x|x') = 0 unless nothing moved
                    xp = xb + s * jnp.abs(z)
                    corr = jnp.where(jnp.any(xp > xb), -jnp.inf, 0.0)
                elif kind == "gate":
                    xp = xb + s * z
                    corr = jnp.where(z[0] > R.MH_GATE, jnp.inf, jnp.where(z[0] < -R.MH_GATE, -jnp.inf, 0.0))
                else:
                    xp = center + s * z
                    corr = norm_lp(xb, center, s) - norm_lp(xp, center, s)
                return gs.MHProposal(unravel(xp), corr)

            return gs.MHKernel(self.pkeys, proposal_fn)
        raise ValueError(u["kernel"])

    # -- the function under test -------------------------------------------------------
    def transition_fn(self):
        """f(theta, z, u, s, etype) -> dict of outputs; one real kernel.transition."""
        import jax
        import jax.numpy as jnp
        from jax.flatten_util import ravel_pytree

        from liesel.goose.epoch import EpochConfig, EpochState
        from mc.seams import ScriptedPRNG

        kernel, key = self.kernel, self.key

        def f(theta, z, u, s, etype):
            st = self.state_of(theta)
            ks = kernel.init_state(key, st)
            ks.step_size = s
            ep = EpochState(EpochConfig(etype, 5, 1, None), 2, 7, 5, 2)

            def script(fn, i, shape, info):
                if fn == "normal":
                    if tuple(shape) != (self.k,):
                        raise RuntimeError(f"unexpected normal draw of shape {shape}")
                    return z
                if fn == "uniform":
                    if tuple(shape) != ():
                        raise RuntimeError(f"unexpected uniform draw of shape {shape}")
                    return u
                raise RuntimeError(f"unexpected draw {fn}")

            with ScriptedPRNG(script) as sp:
                out = kernel.transition(key, ks, st, ep)
            fns = sorted(e["fn"] for e in sp.log)
            # under jit both cond branches are traced: 2 x (normal, uniform); eager: 1 x
            if fns not in (["normal", "uniform"], ["normal", "normal", "uniform", "uniform"]):
                raise RuntimeError(f"seam saw draws {fns}")
            flat, _ = ravel_pytree(self.iface.extract_position(self.pkeys, out.model_state))
            return {
                "alpha": out.info.acceptance_prob,
                "moved": out.info.position_moved,
                "err": out.info.error_code,
                "xb": flat,
                "theta": self.theta_of(out.model_state),
                "off": self.off_of(out.model_state),
            }

        return f


# ---------------------------------------------------------------------------------
# lattices
# ---------------------------------------------------------------------------------


def f32(x):
    return np.asarray(x, dtype=np.float32)


def lattices(setup: Setup, tier):
    d, k = setup.d, setup.k
    positive = setup.unit.get("proposal") == "mult"
    if d == 1:
        thetas = [[v] for v in X1[tier]]
    else:
        thetas = [list(t) for t in itertools.product(*X3[tier])]
    if positive:
        thetas = sorted({tuple(abs(v) + 0.2 for v in t) for t in thetas})
        thetas = [list(t) for t in thetas]
    if k == 1:
        zs = [[v] for v in Z1[tier]]
    else:
        zs = [[0.0] * k]
        for i in range(k):
            e = [0.0] * k
            e[i] = 1.0
            zs.append(e)
        e = [0.0] * k
        e[0] = -1.0
        zs.append(e)
        zs += [list(t) for t in itertools.product(ZP[tier], repeat=k)]
    return f32(thetas), f32(zs), f32(S_LAT[tier]), f32([0.0, 0.5, U_HI]), np.asarray(E_LAT[tier], dtype=np.int32)


# ---------------------------------------------------------------------------------
# reference side
# ---------------------------------------------------------------------------------


class Oracle:
    def __init__(self, setup: Setup):
        self.s = setup
        self.u = setup.unit
        self.kernel = setup.unit["kernel"]

    def law(self, theta, xb, s):
        """documented (mean, cov) of q(.|xb) for RW / IWLS"""
        if self.kernel == "rw":
            return R.law_rw(xb, s)
        return R.law_iwls(self.s.block, theta, xb, s, self.u.get("info"))

    def logq(self, theta_from, x_to, x_from, s):
        if self.kernel == "mh":
            return R.mh_logq(self.u["proposal"], x_to, x_from, s)
        th = np.array(theta_from, dtype=np.float64)
        th[self.s.bidx] = x_from
        m, C = self.law(th, x_from, s)
        return R.mvn_logpdf(x_to, m, C)

    def predict(self, theta, xb, z, s):
        """proposal predicted from the documented law (only used when alpha == 0 hides x')"""
        if self.kernel == "mh":
            return R.mh_map(self.u["proposal"], xb, z, s)
        m, C = self.law(theta, xb, s)
        # x' = m + A z with the square root liesel documents for mvn_sample (Cholesky factor
        # L of the inverse covariance, A = L^-T)
        L = np.linalg.cholesky(np.linalg.inv(C))
        return m + np.linalg.solve(L.T, z)

    def alpha_predicted(self, theta, xb, z, s):
        with np.errstate(all="ignore"):
            xp = self.predict(theta, xb, z, s)
            if not np.all(np.isfinite(xp)):
                return 0.0  # the documented proposal itself overflows float64: pi(x') = 0
            lp_x = self.s.block.logp(theta, xb)
            lp_xp = self.s.block.logp(theta, xp)
            if self.kernel == "mh" and self.u["proposal"] == "mult" and np.any(xp <= 0):
                return 0.0
            if not (lp_xp - lp_x > -700.0):
                # pi(x')/pi(x) < e^-700; the Gaussian proposal ratio is bounded by
                # exp(|z|^2/2 + log-determinant terms) << e^600 on these lattices
                return 0.0
            try:
                logr = self.ratio(theta, xb, xp, s)[0]
            except (RuntimeError, np.linalg.LinAlgError):
                return float("nan")
            return R.alpha_of(logr)

    def ratio(self, theta, xb, xp, s):
        """returns (log ratio, lp_x, lp_xp, lq_fwd, lq_bwd)"""
        b = self.s.block
        lp_x = b.logp(theta, xb)
        lp_xp = b.logp(theta, xp)
        if self.kernel == "mh" and self.u["proposal"] in ("gate", "onesided"):
            # the user-declared log-correction, possibly +-inf (forwarded unchanged)
            c = R.mh_logcorr(self.u["proposal"], xb, xp, s)
            return (lp_xp - lp_x) + c, lp_x, lp_xp, 0.0, c
        fwd = self.logq(theta, xp, xb, s)
        bwd = self.logq(theta, xb, xp, s)
        return R.log_ratio(lp_x, lp_xp, fwd, bwd), lp_x, lp_xp, fwd, bwd


def alpha_class(a):
    if a >= 1.0:
        return "a=1"
    if a <= 1e-6:
        return "a~0"
    return "0<a<1"


# ---------------------------------------------------------------------------------
# units
# ---------------------------------------------------------------------------------


def run_unit(unit):
    core.assert_repo()
    if unit["kind"] == "utils":
        return run_utils(unit)
    return run_kernel(unit)


class Worst:
    """keeps one (the first) violation per (check, sig) and the count"""

    def __init__(self, res, tag):
        self.res, self.tag, self.seen = res, tag, {}

    def fail(self, check, case, message, sub=""):
        sig = self.tag + (":" + sub if sub else "")
        n = self.seen.get((check, sig), 0)
        self.seen[(check, sig)] = n + 1
        if n == 0:
            self.res.violation(check, sig, case, message)


def unit_tag(unit):
    t = unit["kernel"]
    if unit["kernel"] == "iwls":
        t += "-" + (unit.get("info") or "hessian")
    if unit["kernel"] == "mh":
        t += "-" + unit["proposal"]
    return f"{t}/{unit['family']}/{unit['layout']}/{unit['iface']}"


def run_kernel(unit):
    import jax
    import jax.numpy as jnp

    tier = unit["tier"]
    res = core.UnitResult(unit)
    setup = Setup(unit)
    orc = Oracle(setup)
    tag = unit_tag(unit)
    W = Worst(res, tag)
    kname = unit["kernel"]
    k, d, bidx = setup.k, setup.d, setup.bidx

    # harness sanity: reference derivatives, and reference density == jax twin up to a constant
    thetas, zs, ss, us, es = lattices(setup, tier)
    R.self_test_family(setup.fam, thetas[0].astype(np.float64), setup.off)
    lp_j = jax.jit(jax.vmap(lambda th: setup.iface.log_prob(setup.state_of(th))))(jnp.asarray(thetas))
    lp_r = np.array([setup.fam.logp(t.astype(np.float64), setup.off) for t in thetas])
    dev = (np.asarray(lp_j, dtype=np.float64) - lp_r)
    if np.max(np.abs(dev - dev[0])) > 1e-3 * (1 + np.max(np.abs(lp_r))):
        if unit["iface"] == "dict":
            raise RuntimeError(f"model twin and reference density disagree: {dev}")
        # real lsl.Model behind liesel's own interface: update_state + log_prob IS code under
        # test (the kernels' pi); a wrong density after update_state is a finding
        W.fail("interface-density", {"thetas": thetas.tolist(), "log_prob_interface": np.asarray(lp_j, dtype=np.float64).tolist(), "log_prob_reference": lp_r.tolist()},
               f"log_prob(update_state(position)) through {type(setup.iface).__name__} (auto_update={setup.iface._model.auto_update}) is not the model density at the position (differences to the reference are not constant: {dev[:4].tolist()})")

    f = setup.transition_fn()
    F = jax.jit(jax.vmap(f))

    def run(TH, Z, U, S, E):
        out = F(jnp.asarray(TH, dtype=jnp.float32), jnp.asarray(Z, dtype=jnp.float32), jnp.asarray(U, dtype=jnp.float32),
                jnp.asarray(S, dtype=jnp.float32), jnp.asarray(E, dtype=jnp.int32))
        return {kk: np.asarray(v) for kk, v in out.items()}

    # ---- stage 1: full product ---------------------------------------------------
    idx = list(itertools.product(range(len(thetas)), range(len(zs)), range(len(ss)), range(len(us)), range(len(es))))
    I = np.array(idx)
    o1 = run(thetas[I[:, 0]], zs[I[:, 1]], us[I[:, 3]], ss[I[:, 2]], es[I[:, 4]])
    res.transitions += len(idx)
    res.executions += len(idx)
    shape = (len(thetas), len(zs), len(ss), len(us), len(es))
    A1 = {kk: v.reshape(shape + v.shape[1:]) for kk, v in o1.items()}
    res.note([A1["alpha"].astype(np.float64).round(5).tolist()[0]])

    max_noise = {"alpha": 0.0, "logr": 0.0, "mean": 0.0, "cov": 0.0, "affine": 0.0, "rev_x": 0.0, "db": 0.0}
    rev_cases = []  # (theta, xb, z, s, xp, alpha) for stage 2
    for ix, th32 in enumerate(thetas):
        theta = th32.astype(np.float64)
        xb = theta[bidx]
        for is_, s32 in enumerate(ss):
            s = float(s32)
            # proposals observed at u = 0 (accepted whenever alpha > 0)
            xps = []
            for iz in range(len(zs)):
                a = A1["alpha"][ix, iz, is_]  # [u, e]
                case = {"theta": theta.tolist(), "z": zs[iz].tolist(), "s": s, "unit_tag": tag}
                # alpha must not depend on u or the epoch type; error code 0; in [0,1]
                if not np.all(np.isfinite(a)) or a.min() < 0 or a.max() > 1:
                    W.fail("alpha-range", case, f"acceptance probability {a.tolist()} outside [0,1]")
                    xps.append(None)
                    continue
                errs = A1["err"][ix, iz, is_]
                if np.any((errs != 0) & (errs != 90)):
                    W.fail("error-code", case, f"undocumented error code {errs.tolist()}")
                if np.any((errs == 90) & (a != 0)):
                    W.fail("error-code", case, f"error code 90 (NaN) but acceptance probability {a.tolist()}")
                if np.any(errs == 90) and not np.all(errs == 90):
                    W.fail("alpha-depends-on-u-or-epoch", case, f"error code differs across u/epoch type: {errs.tolist()}")
                if a.max() - a.min() > 2e-5:  # both cond branches are compiled separately: float32 fusion noise ~1e-6
                    W.fail("alpha-depends-on-u-or-epoch", case, f"alpha differs across u/epoch type: {a.tolist()}")
                alpha = float(a[0, 0])
                # act: moved iff u < alpha; state after = x' or untouched
                xp = None
                if alpha > 0:
                    if not A1["moved"][ix, iz, is_, 0, 0]:
                        W.fail("accept-act", case, f"alpha={alpha} > 0 and u=0 but not moved")
                    else:
                        xp = A1["xb"][ix, iz, is_, 0, 0].astype(np.float64)
                for iu, u in enumerate(us):
                    for ie, e in enumerate(es):
                        mv = bool(A1["moved"][ix, iz, is_, iu, ie])
                        res.outcome(kname, alpha_class(alpha), "moved" if mv else "stay", f"u{iu}", f"e{int(e)}")
                        if mv != (float(u) < float(a[iu, ie])):
                            W.fail("accept-act", {**case, "u": float(u), "epoch": int(e)}, f"moved={mv} but u={float(u)} alpha={float(a[iu, ie])}")
                        th_after = A1["theta"][ix, iz, is_, iu, ie]
                        if mv:
                            if xp is not None and np.max(np.abs(A1["xb"][ix, iz, is_, iu, ie].astype(np.float64) - xp)) > 2e-5 * (1 + np.max(np.abs(xp))):
                                W.fail("accept-act", {**case, "u": float(u)}, "accepted state differs between u values")
                        elif not np.array_equal(th_after, th32):
                            W.fail("reject-state", {**case, "u": float(u)}, f"rejected but state changed: {th_after.tolist()}")
                        rest = [j for j in range(d) if j not in bidx]
                        if rest and not np.array_equal(th_after[rest], th32[rest]):
                            W.fail("rest-changed", {**case, "u": float(u)}, "a key outside the block was modified")
                        if float(A1["off"][ix, iz, is_, iu, ie]) != float(np.float32(setup.off)):
                            W.fail("rest-changed", {**case, "u": float(u)}, "the key 'off' outside the block was modified")
                xps.append(xp)
                if xp is None:
                    # alpha == 0 exactly (float32 underflow, or the NaN guard after a float32
                    # overflow: error code 90): the proposal cannot be observed. The reference
                    # must agree that the acceptance probability of the *predicted* proposal
                    # (documented law, Cholesky square root) is negligible.
                    nan_guard = bool(np.all(errs == 90))
                    res.outcome(kname, "alpha=0", "nan-guard" if nan_guard else "underflow")
                    a_pred = orc.alpha_predicted(theta, xb, zs[iz].astype(np.float64), s)
                    if not (a_pred <= TOL_ALPHA):
                        W.fail("alpha", {**case, "nan_guard": nan_guard}, f"reported alpha 0.0 (error codes {errs.tolist()}) but the reference gives {a_pred} for the predicted proposal")
                    continue
                # alpha oracle with the observed proposal
                logr, lp_x, lp_xp, fwd, bwd = orc.ratio(theta, xb, xp, s)
                a_ref = R.alpha_of(logr)
                max_noise["alpha"] = max(max_noise["alpha"], abs(alpha - a_ref))
                if abs(alpha - a_ref) > TOL_ALPHA:
                    W.fail("alpha", {**case, "xp": xp.tolist()}, f"reported alpha {alpha} != min(1, pi(x')q(x|x')/(pi(x)q(x'|x))) = {a_ref} (log ratio {logr:.6g})")
                elif 1e-4 < a_ref < 1.0 and alpha > 0:
                    mag = abs(lp_x) + abs(lp_xp) + abs(fwd) + abs(bwd)
                    dv = abs(math.log(alpha) - logr)
                    max_noise["logr"] = max(max_noise["logr"], dv / (2e-3 + 2e-5 * mag))
                    if dv > 2e-3 + 2e-5 * mag:
                        W.fail("alpha", {**case, "xp": xp.tolist()}, f"log alpha {math.log(alpha)} != log ratio {logr}")
                rev_cases.append((theta, xb, zs[iz].astype(np.float64), s, xp, alpha, logr, lp_x, lp_xp, fwd, bwd))
            res.states += len(zs)

            # proposal law from z = 0, e_i, and affinity on the rest
            zlist = [z.tolist() for z in zs]
            if kname == "mh":
                for iz in range(len(zs)):
                    if xps[iz] is None:
                        continue
                    want = R.mh_map(unit["proposal"], xb, zs[iz].astype(np.float64), s)
                    dv = np.max(np.abs(xps[iz] - want) / (1 + np.abs(want)))
                    max_noise["affine"] = max(max_noise["affine"], dv)
                    if dv > 1e-5:
                        W.fail("mh-map", {"theta": theta.tolist(), "z": zlist[iz], "s": s}, f"proposal {xps[iz].tolist()} != user's map {want.tolist()} (step size / key handling)")
                continue
            i0 = zlist.index([0.0] * k)
            if k == 1:
                ie_ = [zlist.index([1.0])]
            else:
                ie_ = [zlist.index([1.0 if j == i else 0.0 for j in range(k)]) for i in range(k)]
            if xps[i0] is None or any(xps[j] is None for j in ie_):
                res.outcome(kname, "law-unobservable")
                continue
            m_obs = xps[i0]
            A_obs = np.stack([xps[j] - m_obs for j in ie_], axis=1)
            m_ref, C_ref = orc.law(theta, xb, s)
            scale = np.sqrt(np.diag(C_ref))
            dv = np.max(np.abs(m_obs - m_ref) / (1e-2 * scale + 1e-5 * (1 + np.abs(m_ref))))
            max_noise["mean"] = max(max_noise["mean"], dv)
            case = {"theta": theta.tolist(), "s": s}
            if dv > 1.0:
                W.fail("proposal-mean", case, f"x'(z=0) = {m_obs.tolist()} but documented mean {m_ref.tolist()}")
            C_obs = A_obs @ A_obs.T
            dv = np.max(np.abs(C_obs - C_ref)) / np.max(np.abs(C_ref))
            max_noise["cov"] = max(max_noise["cov"], dv)
            if dv > 5e-3:
                W.fail("proposal-cov", case, f"A A^T = {C_obs.tolist()} but documented covariance {C_ref.tolist()}")
            for iz in range(len(zs)):
                if xps[iz] is None:
                    continue
                want = m_obs + A_obs @ zs[iz].astype(np.float64)
                dv = np.max(np.abs(xps[iz] - want) / (1e-2 * scale * (1 + np.abs(zs[iz]).max()) + 1e-5 * (1 + np.abs(want))))
                max_noise["affine"] = max(max_noise["affine"], dv)
                if dv > 1.0:
                    W.fail("proposal-affine", {**case, "z": zlist[iz]}, f"x'(z) = {xps[iz].tolist()} is not m + A z = {want.tolist()}")

    # ---- stage 2: reverse moves (detailed balance) ------------------------------------
    # at x' reconstruct the proposal map (z = 0, e_i), solve the z' that proposes x, run it
    n = len(rev_cases)
    if n:
        TH = np.stack([np.asarray(_with(c[0], bidx, c[4]), dtype=np.float32) for c in rev_cases])
        Svec = np.array([c[3] for c in rev_cases], dtype=np.float32)
        zero = np.zeros(n, dtype=np.float32)
        post = np.full(n, 4, dtype=np.int32)
        if kname == "mh":
            zrev = []
            for c in rev_cases:
                zrev.append(_mh_reverse_z(unit["proposal"], c[4], c[1], c[3]))
            ZR = np.array(zrev, dtype=np.float64)
        else:
            base = run(TH, np.zeros((n, k), dtype=np.float32), zero, Svec, post)
            cols = []
            for i in range(k):
                E = np.zeros((n, k), dtype=np.float32)
                E[:, i] = 1.0
                cols.append(run(TH, E, zero, Svec, post))
            res.transitions += n * (k + 1)
            ZR = np.full((n, k), np.nan)
            for j, c in enumerate(rev_cases):
                if not base["moved"][j] or not all(cc["moved"][j] for cc in cols):
                    continue
                # the start point actually used is float32(x')
                m_ = base["xb"][j].astype(np.float64)
                A_ = np.stack([cc["xb"][j].astype(np.float64) - m_ for cc in cols], axis=1)
                try:
                    ZR[j] = np.linalg.solve(A_, c[1] - m_)
                except np.linalg.LinAlgError:
                    pass
        ok = np.all(np.isfinite(ZR), axis=1) & (np.max(np.abs(ZR), axis=1) < 1e4)
        ZRs = np.where(ok[:, None], ZR, 0.0).astype(np.float32)
        o2 = run(TH, ZRs, zero, Svec, post)
        res.transitions += n
        res.executions += n
        for j, c in enumerate(rev_cases):
            theta, xb, z, s, xp, alpha, logr, lp_x, lp_xp, fwd, bwd = c
            if not ok[j]:
                res.outcome(kname, "reverse-unreachable")
                continue
            a2 = float(o2["alpha"][j])
            case = {"theta": theta.tolist(), "z": z.tolist(), "s": s, "xp": xp.tolist(), "z_rev": ZRs[j].tolist()}
            xp32 = TH[j].astype(np.float64)[bidx]
            if a2 <= 0 or not o2["moved"][j]:
                res.outcome(kname, "reverse-alpha0")
                if R.alpha_of(-logr) > TOL_ALPHA:
                    W.fail("reverse-alpha", case, f"reverse acceptance {a2} but reference {R.alpha_of(-logr)}")
                continue
            xpp = o2["xb"][j].astype(np.float64)
            # the reverse proposal lands on x up to float32 noise amplified by |z'|
            tol_x = 1e-4 * (1 + np.abs(xb)) * (1 + np.abs(ZRs[j]).max()) + 1e-3 * np.abs(xpp - xp32)
            dvx = np.max(np.abs(xpp - xb) / tol_x)
            max_noise["rev_x"] = max(max_noise["rev_x"], dvx)
            if dvx > 1.0:
                if kname == "mh":
                    W.fail("mh-map", case, f"reverse proposal {xpp.tolist()} does not land on x = {xb.tolist()}")
                else:
                    W.fail("proposal-affine", case, f"reverse proposal {xpp.tolist()} does not land on x = {xb.tolist()}")
                continue
            # reference ratio of the reverse move as executed (x' -> x'')
            logr2, *_ = orc.ratio(_with(theta, bidx, xp32), xp32, xpp, s)
            a2_ref = R.alpha_of(logr2)
            max_noise["alpha"] = max(max_noise["alpha"], abs(a2 - a2_ref))
            res.outcome(kname, "reverse", alpha_class(a2))
            if abs(a2 - a2_ref) > TOL_ALPHA:
                W.fail("alpha", {**case, "reverse": True}, f"reverse move: reported alpha {a2} != reference {a2_ref}")
            # detailed balance  pi(x) q(x'|x) a(x->x') == pi(x') q(x|x') a(x'->x)  (reference pi, q)
            la, lb = lp_x + fwd, lp_xp + bwd
            if not (math.isfinite(la) and math.isfinite(lb)):
                # one direction has zero proposal density: the other direction must never be accepted
                if (lb == math.inf and a2 > TOL_ALPHA) or (la == math.inf and alpha > TOL_ALPHA) or (lb == -math.inf and alpha > TOL_ALPHA):
                    W.fail("detailed-balance", case, f"irreversible move accepted in both directions: a={alpha}, a'={a2}, declared corrections {bwd - fwd}")
                res.outcome(kname, "reverse-irreversible")
                continue
            M = max(la, lb)
            dbres = abs(alpha * math.exp(la - M) - a2 * math.exp(lb - M))
            max_noise["db"] = max(max_noise["db"], dbres)
            if dbres > 2e-3:
                W.fail("detailed-balance", case, f"pi(x)q(x'|x)a = {alpha * math.exp(la - M):.6g} vs pi(x')q(x|x')a' = {a2 * math.exp(lb - M):.6g} (scaled)")

    # ---- stage 3: eager sub-lattice with a recording interface ------------------------
    ne = EAGER[tier]
    picks = _eager_picks(shape, ne)
    for (ix, iz, is_, iu, ie) in picks:
        got = _eager_case(setup, thetas[ix], zs[iz], float(us[iu]), float(ss[is_]), int(es[ie]))
        res.transitions += 1
        res.executions += 1
        case = {"theta": thetas[ix].tolist(), "z": zs[iz].tolist(), "s": float(ss[is_]), "u": float(us[iu]), "epoch": int(es[ie])}
        a_j = float(A1["alpha"][ix, iz, is_, iu, ie])
        if abs(got["alpha"] - a_j) > 2e-5 or bool(got["moved"]) != bool(A1["moved"][ix, iz, is_, iu, ie]):
            W.fail("eager-vs-jit", case, f"eager alpha/moved {got['alpha']}/{got['moved']} vs jit {a_j}/{bool(A1['moved'][ix, iz, is_, iu, ie])}")
        if np.max(np.abs(got["xb"] - A1["xb"][ix, iz, is_, iu, ie])) > 1e-4 * (1 + np.max(np.abs(got["xb"]))):
            W.fail("eager-vs-jit", case, f"eager state {got['xb'].tolist()} vs jit {A1['xb'][ix, iz, is_, iu, ie].tolist()}")
        # every concrete proposal the model interface saw is the proposal x'
        xp_j = A1["xb"][ix, iz, is_, 0, 0] if A1["moved"][ix, iz, is_, 0, 0] else None
        if xp_j is not None:
            if not got["seen"]:
                raise RuntimeError("recording interface saw no concrete update_state call")
            for p in got["seen"]:
                if np.max(np.abs(p - xp_j)) > 1e-4 * (1 + np.max(np.abs(xp_j))):
                    W.fail("eager-vs-jit", case, f"update_state saw proposal {p.tolist()} but accepted state is {xp_j.tolist()}")
        res.outcome("eager", kname, "moved" if got["moved"] else "stay")

    # ---- stage 4: key discipline (eager, real keys visible to the seam) -------------------
    # the Gaussian proposal draw and the uniform accept draw must use different PRNG keys,
    # neither may be the kernel's input key, and transitions with different input keys must
    # not share a key; standard (POSTERIOR) and adaptive (FAST_ADAPTATION) branch
    def keyt(k):
        return tuple(int(v) for v in np.asarray(jax.random.key_data(k) if jax.dtypes.issubdtype(k.dtype, jax.dtypes.prng_key) else k).ravel())

    in_keys = [setup.key, jax.random.fold_in(setup.key, 1), jax.random.PRNGKey(int(unit["key"]) + 77)]
    iz_k = min(1, len(zs) - 1)
    for etype in (4, 1):
        seen_keys = {}
        for ik, kin in enumerate(in_keys):
            got = _eager_case(setup, thetas[0], zs[iz_k], 0.5, 0.5, etype, key=kin)
            res.transitions += 1
            res.executions += 1
            case = {"theta": thetas[0].tolist(), "z": zs[iz_k].tolist(), "s": 0.5, "u": 0.5, "epoch": etype, "input_key": list(keyt(kin))}
            draws = got["draws"]
            fns = sorted(f for f, _ in draws)
            if fns != ["normal", "uniform"]:
                raise RuntimeError(f"seam saw draws {fns} in an eager transition")
            if any(k is None for _, k in draws):
                raise RuntimeError("seam could not read a concrete key in eager mode")
            branch = "standard" if etype == 4 else "adaptive"
            ks_ = [k for _, k in draws]
            if len(set(ks_)) != len(ks_):
                W.fail("key-reuse", case, f"the {' and '.join(f for f, _ in draws)} draws of one transition use the same PRNG key {ks_[0]}", sub=branch)
            if keyt(kin) in ks_:
                W.fail("key-reuse", case, f"a draw consumes the kernel's input key {keyt(kin)} directly (draws: {draws})", sub=branch + "-input-key")
            for k in ks_:
                if k in seen_keys and seen_keys[k] != ik:
                    W.fail("key-reuse", case, f"key {k} is also used by the transition with input key #{seen_keys[k]}", sub=branch + "-across-transitions")
                seen_keys[k] = ik
            res.outcome("keys", kname, branch, "distinct" if len(set(ks_)) == len(ks_) else "shared")

    res.extra["noise_" + kname] = {kk: float(v) for kk, v in max_noise.items()}
    res.sample({"unit": tag, "cases": len(idx), "reverse_cases": n, "max_dev": {kk: round(float(v), 6) for kk, v in max_noise.items()}})
    return res


def _with(theta, bidx, xb):
    th = np.array(theta, dtype=np.float64)
    th[bidx] = xb
    return th


def _mh_reverse_z(kind, x_from, x_to, s):
    """z with map(x_from, z, s) == x_to for the user proposals (float64)."""
    x_from = np.asarray(x_from, dtype=np.float64)
    x_to = np.asarray(x_to, dtype=np.float64)
    if kind == "drift":
        return (x_to - x_from - s * R.MH_DRIFT) / s
    if kind in ("gate", "onesided"):
        return (x_to - x_from) / s
    if kind == "mult":
        return np.log(x_to / x_from) / s
    if kind == "indep":
        return (x_to - np.array(R.MH_CENTER)[: x_to.size]) / s
    raise ValueError(kind)


def _eager_picks(shape, n):
    """deterministic sub-lattice: strided through the product so that x, z, s, u and epoch all vary"""
    total = int(np.prod(shape))
    picks = []
    # prime-ish stride walks all coordinates
    stride = max(1, total // n - 1) | 1
    pos = total // 3
    for _ in range(n):
        picks.append(tuple(int(v) for v in np.unravel_index(pos % total, shape)))
        pos += stride
    return picks


class _RecIface:
    """Model interface wrapper recording concrete positions passed to update_state."""

    def __init__(self, inner, pkeys):
        self.inner, self.pkeys, self.seen = inner, pkeys, []

    def extract_position(self, position_keys, model_state):
        return self.inner.extract_position(position_keys, model_state)

    def log_prob(self, model_state):
        return self.inner.log_prob(model_state)

    def update_state(self, position, model_state):
        from jax.flatten_util import ravel_pytree

        try:
            flat, _ = ravel_pytree({k: position[k] for k in self.pkeys})
            self.seen.append(np.asarray(flat, dtype=np.float64))
        except Exception:
            pass  # tracer (inside grad / jacfwd)
        return self.inner.update_state(position, model_state)


def _eager_case(setup: Setup, theta, z, u, s, etype, key=None):
    import jax
    import jax.numpy as jnp
    from jax.flatten_util import ravel_pytree

    from liesel.goose.epoch import EpochConfig, EpochState, EpochType
    from mc.seams import ScriptedPRNG

    kernel = setup.kernel
    key = setup.key if key is None else key
    rec = _RecIface(setup.iface, setup.pkeys)
    kernel.set_model(rec)
    try:
        with jax.disable_jit():
            st = setup.state_of(jnp.asarray(theta, dtype=jnp.float32))
            ks = kernel.init_state(setup.key, st)
            ks.step_size = jnp.asarray(s, dtype=jnp.float32)
            ep = EpochState(EpochConfig(EpochType(etype), 5, 1, None), 2, 7, 5, 2)
            rec.seen.clear()
            with ScriptedPRNG([jnp.asarray(z, dtype=jnp.float32), jnp.asarray(u, dtype=jnp.float32)]) as sp:
                out = kernel.transition(key, ks, st, ep)
                sp.assert_consumed()
            flat, _ = ravel_pytree(setup.iface.extract_position(setup.pkeys, out.model_state))
            return {
                "alpha": float(out.info.acceptance_prob),
                "moved": bool(out.info.position_moved),
                "xb": np.asarray(flat, dtype=np.float64),
                "seen": list(rec.seen),
                "draws": [(e["fn"], k) for e, k in zip(sp.log, sp.keys)],
            }
    finally:
        kernel.set_model(setup.iface)


# ---------------------------------------------------------------------------------
# iwls_utils on lattices of Cholesky factors
# ---------------------------------------------------------------------------------


def run_utils(unit):
    import jax
    import jax.numpy as jnp

    from liesel.goose import iwls_utils as iu
    from mc.seams import ScriptedPRNG

    res = core.UnitResult(unit)
    k = unit["dim"]
    W = Worst(res, f"dim{k}")
    diag = [0.5, 1.0, 2.5]
    offd = [-0.8, 0.0, 1.3]
    nlow = k * (k - 1) // 2
    Ls = []
    for dg in itertools.product(diag, repeat=k):
        for od in itertools.product(offd, repeat=nlow):
            L = np.diag(dg)
            L[np.tril_indices(k, -1)] = od
            Ls.append(L)
    vecs = [list(v) for v in itertools.product([-1.0, 0.5, 2.0], repeat=k)]
    means = [[0.0] * k, [0.3, -1.1, 0.7][:k]]
    units_z = [[0.0] * k] + [[1.0 if j == i else 0.0 for j in range(k)] for i in range(k)]
    Ls32, V32, M32 = f32(Ls), f32(vecs + units_z), f32(means)
    nv = len(vecs)

    key = jax.random.PRNGKey(0)

    def one(L, v, m):
        def script(fn, i, shape, info):
            if fn != "normal" or tuple(shape) != (k,):
                raise RuntimeError(f"unexpected draw {fn}{shape}")
            return v

        with ScriptedPRNG(script) as sp:
            smp = iu.mvn_sample(key, m, L)
        if len(sp.log) != 1:
            raise RuntimeError("mvn_sample did not draw exactly once")
        return iu.solve(L, v), iu.mvn_log_prob(v, m, L), smp

    idx = np.array(list(itertools.product(range(len(Ls)), range(len(V32)), range(len(means)))))
    sol, lp, smp = jax.jit(jax.vmap(one))(jnp.asarray(Ls32[idx[:, 0]]), jnp.asarray(V32[idx[:, 1]]), jnp.asarray(M32[idx[:, 2]]))
    shape = (len(Ls), len(V32), len(means))
    sol = np.asarray(sol, dtype=np.float64).reshape(shape + (k,))
    lp = np.asarray(lp, dtype=np.float64).reshape(shape)
    smp = np.asarray(smp, dtype=np.float64).reshape(shape + (k,))
    res.transitions += 3 * len(idx)
    res.executions += len(idx)
    res.note(lp[0].round(4).tolist())
    worst = {"solve": 0.0, "logprob": 0.0, "cov": 0.0, "affine": 0.0}
    for il, L32 in enumerate(Ls32):
        L = L32.astype(np.float64)
        prec = L @ L.T
        cov = np.linalg.inv(prec)
        res.states += 1
        for im, m32 in enumerate(M32):
            m = m32.astype(np.float64)
            for iv in range(len(V32)):
                v = V32[iv].astype(np.float64)
                case = {"L": L.tolist(), "v": v.tolist(), "mean": m.tolist()}
                if im == 0:
                    want = cov @ v
                    dv = np.max(np.abs(sol[il, iv, im] - want)) / (1 + np.max(np.abs(want)))
                    worst["solve"] = max(worst["solve"], dv)
                    if dv > 2e-4:
                        W.fail("utils-solve", case, f"solve(L, v) = {sol[il, iv, im].tolist()} but (L L^T)^-1 v = {want.tolist()}")
                want = R.mvn_logpdf(v, m, cov)
                dv = abs(lp[il, iv, im] - want) / (1 + abs(want))
                worst["logprob"] = max(worst["logprob"], dv)
                if dv > 2e-4:
                    W.fail("utils-mvn_log_prob", case, f"mvn_log_prob = {lp[il, iv, im]} but N(v; mean, (L L^T)^-1) = {want}")
            # mvn_sample: affine in z with A A^T = covariance
            m_obs = smp[il, nv, im]
            A = np.stack([smp[il, nv + 1 + i, im] - m_obs for i in range(k)], axis=1)
            case = {"L": L.tolist(), "mean": m.tolist()}
            if np.max(np.abs(m_obs - m)) > 1e-5:
                W.fail("utils-mvn_sample", case, f"sample at z=0 is {m_obs.tolist()}, not the mean")
            dv = np.max(np.abs(A @ A.T - cov)) / np.max(np.abs(cov))
            worst["cov"] = max(worst["cov"], dv)
            if dv > 1e-3:
                W.fail("utils-mvn_sample", case, f"A A^T = {(A @ A.T).tolist()} but covariance {(cov).tolist()}")
            for iv in range(nv):
                want = m_obs + A @ V32[iv].astype(np.float64)
                dv = np.max(np.abs(smp[il, iv, im] - want)) / (1 + np.max(np.abs(want)))
                worst["affine"] = max(worst["affine"], dv)
                if dv > 1e-4:
                    W.fail("utils-mvn_sample", {**case, "z": V32[iv].tolist()}, "sample is not affine in z")
        res.outcome("utils", k, "posdef")
    res.extra["noise_utils"] = worst
    res.sample({"unit": f"utils dim {k}", "factors": len(Ls), "max_dev": {a: round(b, 7) for a, b in worst.items()}})
    return res
