"""
C12 - mass-matrix adaptation of NUTS/HMC is aligned with the flattened position.

(1) direct: kernel.tune() on synthetic histories for every permutation of 2-3 position
    keys x leaf shapes x diag/dense x history-dict layouts x epoch type.
(2) engine: real Engine runs (store_kernel_states) for key orders x kernels x diag/dense
    x co-kernel x number/thinning of slow epochs; after every slow epoch the stored
    kernel state must equal the regularised var/cov of that epoch's stored positions.
Reference: numpy float64, coordinates in the order of jax.flatten_util.ravel_pytree of
the kernel's own position.
"""

from __future__ import annotations

import itertools

from mc import core

PROPERTY = "C12"
RULE = (
    "direct: kernels {NUTS,HMC} x all permutations of 2 and 3 keys out of {zeta, alpha, mid} x leaf "
    "shape assignments from {(),(2,),(2,2)} x {diag,dense} x history layouts {listed, sorted, reversed, "
    "with foreign key} x epoch {SLOW, FAST}, plus histories in which one / every coordinate is constant (variance exactly 0); engine: kernels x key orders x {diag,dense} x {alone, with RW "
    "co-kernel, with second HMC co-kernel} x slow epochs {1, 2 identical, 2 different} x warm-up thinning "
    "{1,2}. Distinct outcome = (part, kernel, key order sorted?, diag, layout/co-kernel, epoch kind)."
)
ASSUMPTIONS = [
    "jax.flatten_util.ravel_pytree defines 'flat coordinate i' (it is what blackjax uses)",
    "regularisation as implemented and documented: ddof=1 variance / covariance + 1e-3 on the diagonal",
    "tolerance |got-ref| <= 1e-4 + 2e-4|ref| (float32 var/cov of O(1) values)",
]

KEYS = ["zeta", "alpha", "mid"]
SHAPES = [(), (2,), (2, 2)]


def bounds(tier):
    return {"keys": "2-3", "permutations": "all", "history_length": 7, "engine_chains": 2, "engine_configs": "subset" if tier == "quick" else "full product"}


def units(tier, seed):
    us = []
    # direct
    for kern in ("NUTS", "HMC"):
        for diag in (True, False):
            cases = []
            for key1, shp1 in (("zeta", (2,)), ("alpha", (2, 2)), ("mid", ())):
                cases.append({"keys": [key1], "shapes": [list(shp1)]})  # a kernel that owns exactly one key
            for n in (2, 3):
                for perm in itertools.permutations(KEYS, n):
                    shape_sets = [tuple(SHAPES[(i + s) % 3] for i in range(n)) for s in range(3)]
                    if tier == "quick":
                        shape_sets = shape_sets[:2] if n == 2 else shape_sets[1:2]
                    for shp in shape_sets:
                        cases.append({"keys": list(perm), "shapes": [list(s) for s in shp]})
                    if n == 2:
                        cases.append({"keys": list(perm), "shapes": [list(s) for s in shape_sets[0]], "offset": True})
                        # a chain that did not move in some / all coordinates during the epoch: variance exactly 0
                        cases.append({"keys": list(perm), "shapes": [list(s) for s in shape_sets[0]], "stuck": "one"})
                        cases.append({"keys": list(perm), "shapes": [list(s) for s in shape_sets[1]], "stuck": "all"})
            us.append({"part": "direct", "kernel": kern, "diag": diag, "cases": cases})
    # engine
    cfgs = []
    orders = [["zeta", "alpha"], ["alpha", "zeta"], ["zeta", "mid", "alpha"], ["mid", "alpha", "zeta"], ["alpha"]]
    for kern in ("HMC", "NUTS"):
        for order in orders:
            for diag in (True, False):
                for co in ("none", "rw", "hmc"):
                    for slow in ("one", "two_same", "two_same_object", "two_diff"):
                        for th in (1, 2):
                            cfgs.append({"kernel": kern, "order": order, "diag": diag, "co": co, "slow": slow, "thinning": th})
    if tier == "quick":
        # a covering subset: every value of every factor, and the pairs that matter
        # (unsorted order x each kernel x diag/dense; co-kernel x history; identical slow epochs)
        keep = []
        for i, c in enumerate(cfgs):
            unsorted = c["order"] != sorted(c["order"])
            pick = (
                (unsorted and c["co"] == "rw" and c["slow"] == "two_same" and c["thinning"] == 1 and len(c["order"]) == 2)
                or (unsorted and c["co"] == "none" and c["slow"] == "one" and c["thinning"] == 2 and len(c["order"]) == 3 and c["kernel"] == "HMC")
                or (not unsorted and c["co"] == "hmc" and c["slow"] == "two_diff" and c["thinning"] == 1 and len(c["order"]) == 2 and c["kernel"] == "HMC")
            )
            pick = pick or (c["order"] == ["alpha"] and c["kernel"] == "HMC" and c["co"] == "rw" and c["slow"] == "one" and c["thinning"] == 1) \
                or (c["slow"] == "two_same_object" and c["co"] == "none" and c["thinning"] == 1 and c["order"] == ["zeta", "alpha"] and c["diag"])
            if pick:
                keep.append(c)
        cfgs = keep
    for c in cfgs:
        us.append({"part": "engine", "cfg": c, "seed": seed})
    return us


# ---------------------------------------------------------------------------------


def synth_history(keys, shapes, T=7, offset=False, stuck=None):
    """Deterministic history with pairwise distinct variances and non-zero covariances."""
    import numpy as np

    hist = {}
    j = 0
    for k, shp in zip(keys, shapes):
        size = int(np.prod(shp)) if shp else 1
        cols = []
        for _ in range(size):
            t = np.arange(T, dtype=np.float64)
            col = (0.4 + 0.3 * j) * np.sin(0.9 * (j + 1) * t + 0.3 * j) + 0.2 * np.cos(0.5 * t) + 0.05 * j * t
            if offset and j % 2 == 0:
                col = 2000.0 + 0.25 * col  # far from zero relative to its spread
            if (stuck == "one" and j == 1) or (stuck == "all" and k != "other"):
                col = np.full(T, 0.75 - 0.5 * j)  # exactly representable constant: sample variance is exactly 0
            cols.append(col)
            j += 1
        hist[k] = np.stack(cols, axis=1).reshape((T,) + tuple(shp)).astype(np.float32)
    return hist


def flat_order(position_keys, shapes):
    """coordinate list [(key, index)] in ravel_pytree order of the kernel's position."""
    import jax.numpy as jnp
    import numpy as np
    from jax.flatten_util import ravel_pytree

    pos, code, off = {}, {}, 0
    for k, shp in zip(position_keys, shapes):
        size = int(np.prod(shp)) if shp else 1
        pos[k] = jnp.asarray(np.arange(off, off + size, dtype=np.float32).reshape(shp))
        for i in range(size):
            code[off + i] = (k, i)
        off += size
    flat, _ = ravel_pytree(pos)
    return [code[int(v)] for v in np.asarray(flat)]


def ref_inv_mm(history, order, diag):
    """history: key -> array (T, ...). float64 reference in the given coordinate order."""
    import numpy as np

    cols = []
    for k, i in order:
        h = np.asarray(history[k], dtype=np.float64)
        cols.append(h.reshape(h.shape[0], -1)[:, i])
    X = np.stack(cols, axis=1)
    if diag:
        return X.var(axis=0, ddof=1) + 1e-3
    c = np.atleast_2d(np.cov(X, rowvar=False))
    return c + 1e-3 * np.eye(c.shape[0])


def close(got, ref):
    import numpy as np

    got, ref = np.asarray(got, dtype=np.float64), np.asarray(ref, dtype=np.float64)
    return got.shape == ref.shape and bool(np.all(np.abs(got - ref) <= 1e-4 + 2e-4 * np.abs(ref)))


def make_kernel(name, keys, diag, **kw):
    import liesel.goose as gs

    if name == "NUTS":
        return gs.NUTSKernel(keys, mm_diag=diag, max_treedepth=3, **kw)
    return gs.HMCKernel(keys, mm_diag=diag, num_integration_steps=3, **kw)


def run_direct(res, unit):
    import jax
    import jax.numpy as jnp
    import liesel.goose as gs
    import numpy as np
    from liesel.goose.epoch import EpochConfig, EpochType

    kern, diag = unit["kernel"], unit["diag"]
    for case in unit["cases"]:
        keys, shapes = case["keys"], [tuple(s) for s in case["shapes"]]
        hist = synth_history(keys + ["other"], shapes + [()], offset=bool(case.get("offset")), stuck=case.get("stuck"))
        own = {k: hist[k] for k in keys}
        order = flat_order(keys, shapes)
        d = len(order)
        ref = ref_inv_mm(own, order, diag)
        state = {k: jnp.asarray(hist[k][0]) for k in hist}
        model = gs.DictInterface(lambda s: -0.5 * sum(jnp.sum(v**2) for v in s.values()))
        layouts = {
            "listed": {k: own[k] for k in keys},
            "sorted": {k: own[k] for k in sorted(keys)},
            "reversed": {k: own[k] for k in reversed(keys)},
            "foreign": {"other": hist["other"], **{k: own[k] for k in keys}},
            # another kernel's / tracked quantity's history is not finite: must not matter
            "foreign-nonfinite": {**{k: own[k] for k in keys}, "other": np.where(np.arange(hist["other"].shape[0]) == 2, np.inf, hist["other"]).astype(np.float32)},
        }
        for lname, h in layouts.items():
            for etype in (EpochType.SLOW_ADAPTATION, EpochType.FAST_ADAPTATION):
                k = make_kernel(kern, keys, diag, initial_step_size=0.1)
                k.set_model(model)
                ks = k.init_state(jax.random.PRNGKey(0), state)
                old = np.asarray(ks.inverse_mass_matrix).copy()
                ep = EpochConfig(etype, 7, 1, None).to_state(2, 11)
                out = k.tune(jax.random.PRNGKey(1), ks, state, ep, {kk: jnp.asarray(v) for kk, v in h.items()})
                got = np.asarray(out.kernel_state.inverse_mass_matrix)
                res.executions += 1
                res.transitions += 1
                srt = keys == sorted(keys)
                res.outcome("direct", kern, "sorted" if srt else "unsorted", diag, lname, etype.name)
                cname = {"kernel": kern, "diag": diag, "keys": keys, "shapes": case["shapes"], "layout": lname, "epoch": etype.name, "stuck": case.get("stuck")}
                if etype == EpochType.FAST_ADAPTATION:
                    if got.shape != old.shape or not np.array_equal(got, old):
                        res.violation("direct", f"fast-epoch-changes-mm-{kern}", cname, f"inverse mass matrix changed by tuning in a FAST epoch ({cname})")
                    continue
                if got.shape != ((d,) if diag else (d, d)):
                    res.violation("direct", f"shape-{kern}", cname, f"inverse mass matrix has shape {got.shape}, position has {d} coordinates ({cname})")
                    continue
                if case.get("offset"):
                    ok = got.shape == np.shape(ref) and bool(np.all(np.abs(got - ref) <= 2e-4 + 5e-3 * np.abs(ref)))
                else:
                    ok = close(got, ref)
                if not ok:
                    # diagnose: does it match some other coordinate order?
                    listed = [(kk, i) for kk, shp in zip(h.keys(), [hist[x].shape[1:] for x in h.keys()]) for i in range(int(np.prod(shp)) if shp else 1) if kk in keys]
                    alt = ref_inv_mm(own, listed, diag) if len(listed) == d else None
                    why = "matches the history-dict order instead" if alt is not None and close(got, alt) else "matches no coordinate order"
                    res.violation("direct", f"misaligned-{kern}-{'diag' if diag else 'dense'}-{lname}", cname, f"tuned inverse mass matrix {np.round(got, 4).tolist()} != reference in ravel_pytree order {np.round(ref, 4).tolist()} ({why}) ({cname})")
        res.states += 1
        res.sample(case, limit=1)


def run_engine(res, unit):
    import jax
    import jax.numpy as jnp
    import liesel.goose as gs
    import numpy as np
    from liesel.goose.epoch import EpochConfig, EpochType

    from mc import seams

    cfg = unit["cfg"]
    order = cfg["order"]
    scales = {"alpha": 0.5, "mid": 1.0, "zeta": 2.0, "other": 1.5, "second": 0.7}
    shapes = {"alpha": (2,), "mid": (), "zeta": (), "other": (), "second": (2,)}

    def log_prob(s):
        return -0.5 * sum(jnp.sum((v / scales[k]) ** 2) for k, v in s.items())

    state = {k: jnp.full(shapes[k], 0.1 * (i + 1), dtype=jnp.float32) for i, k in enumerate(sorted(scales))}
    b = gs.EngineBuilder(seed=unit["seed"] + 3, num_chains=2)
    b.show_progress = False
    b.set_model(gs.DictInterface(log_prob))
    b.set_initial_values(state)
    main = make_kernel(cfg["kernel"], order, cfg["diag"], initial_step_size=0.3)
    b.add_kernel(main)
    kernels = {0: (main, order)}
    if cfg["co"] == "rw":
        b.add_kernel(gs.RWKernel(["other"], initial_step_size=0.5))
    elif cfg["co"] == "hmc":
        second = make_kernel("HMC", ["second", "other"], not cfg["diag"], initial_step_size=0.3)
        b.add_kernel(second)
        kernels[1] = (second, ["second", "other"])
    th = cfg["thinning"]
    eps = [EpochConfig(EpochType.INITIAL_VALUES, 1, 1, None), EpochConfig(EpochType.FAST_ADAPTATION, 10, 1, None)]
    if cfg["slow"] == "one":
        eps += [EpochConfig(EpochType.SLOW_ADAPTATION, 20, th, None)]
    elif cfg["slow"] == "two_same":
        eps += [EpochConfig(EpochType.SLOW_ADAPTATION, 20, th, None), EpochConfig(EpochType.SLOW_ADAPTATION, 20, th, None)]
    elif cfg["slow"] == "two_same_object":
        same = EpochConfig(EpochType.SLOW_ADAPTATION, 20, th, None)
        eps += [same, same]  # the very same config object used twice
    else:
        eps += [EpochConfig(EpochType.SLOW_ADAPTATION, 20, th, None), EpochConfig(EpochType.SLOW_ADAPTATION, 30, 1, None)]
    eps += [EpochConfig(EpochType.FAST_ADAPTATION, 10, 1, None), EpochConfig(EpochType.POSTERIOR, 10, 1, None)]
    b.set_epochs(eps)
    b.store_kernel_states = True
    b.positions_included = ["other", "second", "alpha", "mid", "zeta"]
    with seams.quiet():
        engine = b.build()
        engine.sample_all_epochs()
    r = engine.get_results()
    res.executions += 1
    pos_mgr, ks_mgr = r.positions, r.kernel_states.unwrap()
    epochs = list(pos_mgr.get_epochs())
    # premise of the oracle below: the recorded history is cut at the boundaries of the epochs that
    # were asked for (one recorded chain per requested epoch, duration // thinning draws each)
    for mname, mgr in (("positions", pos_mgr), ("kernel_states", ks_mgr)):
        got_ep = [(ec.type, ec.duration) for ec in mgr.get_epochs()]
        want_ep = [(ec.type, ec.duration) for ec in eps]
        lens = []
        if got_ep == want_ep:
            for e, ec in enumerate(eps):
                leaf = jax.tree_util.tree_leaves(mgr.get_specific_chain(e).get().unwrap())[0]
                lens.append(int(np.shape(leaf)[1]))
        # positions are thinned; kernel states are stored for every transition
        want_len = [ec.duration // ec.thinning if mname == "positions" else ec.duration for ec in eps]
        if got_ep != want_ep or lens != want_len:
            res.violation("engine", f"recorded-epochs-differ-from-requested-slow:{cfg['slow']}", {"cfg": cfg, "manager": mname},
                          f"{mname}: recorded epochs {[(str(t), d) for t, d in got_ep]} with lengths {lens}; requested {[(str(t), d) for t, d in want_ep]} with lengths {want_len} - "
                          "the history handed to slow tuning is not that epoch's history")
            return
    for kid, (kobj, korder) in kernels.items():
        diag = kobj.mm_diag
        kshapes = [shapes[k] for k in korder]
        forder = flat_order(korder, kshapes)
        for e, ec in enumerate(epochs):
            if ec.type != EpochType.SLOW_ADAPTATION:
                continue
            hist = pos_mgr.get_specific_chain(e).get().unwrap()
            nxt = ks_mgr.get_specific_chain(e + 1).get().unwrap()[kid]
            last = ks_mgr.get_specific_chain(e).get().unwrap()[kid]
            for c in range(2):
                own = {k: np.asarray(hist[k])[c] for k in korder}
                ref = ref_inv_mm(own, forder, diag)
                got = np.asarray(nxt.inverse_mass_matrix)[c, 0]
                before = np.asarray(last.inverse_mass_matrix)[c, -1]
                res.transitions += 1
                cname = {"cfg": cfg, "kernel_id": kid, "epoch": e, "chain": c}
                res.outcome("engine", type(kobj).__name__, "sorted" if korder == sorted(korder) else "unsorted", diag, cfg["co"], cfg["slow"], th)
                if not close(got, ref):
                    why = ""
                    if close(got, before):
                        why = " (unchanged by the slow epoch)"
                    else:
                        for e2, ec2 in enumerate(epochs):
                            if e2 != e and ec2.type == EpochType.SLOW_ADAPTATION:
                                h2 = pos_mgr.get_specific_chain(e2).get().unwrap()
                                if close(got, ref_inv_mm({k: np.asarray(h2[k])[c] for k in korder}, forder, diag)):
                                    why = f" (it equals the statistics of epoch {e2})"
                    res.violation("engine", f"mm-after-slow-epoch-{type(kobj).__name__}-{'diag' if diag else 'dense'}-co:{cfg['co']}-slow:{cfg['slow']}", cname, f"inverse mass matrix after slow epoch {e} = {np.round(got, 4).tolist()} != regularised {'variance' if diag else 'covariance'} of that epoch's history {np.round(ref, 4).tolist()}{why} ({cname})")
    res.states += 1
    res.sample(cfg, limit=1)
    jax.clear_caches()


def run_unit(unit):
    core.assert_repo()
    res = core.UnitResult(unit)
    if unit["part"] == "direct":
        run_direct(res, unit)
    else:
        run_engine(res, unit)
    res.note([res.executions, res.transitions, sorted(res.outcomes)])
    return res
