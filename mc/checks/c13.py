"""
C13 - Gibbs kernels draw from the exact full conditional.

``tau2``      liesel.model.distreg.tau2_gibbs_kernel on models built by
              DistRegBuilder.add_np_smooth: full product penalties (full rank, rank
              deficient, rank 0) x a x b x coefficient lattice (incl. null-space vectors).
              The ``gamma`` seam (mc.seams.ScriptedPRNG) returns a scripted g and records
              the shape parameter, so a real transition yields (a_g, b_g = draw * g).
              Oracles: (i) closed form a + rk(K)/2, b + beta'K beta/2 in float64;
              (ii) ratio test: log pi_model(tau2) - log IG(tau2; a_g, b_g) is constant over
              a tau2 lattice, pi_model = the real model's joint log-density;
              (iii) draw = b_g / g for every scripted g; (iv) returned state coherent,
              passed state untouched; (v) jit == eager for real keys (input labels).
``discrete``  liesel.model.goose.finite_discrete_gibbs_kernel: full product prior kind
              (FiniteDiscrete / Bernoulli / explicit outcomes) x outcome sets of size 2-4
              x prior-probability lattice x downstream likelihood (none / Normal mean /
              mixture indicator / value of a weak variable with a distribution / diamond of
              cached nodes sigma=f(z), mean=g(sigma,z) in both input orders; 3 and 150+
              observations) x lattice of the other current values; every ordered
              pair of states is run back to back on one kernel (history independence).
              The ``categorical`` seam records the logits and forces every outcome.
              Oracles: softmax(logits) == exact normalised joint over the outcomes
              (float64 reference), forced outcome written back exactly, returned state
              coherent, passed state untouched, jit == eager for real keys.
"""

from __future__ import annotations

import itertools

from mc import core
from mc.ref import c13_gibbs as ref

PROPERTY = "C13"
RULE = (
    "tau2: one case = (penalty, a, b, beta); per case the real transition is executed "
    "for every scripted gamma answer g in {1, 1/2, 2} and the model joint is evaluated on "
    "the tau2 lattice; distinct outcome = (penalty, rank class, quad-form class). "
    "discrete: one case = (model spec, state s1, state s2, forced outcome index) with the "
    "kernel called on s1 and then on s2; distinct outcome = (prior kind, #outcomes, "
    "likelihood, argmax of the conditional, forced index)."
)
ASSUMPTIONS = [
    "the model's joint density is taken from the real model (Model.log_prob after assigning tau2) for the ratio test, and from an independent float64 reference (closed form / scipy) for the closed-form and discrete oracles",
    "jax.random.gamma and jax.random.categorical are trusted as samplers of Gamma(a,1) and of softmax(logits); what is checked is the parameters liesel hands to them and what it does with the answer",
    "lattices only: a in {0.01,1,2.5}, b in {0.01,1,3}, 5 penalties (dim 2-4, rank 0-3; thorough: a in {0.01,.5,1,2.5,10}, b in {0.01,.1,1,3}, 7 penalties up to dim 5), 6 coefficient vectors each, tau2 in {0.1,0.5,1,2,10,100}; outcome sets of size 2-4; 2-3 probability vectors per size; 3 likelihood settings",
    "tolerances: closed-form parameters 1e-5 relative (float32 arithmetic); ratio test 0.005 (dim <= 5; 0.02 for dim 20) + 5e-7 * |log joint| absolute (observed float32 noise <= 8e-5 / 1.9e-3 / 7e-3 at |log joint| 4e5) on differences of log-densities of magnitude <= ~1e3 (plausible bugs move it by >= 3.4); discrete probabilities 1e-5 + 2e-6 * max|logit| absolute",
    "jit == eager is compared on real PRNG keys used as input labels (VERIF_SEED selects the block of keys)",
]

A_VALUES = {"quick": [0.01, 1.0, 2.5], "thorough": [0.01, 0.5, 1.0, 2.5, 10.0]}
B_VALUES = {"quick": [0.01, 1.0, 3.0], "thorough": [0.01, 0.1, 1.0, 3.0]}


def penalty_names(tier):
    return list(ref.PENALTIES) + (list(ref.PENALTIES_EXTRA) if tier != "quick" else [])


def scaled_penalty_units(tier):
    """(penalty, a) pairs for the penalties whose matrix_rank differs from the number of
    float32 eigenvalues above 1e-6 (dimension 20, so only a few a values in quick)."""
    if tier == "quick":
        return [("RW2_20_x1e-5", 1.0)]
    return [(k, a) for k in ref.PENALTIES_SCALED for a in (0.01, 1.0, 10.0)]

TAU2_LATTICE = [0.1, 0.5, 1.0, 2.0, 10.0, 100.0]
GAMMA_ANSWERS = [1.0, 0.5, 2.0]
RATIO_TOL = 0.005
PARAM_RTOL = 1e-5
PROB_TOL = 1e-5


def bounds(tier):
    return {
        "tau2": {"penalties": penalty_names(tier), "scaled_penalties_dim20": scaled_penalty_units(tier), "a": A_VALUES[tier], "b": B_VALUES[tier],
                 "kernel": "built once per (penalty, a); b lattice, a second a, rank-1, a re-weighted same-rank penalty and a rank-one penalty (+rank) reach it through the model state only", "betas_per_penalty": 6, "tau2_lattice": TAU2_LATTICE,
                 "gamma_answers": GAMMA_ANSWERS, "real_keys_jit_vs_eager": 2 if tier == "quick" else 6},
        "discrete": {"specs": len(discrete_specs(tier)), "state_pairs": "all ordered pairs of the per-spec state lattice", "forced_outcomes": "all",
                     "real_keys_jit_vs_eager": 6 if tier == "quick" else 16},
    }


# ---------------------------------------------------------------------------------
# discrete model specs
# ---------------------------------------------------------------------------------

Y_OBS = [0.4, 1.3, 0.9]

PROBS = {
    2: [[0.5, 0.5], [0.1, 0.9], [0.999, 0.001]],
    3: [[0.1, 0.2, 0.7], [0.98, 0.01, 0.01]],
    4: [[0.25, 0.25, 0.25, 0.25], [0.05, 0.6, 0.05, 0.3]],
}
SUPPORTS = {2: [[0.0, 1.0], [-1.0, 2.5]], 3: [[0.0, 1.0, 2.0], [-1.0, 0.5, 2.0]], 4: [[0.0, 1.0, 2.0, 3.0]]}
MEAN_THETAS = [{"slope": 1.0, "icpt": 0.0, "sd": 1.0}, {"slope": -2.0, "icpt": 1.0, "sd": 0.5}]
DIAMOND_THETAS = [{"slope": 1.0, "icpt": 0.0, "sd": 1.0}, {"slope": -0.7, "icpt": 0.5, "sd": 0.6}]
RESID_THETAS = [{"slope": 0.8, "icpt": 0.0, "sd": 1.3}, {"slope": -1.5, "icpt": 0.5, "sd": 0.6}]
MIX_THETAS = [{"mus": [0.0, 1.0, 2.0, -1.0], "sds": [1.0, 1.0, 1.0, 1.0]}, {"mus": [1.0, 0.8, -3.0, 0.9], "sds": [0.3, 2.0, 1.0, 0.5]}]


PROBS_EXTRA = {2: [[0.3, 0.7]], 3: [[1 / 3, 1 / 3, 1 / 3], [0.6, 0.3, 0.1]], 4: [[0.97, 0.01, 0.01, 0.01]]}


def discrete_specs(tier):
    specs = []
    for k in (2, 3, 4):
        for sup in SUPPORTS[k]:
            for lik in ("none", "mean", "mixture"):
                if lik == "mixture" and sup != [float(i) for i in range(k)]:
                    continue
                specs.append({"prior": "finite", "support": sup, "probs": PROBS[k] + (PROBS_EXTRA[k] if tier != "quick" else []), "explicit": None, "lik": lik})
    # explicit outcome lists: same as the support, and a sub-set of it
    specs.append({"prior": "finite", "support": [0.0, 1.0, 2.0], "probs": PROBS[3], "explicit": [0.0, 1.0, 2.0], "lik": "mean"})
    specs.append({"prior": "finite", "support": [0.0, 1.0, 2.0], "probs": PROBS[3], "explicit": [2.0, 0.0], "lik": "mean"})
    # Bernoulli priors: outcomes extracted from the distribution, or given
    for lik in ("none", "mean", "mixture"):
        specs.append({"prior": "bernoulli", "support": [0, 1], "probs": [0.7, 0.02], "explicit": None, "lik": lik})
    specs.append({"prior": "bernoulli", "support": [0, 1], "probs": [0.7, 0.02], "explicit": [0, 1], "lik": "mean"})
    # the kernel is built while one outcome has prior probability exactly 0; the probabilities change later
    specs.append({"prior": "finite", "support": [0.0, 1.0, 2.0], "probs": [[0.0, 0.4, 0.6], [0.3, 0.3, 0.4], [0.5, 0.5, 0.0]], "explicit": None, "lik": "mean"})
    specs.append({"prior": "finite", "support": [-1.0, 2.5], "probs": [[1.0, 0.0], [0.25, 0.75]], "explicit": None, "lik": "none"})
    # an integer-valued current value with a fractional outcome grid (extracted and explicit)
    specs.append({"prior": "finite", "support": [0.5, 1.0, 2.0], "probs": PROBS[3][:2], "explicit": None, "lik": "mean", "z_int": 1})
    specs.append({"prior": "finite", "support": [0.5, 1.0, 2.0], "probs": PROBS[3][:2], "explicit": [0.5, 1.0, 2.0], "lik": "none", "z_int": 1})
    # the variable enters through the value of a weak variable with a distribution
    specs.append({"prior": "finite", "support": [0.0, 1.0, 2.0], "probs": PROBS[3], "explicit": None, "lik": "resid"})
    specs.append({"prior": "finite", "support": [-1.0, 2.5], "probs": PROBS[2][:2], "explicit": None, "lik": "resid"})
    specs.append({"prior": "bernoulli", "support": [0, 1], "probs": [0.7, 0.02], "explicit": None, "lik": "resid"})
    # diamond of cached nodes between the variable and the likelihood (full product)
    for order in ("sz", "zs"):
        for sigma in ("calc", "wvar"):
            for args in ("kw", "pos"):
                specs.append({"prior": "finite", "support": [0.0, 1.0, 2.0], "probs": PROBS[3][:1], "explicit": None, "lik": "diamond", "order": order, "sigma": sigma, "args": args})
    specs.append({"prior": "bernoulli", "support": [0, 1], "probs": [0.7], "explicit": None, "lik": "diamond", "order": "zs", "sigma": "calc", "args": "kw"})
    specs.append({"prior": "bernoulli", "support": [0, 1], "probs": [0.7], "explicit": None, "lik": "diamond", "order": "sz", "sigma": "wvar", "args": "pos"})
    for s in specs:
        s["y"] = Y_OBS
    # large-magnitude joint log-densities (150 observations, log joint between about -200
    # and -5000: exp() of it underflows in float32)
    big = [
        {"prior": "finite", "support": [0.0, 1.0, 2.0], "probs": PROBS[3], "explicit": None, "lik": "mean", "ny": 150},
        {"prior": "finite", "support": [-1.0, 2.5], "probs": PROBS[2][:2], "explicit": None, "lik": "resid", "ny": 150},
        {"prior": "bernoulli", "support": [0, 1], "probs": [0.7, 0.02], "explicit": None, "lik": "mean", "ny": 150},
    ]
    if tier != "quick":
        big.append({"prior": "finite", "support": [0.0, 1.0, 2.0, 3.0], "probs": PROBS[4], "explicit": None, "lik": "mixture", "ny": 400})
    return specs + big


def spec_states(spec):
    """Lattice of 'all other current values' for a spec: list of theta dicts."""
    out = []
    liks = {"none": [{}], "mean": MEAN_THETAS, "mixture": MIX_THETAS, "resid": RESID_THETAS, "diamond": DIAMOND_THETAS}[spec["lik"]]
    for p in spec["probs"]:
        for th in liks:
            out.append({"probs": p, **th})
    return out


def units(tier, seed):
    us = []
    A = A_VALUES[tier]
    pairs = [(name, a) for name in penalty_names(tier) for a in A] + scaled_penalty_units(tier)
    for name, a in pairs:
        a_other = A[(A.index(a) + 1) % len(A)] if a in A else A[0]
        us.append({"kind": "tau2", "K": name, "a": a, "a_other": a_other, "bs": B_VALUES[tier], "keys": [100 * seed + i for i in range(2 if tier == "quick" else 6)], "fresh": a == A[0] or tier != "quick"})
    for s in discrete_specs(tier):
        us.append({"kind": "discrete", "spec": s, "keys": [100 * seed + i for i in range(6 if tier == "quick" else 16)]})
    return us


# ---------------------------------------------------------------------------------
# helpers
# ---------------------------------------------------------------------------------


def _quiet():
    import logging

    logging.getLogger("liesel").setLevel(logging.ERROR)


def _epoch():
    import liesel.goose as gs

    return gs.EpochConfig(gs.EpochType.POSTERIOR, duration=1, thinning=1, optional=None).to_state(0, 0)


class LieselRaised(Exception):
    """An exception that came out of liesel's transition code on a valid input."""


def guarded(fn, *args):
    """Runs a real liesel call; exceptions raised by liesel become LieselRaised (a
    property violation: a Gibbs draw is not produced at all), harness exceptions
    (exhausted / unconsumed script) propagate unchanged."""
    from mc.seams import ScriptExhausted

    try:
        return fn(*args)
    except ScriptExhausted:
        raise
    except Exception as e:  # noqa: BLE001
        raise LieselRaised(f"{type(e).__name__}: {str(e).splitlines()[0][:200] if str(e) else ''}") from e


def snapshot(state):
    """Deep, comparable copy of a model state."""
    import numpy as np

    out = {}
    for k, ns in state.items():
        v = ns.value
        out[k] = (None if v is None else (np.asarray(v).dtype.str, np.asarray(v).tolist()), bool(ns.outdated))
    return out


# ---------------------------------------------------------------------------------
# tau2
# ---------------------------------------------------------------------------------


def build_tau2_model(Kname, a, b):
    import numpy as np
    import tensorflow_probability.substrates.jax.bijectors as tfb
    import tensorflow_probability.substrates.jax.distributions as tfd

    from liesel.model import distreg as dr

    K = ref.penalty(Kname)
    d = K.shape[0]
    X = np.vstack([np.eye(d), np.ones((1, d))])
    y = np.array(([0.3, -0.2, 1.0, 0.5, 0.1, -0.4] + [((7 * i) % 10) / 10.0 - 0.4 for i in range(6, d + 1)])[: d + 1])
    drb = dr.DistRegBuilder().add_response(y, tfd.Normal).add_predictor("loc", tfb.Identity).add_predictor("scale", tfb.Exp)
    drb.add_np_smooth(X, K=K, a=a, b=b, predictor="loc", name="f")
    drb.add_p_smooth(np.ones((d + 1, 1)), m=0.0, s=10.0, predictor="scale", name="s0")
    return drb.build_model()


def run_tau2(res: core.UnitResult, u: dict):
    import gc

    import jax
    import jax.numpy as jnp
    import numpy as np

    import liesel.goose as gs
    from liesel.model import distreg as dr
    from mc.seams import ScriptedPRNG

    _quiet()
    Kname, a0 = u["K"], u["a"]
    K0 = K = ref.penalty(Kname)
    rk = ref.rank(K)
    if rk != ref.EXPECTED_RANK[Kname]:
        raise RuntimeError("reference rank differs from the hand-stated rank of the penalty")
    first: set[str] = set()
    spreads: list[float] = []
    epoch = _epoch()
    b0 = u["bs"][0]

    # ONE model and ONE kernel per unit, built with (a0, b0). Every other hyper-parameter
    # setting reaches the kernel only through the model STATE it is handed (as in MCMC,
    # where the kernel is built once): b over its lattice, a second value of a, and a
    # changed rank hyper-parameter. A kernel that freezes anything at construction time
    # is therefore exposed.
    model = build_tau2_model(Kname, a0, b0)
    group = model.groups()["f"]
    kernel = dr.tau2_gibbs_kernel(group)
    kernel.set_model(gs.LieselInterface(model))
    tname = group["tau2"].name
    tnode = group["tau2"].value_node.name
    jit_transition = jax.jit(lambda key, st: kernel.transition(key, {}, st, epoch).model_state[tnode].value)
    if tuple(kernel.position_keys) != (tname,):
        raise RuntimeError(f"unexpected position keys {kernel.position_keys}")
    all_betas = list(enumerate(ref.betas(Kname)))
    settings = [(a0, b, None, None, all_betas, "build" if b == b0 else "state-b") for b in u["bs"]]
    settings.append((u["a_other"], u["bs"][1], None, None, [all_betas[0], all_betas[4]], "state-a"))
    if rk >= 1:
        settings.append((a0, b0, rk - 1, None, [all_betas[0], all_betas[4]], "state-rank"))
        # the penalty itself changed in the state: re-weighted (same rank) ...
        settings.append((a0, u["bs"][1], None, ref.reweighted(K0), [all_betas[1], all_betas[4]], "state-K-same-rank"))
    # ... and of a different rank, together with the rank hyper-parameter
    settings.append((a0, u["bs"][1], 1, ref.rank_one(K0), [all_betas[1], all_betas[4]], "state-K-rank-one"))
    # scales at which the full conditional sits far outside [float32 eps, 1/eps]: the draw is still b*/gamma
    settings.append((a0, 1e-9, None, None, [all_betas[0]], "state-b-tiny"))
    settings.append((a0, b0, None, None, [(len(all_betas), [1e4 * v for v in all_betas[4][1]])], "state-beta-huge"))
    rank_dtype = np.asarray(group["rank"].value).dtype

    for si, (a, b, rank_state, K_state, betas, how) in enumerate(settings):
        K = K0 if K_state is None else K_state
        if K_state is not None and ref.rank(K) != (rk if rank_state is None else rank_state):
            raise RuntimeError("penalty handed over in the state does not have the stated rank")
        model.vars[group["a"].name].value = a
        model.vars[group["b"].name].value = b
        model.vars[group["rank"].name].value = np.asarray(rk if rank_state is None else rank_state, dtype=rank_dtype)
        model.vars[group["K"].name].value = jnp.asarray(K, dtype=jnp.float32)
        for bi, beta in betas:
            case = {"penalty": Kname, "K": K.tolist() if K.shape[0] <= 5 else f"{Kname} (dim {K.shape[0]})", "a": a, "b": b, "beta": beta,
                    "rank_in_state": rk if rank_state is None else rank_state, "kernel_built_with": {"a": a0, "b": b0, "rank": rk, "K": Kname}, "setting_reached_via": how,
                    "K_in_state": None if K_state is None else (K.tolist() if K.shape[0] <= 5 else how)}

            def bad(sig, msg, extra=None):
                if sig in first:
                    return
                first.add(sig)
                res.violation("tau2", sig, {**case, **(extra or {})},
                              msg + f" [penalty={Kname} (rank {rk}), a={a}, b={b}, rank in state={case['rank_in_state']}, beta={beta}; kernel built once with a={a0}, b={b0}; setting via {how}]")

            model.vars[group["beta"].name].value = jnp.asarray(beta, dtype=jnp.float32)
            model.vars[tname].value = 1.5
            state = model.state
            before = snapshot(state)
            a_ref, b_ref = ref.tau2_conditional(K, a, b, beta, rank_state)

            obs = {}
            raised = None
            for g in GAMMA_ANSWERS:
                try:
                    with ScriptedPRNG([g]) as sp:
                        out = guarded(kernel.transition, jax.random.PRNGKey(0), {}, state, epoch)
                        sp.assert_consumed()
                except LieselRaised as e:
                    raised = e
                    break
                res.transitions += 1
                if len(sp.log) != 1 or sp.log[0]["fn"] != "gamma" or sp.log[0]["a"] is None:
                    raise RuntimeError(f"unexpected draws in the tau2 transition: {sp.log}")
                a_g = float(np.asarray(sp.log[0]["a"]))
                draw = float(out.model_state[tnode].value)
                obs[g] = (a_g, draw, out)
                if int(out.info.error_code) != 0:
                    bad("error-code", f"transition reported error code {int(out.info.error_code)}")
            if raised is not None:
                bad("transition-raised", f"the transition raised {raised}")
                continue
            if snapshot(state) != before:
                bad("input-state-modified", "the model state passed to the transition was modified")

            a_g, b_g, out1 = obs[1.0][0], obs[1.0][1], obs[1.0][2]
            # (iii) draw = scale / gamma answer, shape the same for every answer
            for g in GAMMA_ANSWERS[1:]:
                if abs(obs[g][1] * g - b_g) > 1e-6 * abs(b_g) or obs[g][0] != a_g:
                    bad("draw-not-scale-over-gamma", f"gamma answers 1 and {g} give draws {b_g} and {obs[g][1]}; expected draw = scale / gamma", {"draws": {str(k): v[1] for k, v in obs.items()}})
            # (i) closed form
            tag = "" if how == "build" else "-" + how
            if abs(a_g - a_ref) > PARAM_RTOL * (1 + abs(a_ref)):
                bad("shape-not-a-plus-half-rank" + tag, f"gamma shape parameter {a_g}, full conditional has a + rank/2 = {a_ref}", {"a_gibbs": a_g})
            if abs(b_g - b_ref) > PARAM_RTOL * (1 + abs(b_ref)):
                bad("scale-not-b-plus-half-quadform" + tag, f"inverse-gamma scale {b_g}, full conditional has b + beta'K beta/2 = {b_ref}", {"b_gibbs": b_g})
            # (iv) coherent returned state
            st1 = out1.model_state
            model.vars[tname].value = b_g
            lp_direct = float(model.log_prob)
            lp_state = float(st1["_model_log_prob"].value)
            if abs(lp_direct - lp_state) > 1e-4 * (1 + abs(lp_direct)) or any(bool(ns.outdated) for ns in st1.values()):
                bad("returned-state-incoherent", f"returned state has log_prob {lp_state} but the model at the drawn tau2 has {lp_direct} (or outdated nodes)")
            if np.asarray(st1[group["beta"].value_node.name].value).tolist() != [float(np.float32(v)) for v in beta]:
                bad("returned-state-other-values-changed", "beta changed in the returned state")
            # (ii) ratio test against the model joint
            lps = []
            if a_g > 0 and b_g > 0:
                diffs = []
                for t in TAU2_LATTICE:
                    model.vars[tname].value = t
                    lp = float(model.log_prob)
                    lps.append(lp)
                    diffs.append(lp - ref.ig_logpdf(t, a_g, b_g))
                res.transitions += len(TAU2_LATTICE)
                spread = max(diffs) - min(diffs)
                spreads.append(spread)
                # float32 noise of the model joint grows with its magnitude and with the
                # number of eigenvalue terms: observed <= 8e-5 (dim <= 5), 1.9e-3 (dim 20),
                # 7e-3 at |log joint| ~ 4e5; a wrong power of tau2 moves the spread by >= 3.45
                scale = max(max(abs(v) for v in lps), max(abs(l - d_) for l, d_ in zip(lps, diffs)))
                ratio_tol = (RATIO_TOL if K.shape[0] <= 5 else 4 * RATIO_TOL) + 5e-7 * scale
                if not np.isfinite(spread) or spread > ratio_tol:
                    bad("not-proportional-to-model-joint",
                        f"log joint(tau2) - log IG(tau2; {a_g}, {b_g}) varies by {spread:.4g} over tau2 in {TAU2_LATTICE}: the drawn law is not the model's full conditional",
                        {"a_gibbs": a_g, "b_gibbs": b_g, "log_joint": lps, "diffs": diffs})
            else:
                bad("invalid-inverse-gamma-parameters", f"kernel uses IG({a_g}, {b_g})")
            # fresh-model cross-check of the assignment path (harness sanity): a model
            # BUILT with the setting has the same joint as the one that was assigned to
            if u["fresh"] and bi == 4 and si == 1 and lps:
                m2 = build_tau2_model(Kname, a, b)
                m2.vars[group["beta"].name].value = jnp.asarray(beta, dtype=jnp.float32)
                m2.vars[tname].value = TAU2_LATTICE[-1]
                if abs(float(m2.log_prob) - lps[-1]) > 1e-4 * (1 + abs(lps[-1])):
                    raise RuntimeError("model joint through assignment differs from a freshly built model")
            # (v) jit == eager on real keys
            if bi in (0, 4) and si in (0, 1):
                for kk in u["keys"]:
                    key = jax.random.PRNGKey(kk)
                    try:
                        de = float(guarded(kernel.transition, key, {}, state, epoch).model_state[tnode].value)
                        dj = float(guarded(jit_transition, key, state))
                    except LieselRaised as e:
                        bad("transition-raised-real-key", f"PRNGKey({kk}): the (eager or jitted) transition raised {e}", {"key": kk})
                        continue
                    res.transitions += 2
                    # a Gamma(a) draw with tiny a can underflow to 0 in float32, the draw is
                    # then +inf in both modes (a = 0.01, rank 0): equal, not a difference
                    same = de == dj or abs(de - dj) <= 1e-5 * abs(de)
                    if not same or not de > 0:
                        bad("jit-differs-from-eager", f"PRNGKey({kk}): eager draw {de}, jitted draw {dj}", {"key": kk})
                    res.outcome("tau2-real-key", "finite" if np.isfinite(de) else "overflow-to-inf")
            res.states += 1
            res.executions += len(GAMMA_ANSWERS)
            qf = b_ref - b
            res.outcome("tau2", Kname, "rank", rk, how, "quad", "zero" if qf == 0 else "small" if qf < 2 else "large")
            res.note([Kname, a, b, how, beta[:5], round(a_g, 5), round(b_g, 4)])
            res.sample({"kind": "tau2", **case, "a_gibbs": a_g, "b_gibbs": b_g, "reference": [a_ref, b_ref]}, limit=1)
    # jitted transitions / traced closures accumulate in jax's caches (workers are reused)
    jax.clear_caches()
    gc.collect()
    res.note(["max ratio spread", round(max(spreads), 3) if spreads else None])
    res.sample({"kind": "tau2-ratio-test", "penalty": Kname, "a": a0, "max_spread_of_log_ratio": max(spreads) if spreads else None, "tolerance": RATIO_TOL}, limit=2)


# ---------------------------------------------------------------------------------
# discrete
# ---------------------------------------------------------------------------------


def build_discrete_model(spec, theta):
    import jax.numpy as jnp
    import tensorflow_probability.substrates.jax.distributions as tfd

    import liesel.model as lsl

    probs = lsl.Var(jnp.asarray(theta["probs"], jnp.float32), name="probs")
    if spec["prior"] == "finite":
        grid = lsl.Var(jnp.asarray(spec["support"], jnp.float32), name="grid")
        prior = lsl.Dist(tfd.FiniteDiscrete, outcomes=grid, probs=probs)
        # "z_int": the variable currently holds a Python int although the outcome grid is fractional
        z = lsl.Var(int(spec["z_int"]), prior, name="z") if spec.get("z_int") is not None else lsl.Var(jnp.asarray(spec["support"][0], jnp.float32), prior, name="z")
    else:
        prior = lsl.Dist(tfd.Bernoulli, probs=probs)
        z = lsl.Var(jnp.asarray(1, jnp.int32), prior, name="z")
    z.parameter = True
    gb = lsl.GraphBuilder().add(z)
    if spec["lik"] == "mean":
        slope = lsl.Var(jnp.asarray(theta["slope"], jnp.float32), name="slope")
        icpt = lsl.Var(jnp.asarray(theta["icpt"], jnp.float32), name="icpt")
        sd = lsl.Var(jnp.asarray(theta["sd"], jnp.float32), name="sd")
        loc = lsl.Var(lsl.Calc(lambda z, s, i: i + s * z, z, slope, icpt), name="loc")
        y = lsl.obs(jnp.asarray(ref.y_of(spec), jnp.float32), lsl.Dist(tfd.Normal, loc=loc, scale=sd), name="y")
        gb.add(y)
    elif spec["lik"] == "diamond":
        # diamond of cached nodes between z and the likelihood: sigma = f(z) feeds the
        # scale AND the mean; both input orders of the mean, sigma as cached Calc or weak
        # Var, distribution arguments by keyword or by position
        slope = lsl.Var(jnp.asarray(theta["slope"], jnp.float32), name="slope")
        icpt = lsl.Var(jnp.asarray(theta["icpt"], jnp.float32), name="icpt")
        sd = lsl.Var(jnp.asarray(theta["sd"], jnp.float32), name="sd")
        sig_calc = lsl.Calc(lambda z, sd: sd * (1.0 + 0.25 * z * z), z, sd)
        sigma = lsl.Var(sig_calc, name="sigma") if spec["sigma"] == "wvar" else sig_calc
        if spec["order"] == "sz":
            mean = lsl.Calc(lambda sg, z, s, i: i + s * z * sg, sigma, z, slope, icpt)
        else:
            mean = lsl.Calc(lambda z, sg, s, i: i + s * z * sg, z, sigma, slope, icpt)
        if spec["sigma"] == "wvar":
            mean = lsl.Var(mean, name="mean")
        dist = lsl.Dist(tfd.Normal, loc=mean, scale=sigma) if spec["args"] == "kw" else lsl.Dist(tfd.Normal, mean, sigma)
        y = lsl.obs(jnp.asarray(ref.y_of(spec), jnp.float32), dist, name="y")
        gb.add(y)
    elif spec["lik"] == "resid":
        # z enters the density through the VALUE of a weak variable that has a
        # distribution: r = y - slope * z, r ~ N(icpt, sd)
        slope = lsl.Var(jnp.asarray(theta["slope"], jnp.float32), name="slope")
        icpt = lsl.Var(jnp.asarray(theta["icpt"], jnp.float32), name="icpt")
        sd = lsl.Var(jnp.asarray(theta["sd"], jnp.float32), name="sd")
        ydata = lsl.obs(jnp.asarray(ref.y_of(spec), jnp.float32), name="y")
        r = lsl.Var(lsl.Calc(lambda y, s, z: y - s * z, ydata, slope, z), lsl.Dist(tfd.Normal, loc=icpt, scale=sd), name="r")
        gb.add(r)
    elif spec["lik"] == "mixture":
        mus = lsl.Var(jnp.asarray(theta["mus"], jnp.float32), name="mus")
        sds = lsl.Var(jnp.asarray(theta["sds"], jnp.float32), name="sds")
        loc = lsl.Var(lsl.Calc(lambda z, m: m[jnp.asarray(z, jnp.int32)], z, mus), name="loc")
        sc = lsl.Var(lsl.Calc(lambda z, s: s[jnp.asarray(z, jnp.int32)], z, sds), name="scale")
        y = lsl.obs(jnp.asarray(ref.y_of(spec), jnp.float32), lsl.Dist(tfd.Normal, loc=loc, scale=sc), name="y")
        gb.add(y)
    return gb.build_model()


def assign_theta(model, spec, theta):
    import jax.numpy as jnp

    for k, v in theta.items():
        model.vars[k].value = jnp.asarray(v, jnp.float32)


def run_discrete(res: core.UnitResult, u: dict):
    import jax
    import numpy as np

    import liesel.goose as gs
    from liesel.model.goose import finite_discrete_gibbs_kernel
    from mc.seams import ScriptedPRNG

    _quiet()
    spec = u["spec"]
    states = spec_states(spec)
    epoch = _epoch()
    first: set[str] = set()

    model = build_discrete_model(spec, states[0])
    auto_before, state_before = model.auto_update, snapshot(model.state)
    try:
        kernel = guarded(finite_discrete_gibbs_kernel, "z", model, spec["explicit"])
    except LieselRaised as e:
        res.violation("discrete", "kernel-construction-raised", {"spec": spec}, f"finite_discrete_gibbs_kernel raised {e} [spec={spec}]")
        return
    if model.auto_update != auto_before or snapshot(model.state) != state_before:
        res.violation("discrete", "kernel-construction-changes-user-model", {"spec": spec},
                      f"creating the kernel changed the user's model (auto_update {auto_before} -> {model.auto_update}, state changed: {snapshot(model.state) != state_before}) [spec={spec}]")
    kernel.set_model(gs.LieselInterface(model))
    outcomes = spec["explicit"] if spec["explicit"] is not None else spec["support"]
    n_out = len(outcomes)
    znode = model.vars["z"].value_node.name

    # the states handed to the kernel come from a second model object (the kernel and the
    # interface hold their own copies)
    src = build_discrete_model(spec, states[0])
    real_states = []
    for th in states:
        assign_theta(src, spec, th)
        real_states.append(src.state)

    def check_call(th, st, j, hist):
        case = {"spec": spec, "theta": th, "forced_index": j, "previous_call_theta": hist}

        def bad(sig, msg, extra=None):
            if sig in first:
                return
            first.add(sig)
            res.violation("discrete", sig, {**case, **(extra or {})}, msg + f" [prior={spec['prior']} support={spec['support']} explicit={spec['explicit']} lik={spec['lik']} theta={th} previous={hist}]")

        before = snapshot(st)
        try:
            with ScriptedPRNG([j]) as sp:
                out = guarded(kernel.transition, jax.random.PRNGKey(0), {}, st, epoch)
                sp.assert_consumed()
        except LieselRaised as e:
            bad("transition-raised", f"the transition raised {e}")
            return None
        res.transitions += 1
        res.executions += 1
        if len(sp.log) != 1 or sp.log[0]["fn"] != "categorical":
            raise RuntimeError(f"unexpected draws in the discrete transition: {sp.log}")
        logits = sp.log[0]["logits"]
        if logits is None:
            raise RuntimeError("logits were not concrete")
        logits = np.asarray(logits, dtype=np.float64)
        want = ref.discrete_conditional(spec, th, outcomes)
        if logits.shape != (n_out,):
            bad("logits-shape", f"categorical logits have shape {logits.shape} for {n_out} outcomes")
            return None
        got = ref.softmax(logits)
        # float32 logits of magnitude m carry an absolute error of about 1e-7 * m (times a
        # small factor for the summation over the observations)
        fin = logits[np.isfinite(logits)]
        prob_tol = PROB_TOL + 2e-6 * (float(np.max(np.abs(fin))) if fin.size else 0.0)
        if not np.all(np.isfinite(got)) or np.max(np.abs(got - want)) > prob_tol:
            bad("probabilities-not-full-conditional", f"draw probabilities {np.round(got, 6).tolist()} but the model's full conditional over outcomes {outcomes} is {np.round(want, 6).tolist()}", {"logits": logits.tolist(), "reference": want.tolist()})
        if snapshot(st) != before:
            bad("input-state-modified", "the model state passed to the transition was modified")
        new = out.model_state
        zv = np.asarray(new[znode].value)
        if float(zv) != float(outcomes[j]):
            bad("forced-outcome-not-written", f"categorical answer {j} (outcome {outcomes[j]}) but the returned state holds z={zv}")
        else:
            lp_ref = ref.joint_logp(spec, th, float(outcomes[j]))
            lp = float(new["_model_log_prob"].value)
            if np.isfinite(lp_ref) and (abs(lp - lp_ref) > 2e-4 * (1 + abs(lp_ref)) or any(bool(ns.outdated) for ns in new.values())):
                bad("returned-state-incoherent", f"returned state has log_prob {lp}, the model joint at z={outcomes[j]} is {lp_ref}")
        for k in ("probs", "slope", "icpt", "sd", "mus", "sds", "y"):
            nk = k + "_value"
            if nk in new and np.asarray(new[nk].value).tolist() != np.asarray(st[nk].value).tolist():
                bad("returned-state-other-values-changed", f"{k} changed in the returned state")
        res.outcome("discrete", spec["prior"], "explicit" if spec["explicit"] is not None else "extracted", n_out, spec["lik"], "argmax", int(np.argmax(want)), "forced", j)
        return got

    for (i1, th1), (i2, th2) in itertools.product(enumerate(states), repeat=2):
        # call on s1 (checked too), then on s2: the second result must not depend on s1
        check_call(th1, real_states[i1], (i1 + i2) % n_out, None)
        for j in range(n_out):
            got = check_call(th2, real_states[i2], j, th1)
        res.states += 1
        res.note([i1, i2, None if got is None else np.round(got, 5).tolist()])
    # states taken from the very model the kernel was created from, after new values were assigned to it
    for i, th in enumerate(states):
        assign_theta(model, spec, th)
        check_call(th, model.state, i % n_out, "same-model")
    res.sample({"kind": "discrete", "spec": spec, "theta": states[-1], "conditional": ref.discrete_conditional(spec, states[-1], outcomes).tolist()}, limit=1)

    # jit == eager on real keys, all states
    jt = jax.jit(lambda key, st: kernel.transition(key, {}, st, epoch).model_state[znode].value)
    seen = set()
    for i, th in enumerate(states):
        for kk in u["keys"]:
            key = jax.random.PRNGKey(kk)
            try:
                ze = float(guarded(kernel.transition, key, {}, real_states[i], epoch).model_state[znode].value)
                zj = float(guarded(jt, key, real_states[i]))
            except LieselRaised as e:
                if "transition-raised-real-key" not in first:
                    first.add("transition-raised-real-key")
                    res.violation("discrete", "transition-raised-real-key", {"spec": spec, "theta": th, "key": kk}, f"PRNGKey({kk}): the (eager or jitted) transition raised {e} [spec={spec} theta={th}]")
                continue
            res.transitions += 2
            seen.add(ze)
            if ze != zj and "jit-differs-from-eager" not in first:
                first.add("jit-differs-from-eager")
                res.violation("discrete", "jit-differs-from-eager", {"spec": spec, "theta": th, "key": kk}, f"PRNGKey({kk}): eager draw {ze}, jitted draw {zj} [spec={spec} theta={th}]")
            if ze not in [float(o) for o in outcomes] and "draw-outside-outcomes" not in first:
                first.add("draw-outside-outcomes")
                res.violation("discrete", "draw-outside-outcomes", {"spec": spec, "theta": th, "key": kk}, f"PRNGKey({kk}): draw {ze} is not one of the outcomes {outcomes}")
    res.outcome("discrete-real-keys", "distinct-draws", min(len(seen), 2))
    import gc

    jax.clear_caches()
    gc.collect()


def run_unit(unit):
    core.assert_repo()
    res = core.UnitResult(unit)
    if unit["kind"] == "tau2":
        run_tau2(res, unit)
    elif unit["kind"] == "discrete":
        run_discrete(res, unit)
    else:
        raise ValueError(unit["kind"])
    return res
