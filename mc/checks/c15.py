"""
C15 - built models are complete, acyclic, uniquely named, frozen, and round-trip.

(A) structure   : per generated program x build variant: completeness, names, outputs
                  = inverse of inputs, topological evaluation order, rejection of bad
                  graphs.
(B) freezing    : every structural mutator on every in-model node / var must raise and
                  leave the canonical structure unchanged; must work again after pop.
(C) round trips : all op sequences up to the tier's depth over {set, auto, update,
                  pop+rebuild, copy+rebuild, deepcopy, save/load, mutate-attempts,
                  set_seed}, differential oracle: a twin model that never round-trips
                  receives the same assignments; states must agree after every op and
                  every copied-from original must keep its state (independence).
"""

from __future__ import annotations

import copy
import io
import itertools

from mc import core, programs

PROPERTY = "C15"
RULE = (
    "programs: all G-cache graphs with <= 3 items (quick) / <= 4 items (thorough) plus extras "
    "(groups, seeded, unnamed, shared inputs, dist on weak var); build variants {add all, add "
    "sinks only, add reversed, copy=True}; op sequences of depth <= 3 (quick) / 4 (thorough) over "
    "the round-trip alphabet; bad graphs: duplicate node/var/group names, reserved names, node "
    "cycles, simulation cycles, node already in a model. Distinct outcome = (op, structural "
    "signature of the resulting model)."
)
ASSUMPTIONS = [
    "node functions are pure and content-based so that values are comparable across copies",
    "structural mutators = add_inputs, set_inputs, name, needs_seed, function, at, distribution, per_obs, value_node, dist_node, observed, parameter, transform (group membership, role, info, monitor, auto_transform are not structure)",
]


def bounds(tier):
    if tier == "quick":
        return {"items": 3, "depth": "3 for extras and programs with <= 2 items, 2 for 3-item programs"}
    return {"items": 4, "depth": "4 for extras and <= 2 items, 3 for 3 items, 2 for (every 4th) 4-item program"}


EXTRAS = [
    {"items": [{"kind": "var", "group": "g"}, {"kind": "calc", "inputs": [0], "seed": True, "group": "g"}, {"kind": "calc", "inputs": [1], "group": "h"}]},
    {"items": [{"kind": "var"}, {"kind": "value"}, {"kind": "dist", "var": 0, "inputs": [1], "seed": True}]},
    {"items": [{"kind": "value", "named": False}, {"kind": "calc", "inputs": [0], "named": False}, {"kind": "tcalc", "inputs": [1], "named": False}, {"kind": "wvar", "inputs": [2, 0], "named": False}], "to_float32": False},
    {"items": [{"kind": "var"}, {"kind": "wvar", "inputs": [0]}, {"kind": "dist", "var": 1, "inputs": [0], "flag": "observed", "group": "g"}]},
    {"items": [{"kind": "var"}, {"kind": "value"}, {"kind": "dist", "var": 0, "inputs": [1], "flag": "parameter", "per_obs": False}, {"kind": "calc", "inputs": [2, 0]}]},
    {"items": [{"kind": "var", "named": False}, {"kind": "var"}, {"kind": "calc", "inputs": [0, 1], "seed": True}, {"kind": "wvar", "inputs": [2, 2], "seed": True}]},
    # a variable with a distribution that is only reachable as an input of something else
    {"items": [{"kind": "var"}, {"kind": "value"}, {"kind": "dist", "var": 0, "inputs": [1]}, {"kind": "calc", "inputs": [0]}]},
    # unnamed seeded nodes (automatic names must exist before the seed nodes are named)
    {"items": [{"kind": "var"}, {"kind": "calc", "inputs": [0], "seed": True, "named": False}, {"kind": "calc", "inputs": [0], "seed": True, "named": False}]},
    # keyword inputs, transient dist on a weak var, argument order b-before-a
    {"items": [{"kind": "var"}, {"kind": "calc", "inputs": [0]}, {"kind": "calc", "inputs": [1, 0], "kw": [False, True]}, {"kind": "tcalc", "inputs": [2, 1]}]},
    {"items": [{"kind": "var"}, {"kind": "value"}, {"kind": "wvar", "inputs": [0]}, {"kind": "tdist", "var": 2, "inputs": [1], "kw": True}]},
    # a seeded node whose seed input is supplied by the USER (takes precedence over the model seed)
    {"items": [{"kind": "var"}, {"kind": "value"}, {"kind": "calc", "inputs": [0], "seed": True, "user_seed": 1}, {"kind": "calc", "inputs": [2]}]},
    # a free-standing distribution node (no variable, `at` set by hand) next to ordinary variables
    {"items": [{"kind": "var"}, {"kind": "value"}, {"kind": "calc", "inputs": [0]}, {"kind": "bdist", "at": 2, "inputs": [1]}]},
    # user names that CONTAIN "_model" (only the prefix "_model" is reserved); a bare root node
    {"items": [{"kind": "var"}, {"kind": "calc", "inputs": [0], "name": "lin_model_rss"}, {"kind": "value", "name": "a_model"}]},
    # two variables connected only through a var-less node that takes the upstream one by keyword
    {"items": [{"kind": "var"}, {"kind": "calc", "inputs": [0], "kw": [True]}, {"kind": "wvar", "inputs": [1]}, {"kind": "value"}, {"kind": "dist", "var": 2, "inputs": [3], "kw": True}]},
    # a node wired directly to a variable's value node instead of to the variable
    {"items": [{"kind": "var"}, {"kind": "calc", "inputs": [0], "raw": [True]}, {"kind": "wvar", "inputs": [1]}, {"kind": "wvar", "inputs": [0, 2], "raw": [True, False]}]},
]


def units(tier, seed):
    n = 3 if tier == "quick" else 4
    progs = programs.enumerate_programs(2, n)
    if tier != "quick":
        progs = [p for i, p in enumerate(progs) if len(p["items"]) <= 3 or i % 4 == 0]
    jobs = []
    for p in EXTRAS:
        jobs.append((p, 3 if tier == "quick" else 4))
    for p in progs:
        k = len(p["items"])
        if tier == "quick":
            jobs.append((p, 3 if k <= 2 else 2))
        else:
            jobs.append((p, 4 if k <= 2 else 3 if k == 3 else 2))
    size = 8 if tier == "quick" else 4
    n_units = -(-len(jobs) // size)
    us = [{"kind": "roundtrip", "jobs": [[p, d] for p, d in jobs[u::n_units]], "first": u} for u in range(n_units)]
    us.insert(0, {"kind": "bad_graphs"})
    return us


# ---------------------------------------------------------------------------------
# helpers
# ---------------------------------------------------------------------------------


def canon_value(v):
    if hasattr(v, "shape") and hasattr(v, "dtype"):
        return ("arr", programs.seed_tuple(v))
    return v


def model_state(m):
    """name -> (value, outdated) through the public API only."""
    return {k: (canon_value(s.value), bool(s.outdated)) for k, s in m.state.items()}


def structure(m):
    """Canonical structure: per node (class, inputs, kwinputs, outputs, flags), per var."""
    lsl = programs  # noqa
    nodes = {}
    for name, n in m.nodes.items():
        d = {
            "cls": type(n).__name__,
            "inputs": tuple(i.name for i in n.inputs),
            "kwinputs": tuple(sorted((k, i.name) for k, i in n.kwinputs.items())),
            "outputs": tuple(sorted(o.name for o in n.outputs)),
            "needs_seed": n.needs_seed,
            "name": n.name,
            "fn": id(getattr(n, "_function", None)),
            "dist": id(getattr(n, "_distribution", None)),
            "at": getattr(getattr(n, "_at", None), "name", None),
            "per_obs": getattr(n, "_per_obs", None),
            "var": getattr(n.var, "name", None),
        }
        nodes[name] = d
    vs = {}
    for name, v in m.vars.items():
        vs[name] = (v.name, v.value_node.name, v.var_value_node.name, getattr(v.dist_node, "name", None), v.observed, v.parameter)
    return nodes, vs


def structure_sig(m):
    nodes, vs = structure(m)
    return core.digest([sorted((k, d["cls"], d["inputs"], d["kwinputs"], d["outputs"]) for k, d in nodes.items()), sorted(vs.values(), key=repr)])


def check_structure(res, b: programs.Built, m, where, program):
    """Completeness, naming, outputs = inverse of inputs, reference edges."""
    lsl = b.lsl
    probs = []
    names = list(m.nodes)
    if len(set(names)) != len(names) or any(not n for n in names):
        probs.append(("names", "node names not unique / empty"))
    for k, n in m.nodes.items():
        if n.name != k:
            probs.append(("names", f"node registered as {k!r} has name {n.name!r}"))
        if n.model is not m:
            probs.append(("membership", f"node {k} does not point to its model"))
    for k, v in m.vars.items():
        if v.name != k or not k:
            probs.append(("names", f"var registered as {k!r} has name {v.name!r}"))
        for n in v.nodes:
            if m.nodes.get(n.name) is not n:
                probs.append(("completeness", f"node {n.name} of var {k} missing from the model"))
    # reference node set from the program
    want = 3  # _model_log_*
    for it in b.items:
        want += {"value": 1, "var": 2, "calc": 1, "tcalc": 1, "wvar": 2, "dist": 1, "tdist": 1, "bdist": 1}[it["kind"]]
        if it.get("seed") and "user_seed" not in it:
            want += 1
    if len(m.nodes) != want:
        probs.append(("completeness", f"model has {len(m.nodes)} nodes, reference closure has {want}"))
    nvars = sum(1 for it in b.items if it["kind"] in ("var", "wvar"))
    if len(m.vars) != nvars:
        probs.append(("completeness", f"model has {len(m.vars)} vars, reference {nvars}"))
    # every recursive input is in the model; outputs are the exact inverse of inputs
    for k, n in m.nodes.items():
        for i in n.all_input_nodes():
            if m.nodes.get(i.name) is not i:
                probs.append(("completeness", f"input {i.name!r} of {k} is not in the model"))
            elif n not in i.outputs:
                probs.append(("outputs", f"{k} missing from outputs of its input {i.name}"))
        for o in n.outputs:
            if n not in o.all_input_nodes():
                probs.append(("outputs", f"{o.name} is an output of {k} but does not have it as input"))
        if len(set(map(id, n.outputs))) != len(n.outputs):
            probs.append(("outputs", f"duplicate outputs on {k}"))
    # reference edges by item structure
    for i, it in enumerate(b.items):
        o = b.objs[i]
        if it["kind"] in ("calc", "tcalc", "wvar"):
            node = o.value_node if isinstance(o, lsl.Var) else o
            got = [x for x in node.inputs] + [x for k, x in sorted(node.kwinputs.items()) if k != "seed"]
            kwmask = it.get("kw") or [False] * len(it["inputs"])
            rawmask = it.get("raw") or [False] * len(it["inputs"])
            outs = [(b.objs[j].value_node if raw and isinstance(b.objs[j], lsl.Var) else b.out[j]) for j, raw in zip(it["inputs"], rawmask)]
            ref = [x for x, kw in zip(outs, kwmask) if not kw] + [x for x, kw in zip(outs, kwmask) if kw]
            if "user_seed" in it and node.kwinputs.get("seed") is not b.out[it["user_seed"]]:
                probs.append(("edges", f"item {i}: the user-supplied seed input is no longer connected"))
            if len(got) != len(ref) or any(g is not r for g, r in zip(got, ref)):
                probs.append(("edges", f"item {i}: inputs differ from the program"))
        if it["kind"] in ("dist", "tdist"):
            if o.at is not b.out[it["var"]]:
                probs.append(("edges", f"item {i}: dist.at is not its variable's value proxy"))
    for i, it in enumerate(b.items):
        if it["kind"] == "bdist" and b.objs[i].at is not b.out[it["at"]]:
            probs.append(("edges", f"item {i}: free-standing dist is not evaluated at the node it was given"))
    # variable level: outputs are the inverse of inputs
    vs = list(m.vars.values()) if not any(tag in ("completeness", "membership") for tag, _ in probs) else []
    for x in vs:
        for z in vs:
            if x is z:
                continue
            a, c = x in z.all_input_vars(), z in x.all_output_vars()
            if a != c:
                probs.append(("var-outputs", f"var {x.name} {'is' if a else 'is not'} an input var of {z.name} but {z.name} {'is' if c else 'is not'} among its output vars"))
        for n in x.all_output_nodes():
            if not any(i_ in x.nodes for i_ in n.all_input_nodes()):
                probs.append(("var-outputs", f"{n.name} listed as output node of var {x.name} without taking any of its nodes as input"))
        for node in x.nodes:
            for o in node.outputs:
                if o not in x.nodes and o not in x.all_output_nodes():
                    probs.append(("var-outputs", f"{o.name} takes a node of var {x.name} as input but is missing from its output nodes"))
    # model log prob node inputs = all dists
    dists = {n.name for n in m.nodes.values() if isinstance(n, lsl.Dist)}
    got = {n.name for n in m.nodes["_model_log_prob"].all_input_nodes()}
    if got != dists:
        probs.append(("edges", f"_model_log_prob inputs {sorted(got)} != dist nodes {sorted(dists)}"))
    for tag, msg in probs[:3]:
        res.violation("structure", tag, {"program": program, "where": where}, f"{msg} ({where}; program {program['items']})")
    return not probs


def check_topological(res, b, m, program, where, target=None):
    """Assign all inputs with auto-update off, update once, look at evaluation order."""
    m.auto_update = False
    for i, it in enumerate(b.items):
        if it["kind"] == "value":
            b.objs[i].value = b.val(1)
        elif it["kind"] == "var":
            b.objs[i].value = b.val(1)
    b.order.clear()
    if target is None:
        m.update()
    else:
        m.update(target)
    pos = {}
    for k, tag in enumerate(b.order):
        pos.setdefault(tag, k)
    anc = []
    for i, it in enumerate(b.items):
        deps = set(it.get("inputs", []))
        if it["kind"] in ("dist", "tdist"):
            deps.add(it["var"])
        if it["kind"] == "bdist":
            deps.add(it["at"])
        anc.append(deps)
    caching = {i for i, it in enumerate(b.items) if it["kind"] in ("calc", "wvar", "dist", "bdist")}  # tdist/tcalc are transient

    def first_cached_ancestors(i, acc):
        for j in anc[i]:
            if j in caching:
                acc.add(j)
            else:
                first_cached_ancestors(j, acc)
        return acc

    for i in caching:
        tag = ("d", i) if b.items[i]["kind"] in ("dist", "tdist", "bdist") else ("c", i)
        if tag not in pos:
            if target is None:
                res.violation("structure", "topological", {"program": program, "where": where}, f"item {i} not evaluated by update() after assigning all inputs ({where})")
            continue
        for j in first_cached_ancestors(i, set()):
            tj = ("d", j) if b.items[j]["kind"] in ("dist", "tdist", "bdist") else ("c", j)
            # the LAST evaluation of the ancestor must precede the first of the child
            last_j = max(k for k, t in enumerate(b.order) if t == tj) if tj in pos else -1
            if last_j > pos[tag]:
                res.violation("structure", "topological", {"program": program, "where": where}, f"item {i} evaluated before its ancestor {j} ({where})")
    m.auto_update = True
    for i, it in enumerate(b.items):
        if it["kind"] in ("value", "var"):
            b.objs[i].value = b.val(0)


MUTATORS_NODE = ["add_inputs", "set_inputs", "name", "needs_seed", "function", "at", "distribution", "per_obs"]
MUTATORS_VAR = ["value_node", "dist_node", "name", "observed", "parameter", "transform"]


def attempt_mutations(lsl, m):
    """Every structural mutator on every node / var. Returns list of (target, mutator) that did NOT raise."""
    import tensorflow_probability.substrates.jax.bijectors as tfb

    passed = []

    def trial(target, mut, fn):
        try:
            fn()
        except Exception:
            return
        passed.append((target, mut))

    other = lsl.Value(("in", 9))
    for name, n in list(m.nodes.items()):
        trial(name, "add_inputs", lambda: n.add_inputs(other))
        trial(name, "add_kwinputs", lambda: n.add_inputs(extra=other))
        trial(name, "set_inputs", lambda: n.set_inputs(other))
        trial(name, "set_inputs_empty", lambda: n.set_inputs())
        trial(name, "name", lambda: setattr(n, "name", name + "_renamed"))
        trial(name, "needs_seed", lambda: setattr(n, "needs_seed", not n.needs_seed))
        if isinstance(n, lsl.Calc):
            trial(name, "function", lambda: setattr(n, "function", lambda *a, **k: ("hacked",)))
        if isinstance(n, lsl.Dist):
            trial(name, "at", lambda: setattr(n, "at", n.at))
            trial(name, "at_none", lambda: setattr(n, "at", None))
            trial(name, "distribution", lambda: setattr(n, "distribution", lambda *a, **k: None))
            trial(name, "per_obs", lambda: setattr(n, "per_obs", not n.per_obs))
    # an object OUTSIDE the model must not be able to capture in-model nodes
    for name, n in list(m.nodes.items()):
        if isinstance(n, lsl.Dist):
            trial(name, "captured-as-dist_node", lambda: setattr(lsl.Var(("in", 5), name="outsider"), "dist_node", n))
        if not name.startswith("_model") and n.var is None:
            trial(name, "captured-as-value_node", lambda: setattr(lsl.Var(("in", 5), name="outsider2"), "value_node", n))
    for name, v in list(m.vars.items()):
        trial(name, "value_node", lambda: setattr(v, "value_node", lsl.Value(("in", 7))))
        trial(name, "value_node_raw", lambda: setattr(v, "value_node", ("in", 7)))
        trial(name, "dist_node", lambda: setattr(v, "dist_node", lsl.Dist(lambda *a: None)))
        trial(name, "dist_node_none", lambda: setattr(v, "dist_node", None))
        trial(name, "var_name", lambda: setattr(v, "name", name + "_renamed"))
        trial(name, "observed", lambda: setattr(v, "observed", not v.observed))
        trial(name, "parameter", lambda: setattr(v, "parameter", not v.parameter))
        if v.strong and v.has_dist:
            trial(name, "transform", lambda: v.transform(tfb.Exp()))
    return passed


# ---------------------------------------------------------------------------------
# round-trip machine
# ---------------------------------------------------------------------------------


class RT:
    def __init__(self, program):
        import jax
        import liesel.model as lsl

        self.lsl, self.jax = lsl, jax
        self.program = program
        self.b = programs.Built(program)
        self.twin = programs.Built(program)
        self.originals = []  # (model, state at the time of copying, label)
        self.seed_set = False
        self.rebuilt_after_seed = False
        self.dead = False

    def input_items(self):
        return [i for i, it in enumerate(self.b.items) if it["kind"] in ("value", "var")]

    def ops(self):
        out = []
        ins = self.input_items()
        for i in ins[:2]:
            out.append(("set", i, 1))
        out.append(("auto_off",))
        out += [("pop_rebuild",), ("copy_rebuild",), ("deepcopy",), ("saveload",), ("mutate",)]
        if any(it.get("seed") for it in self.b.items):
            out.append(("seed", 1))
        return out

    def _rebuild(self, nodes, vars_):
        gb = self.lsl.GraphBuilder(to_float32=self.program.get("to_float32", True))
        gb.add(*nodes.values(), *vars_.values())
        return gb.build_model()

    def apply(self, op, res, hist):
        b, twin, lsl = self.b, self.twin, self.lsl
        m = b.model
        kind = op[0]
        problems = []
        if kind == "set":
            _, i, a = op
            for bb in (b, twin):
                bb.objs[i].value = bb.val(a)
        elif kind == "auto_off":
            m.auto_update = False
            twin.model.auto_update = False
        elif kind == "update":
            m.update()
            twin.model.update()
        elif kind == "seed":
            key = self.jax.random.PRNGKey(op[1])
            m.set_seed(key)
            twin.model.set_seed(key)
            self.seed_set = True
        elif kind == "mutate":
            before = structure(m)
            st_before = model_state(m)
            passed = attempt_mutations(lsl, m)
            after = structure(m)
            for target, mut in passed[:3]:
                problems.append((f"mutator-accepted-{mut}", f"{mut} on in-model {target!r} did not raise"))
            if after != before:
                diff = [k for k in before[0] if before[0][k] != after[0].get(k)] + [k for k in before[1] if before[1][k] != after[1].get(k)]
                problems.append(("mutation-changed-structure", f"structure changed by rejected mutation attempts: {diff[:4]}"))
            if model_state(m) != st_before:
                problems.append(("mutation-changed-state", "state changed by mutation attempts"))
        elif kind in ("pop_rebuild", "copy_rebuild", "deepcopy", "saveload"):
            st_before = model_state(m)
            ids_before = {id(n) for n in m.nodes.values()} | {id(v) for v in m.vars.values()}
            auto = m.auto_update
            try:
                if kind == "pop_rebuild":
                    nodes, vars_ = m.pop_nodes_and_vars()
                    if len(m.nodes) or len(m.vars):
                        problems.append(("pop-not-empty", "model not empty after pop_nodes_and_vars"))
                    for n in nodes.values():
                        if n.model is not None:
                            problems.append(("pop-still-in-model", f"popped node {n.name} still belongs to a model"))
                            break
                    new = self._rebuild(nodes, vars_)
                elif kind == "copy_rebuild":
                    nodes, vars_ = m.copy_nodes_and_vars()
                    new = self._rebuild(nodes, vars_)
                elif kind == "deepcopy":
                    new = copy.deepcopy(m)
                else:
                    buf = io.BytesIO()
                    lsl.save_model(m, buf)
                    buf.seek(0)
                    new = lsl.load_model(buf)
            except Exception as e:
                problems.append((f"{kind}-raises", f"{kind} failed: {type(e).__name__}: {e}"))
                self.dead = True
                return problems
            if kind != "pop_rebuild":
                ids_new = {id(n) for n in new.nodes.values()} | {id(v) for v in new.vars.values()}
                if ids_new & ids_before:
                    problems.append((f"{kind}-shares-objects", "copy shares node/var objects with the original"))
                if model_state(m) != st_before:
                    problems.append((f"{kind}-changed-original", "original changed by copying"))
                self.originals.append((m, st_before, f"{kind}@{len(hist)}"))
            if kind in ("pop_rebuild", "copy_rebuild"):
                # a rebuilt model starts with auto_update on and default seeds
                twin.model.auto_update = True
                new_auto = new.auto_update
                if not auto:
                    # stale nodes are recomputed by the build: bring the twin up to date
                    twin.model.update()
                if self.seed_set:
                    self.rebuilt_after_seed = True
            missing = sorted(set(st_before) - set(new.nodes))
            extra = sorted(set(new.nodes) - set(st_before))
            if missing or extra:
                problems.append((f"{kind}-changes-node-set", f"{kind} lost nodes {missing[:4]} / gained nodes {extra[:4]}"))
                self.dead = True
                return problems
            b.rebind(new)
            if not check_structure(res, b, new, f"after {hist}", self.program):
                pass
        else:
            raise ValueError(op)

        # differential oracle
        got, want = model_state(b.model), model_state(twin.model)
        if got != want:
            diff = sorted(k for k in set(got) | set(want) if got.get(k) != want.get(k))
            only_seed = all(k.startswith("_model_") and k.endswith("_seed") for k in diff) or self.rebuilt_after_seed
            if only_seed and self.rebuilt_after_seed:
                problems.append(("seed-reset-after-rebuild", f"seed nodes differ after set_seed + pop/copy + rebuild: {diff[:3]}"))
                # re-align the twin so that later ops are still compared
                for k in diff:
                    pass
                self._realign_twin()
            else:
                k = diff[0]
                problems.append((f"state-differs-after-{kind}", f"state differs from the never-round-tripped twin at {diff[:4]}: {got.get(k)} != {want.get(k)}"))
        for o, st, label in self.originals:
            if model_state(o) != st:
                problems.append(("original-affected", f"original model copied at {label} changed by later operations on the copy"))
                self.originals = [x for x in self.originals if x[0] is not o]
        return problems

    def _realign_twin(self):
        """After the documented seed reset, rebuild the twin in the same way."""
        t = self.twin
        nodes, vars_ = t.model.pop_nodes_and_vars()
        new = self._rebuild(nodes, vars_)
        t.rebind(new)
        self.seed_set = False
        self.rebuilt_after_seed = False


def run_sequences(res, program, depth):
    try:
        base = RT(program)
    except Exception as e:
        res.violation("structure", "valid-graph-rejected", {"program": program}, f"building a valid graph failed: {type(e).__name__}: {e} ({program['items']})")
        res.executions += 1
        return 0
    alphabet = base.ops()
    check_structure(res, base.b, base.b.model, "fresh build", program)
    res.outcome("build", structure_sig(base.b.model))
    seen_sigs = set()
    n = 0
    for d in range(1, depth + 1):
        for seq in itertools.product(alphabet, repeat=d):
            # prune: sequences must end in a round trip or mutate (prefixes were covered),
            # and contain at least one round trip
            if seq[-1][0] in ("set", "auto_off", "update", "seed") and d < depth:
                continue
            if not any(o[0] in ("pop_rebuild", "copy_rebuild", "deepcopy", "saveload", "mutate") for o in seq):
                continue
            rt = RT(program)
            hist = []
            for op in seq:
                hist.append(op)
                try:
                    problems = rt.apply(op, res, hist)
                except Exception as e:
                    if not core.raised_in_repo(e):
                        raise
                    problems = [(f"{op[0]}-raises", f"valid operation {op} failed inside liesel: {type(e).__name__}: {e}")]
                    rt.dead = True
                res.transitions += 1
                for tag, msg in problems:
                    key = (tag,)
                    if key not in seen_sigs:
                        seen_sigs.add(key)
                        res.violation("roundtrip", tag, {"program": program, "history": hist}, f"{msg} after {hist} on {program['items']}")
                if rt.dead:
                    break
                res.outcome(op[0], structure_sig(rt.b.model) if op[0] in ("pop_rebuild", "copy_rebuild", "deepcopy", "saveload") else "")
            n += 1
    res.executions += n
    res.states += 1
    return n


def build_variants(res, program):
    """Same program added to the builder in different ways must give the same model."""
    import liesel.model as lsl

    try:
        ref = programs.Built(program)
    except Exception:
        return  # reported by run_sequences
    ref_names = sorted(ref.model.nodes)
    ref_state = model_state(ref.model)
    check_topological(res, ref, ref.model, program, "fresh build")
    # the same for a TARGETED update of every node: ancestors must be evaluated before their dependents
    for tname in [n for n in ref.model.nodes if not n.startswith("_model") or n == "_model_log_prob"]:
        check_topological(res, ref, ref.model, program, f"targeted update({tname!r})", target=tname)
    named = all(it.get("named", True) for it in program["items"])
    for variant in ("sinks", "reversed", "copy", "twice", "grow", "copy_twice", "grow_copy_twice"):
        b = programs.Built(program, build=False)
        used = set()
        for it in b.items:
            used.update(it.get("inputs", []))
        gb = lsl.GraphBuilder(to_float32=program.get("to_float32", True))
        objs = list(b.objs)
        if variant == "sinks":
            # only objects nothing else uses; dists are reached through their variable,
            # everything else through the recursive inputs
            objs = [o for i, o in enumerate(b.objs) if i not in used and b.items[i]["kind"] not in ("dist", "tdist")]
        elif variant == "reversed":
            objs = objs[::-1]
        elif variant == "twice":
            objs = objs + objs
        if variant == "grow":
            # lsl.Model(nodes_and_vars) with the default grow=True
            try:
                m = lsl.Model(objs, to_float32=program.get("to_float32", True))
            except Exception as e:
                res.violation("structure", "variant-grow-raises", {"program": program}, f"lsl.Model(objects) failed: {type(e).__name__}: {e} ({program['items']})")
                continue
            b.model = m
            res.transitions += 1
            res.outcome("variant", variant, len(m.nodes))
            check_structure(res, b, m, "Model(objects, grow=True)", program)
            if named and sorted(m.nodes) == ref_names and model_state(m) != ref_state:
                res.violation("structure", "variant-grow-state", {"program": program}, f"lsl.Model(objects) gives a different state than GraphBuilder ({program['items']})")
            continue
        if variant == "grow_copy_twice":
            # lsl.Model(objects, copy=True) must leave the user's objects usable: do it twice
            try:
                m1 = lsl.Model(objs, copy=True, to_float32=program.get("to_float32", True))
                m2 = lsl.Model(objs, copy=True, to_float32=program.get("to_float32", True))
            except Exception as e:
                res.violation("structure", "model-copy-not-repeatable", {"program": program}, f"second lsl.Model(objects, copy=True) from the same objects failed: {type(e).__name__}: {e} ({program['items']})")
                continue
            res.transitions += 2
            res.outcome("variant", variant, len(m2.nodes))
            if model_state(m1) != model_state(m2):
                res.violation("structure", "model-copy-not-repeatable", {"program": program}, f"two lsl.Model(objects, copy=True) from the same objects differ ({program['items']})")
            for o in objs:
                mm = o.model if not isinstance(o, lsl.Var) else o.value_node.model
                if mm is not None:
                    res.violation("structure", "copy-build-captures-original", {"program": program}, f"lsl.Model(objects, copy=True) put the original object {o} into a model")
                    break
            continue
        if variant == "copy_twice":
            # build_model(copy=True) must leave the user's objects as they were: a second
            # copy-build from the same builder content must work and agree
            def shape(objs):
                out = []
                for o in objs:
                    ns = o.nodes if isinstance(o, lsl.Var) else [o]
                    out.append(tuple((n.name, tuple(i.name for i in n.inputs), tuple(sorted((k, i.name) for k, i in n.kwinputs.items()))) for n in ns))
                return out
            gb.add(*objs)
            before = shape(objs)
            try:
                m1 = gb.build_model(copy=True)
                mid = shape(objs)
                if any(n.name.startswith("_model") for n in gb.nodes):
                    res.violation("structure", "copy-build-pollutes-builder", {"program": program}, f"after build_model(copy=True) the user's GraphBuilder holds model nodes {[n.name for n in gb.nodes if n.name.startswith('_model')]} ({program['items']})")
                m2 = gb.build_model(copy=True)  # same builder again
                gb2 = lsl.GraphBuilder(to_float32=program.get("to_float32", True)).add(*objs)
                m3 = gb2.build_model(copy=True)
                if model_state(m3) != model_state(m1):
                    res.violation("structure", "copy-build-not-repeatable", {"program": program}, f"copy-builds from the same objects differ ({program['items']})")
            except Exception as e:
                res.violation("structure", "copy-build-not-repeatable", {"program": program}, f"second build_model(copy=True) from the same objects failed: {type(e).__name__}: {e} ({program['items']})")
                continue
            res.transitions += 2
            res.outcome("variant", variant, len(m2.nodes))
            if named and mid != before:
                res.violation("structure", "copy-build-mutates-originals", {"program": program}, f"build_model(copy=True) changed the inputs of the user's objects ({program['items']})")
            if model_state(m1) != model_state(m2):
                res.violation("structure", "copy-build-not-repeatable", {"program": program}, f"two copy-builds from the same objects differ ({program['items']})")
            continue
        gb.add(*objs)
        m = gb.build_model(copy=(variant == "copy"))
        if variant == "copy":
            for o in b.objs:
                mm = o.model if not isinstance(o, lsl.Var) else o.value_node.model
                if mm is not None:
                    res.violation("structure", "copy-build-captures-original", {"program": program}, f"build_model(copy=True) put the original object {o} into a model")
                    break
            b.rebind(m)
        else:
            b.model = m
        res.transitions += 1
        res.outcome("variant", variant, len(m.nodes))
        check_structure(res, b, m, f"build variant {variant}", program)
        if named and sorted(m.nodes) == ref_names and model_state(m) != ref_state:
            res.violation("structure", f"variant-{variant}-state", {"program": program}, f"build variant {variant} gives a different state than adding everything ({program['items']})")
        if variant == "copy":
            # independence of the copy from the originals
            for i, it in enumerate(b.items):
                if it["kind"] in ("value", "var"):
                    b.objs[i].value = b.val(1)
            # originals (held by a second handle) are not reachable here any more; state
            # equality with the reference twin after the same assignment decides
            t = programs.Built(program)
            for i, it in enumerate(t.items):
                if it["kind"] in ("value", "var"):
                    t.objs[i].value = t.val(1)
            if named and model_state(m) != model_state(t.model):
                res.violation("structure", "copy-build-behaviour", {"program": program}, f"copy=True model behaves differently after assignment ({program['items']})")


def run_bad_graphs(res):
    import liesel.model as lsl

    def expect_reject(name, build):
        res.transitions += 1
        res.executions += 1
        try:
            build()
        except Exception as e:
            res.outcome("rejected", name, type(e).__name__)
            return
        res.outcome("accepted", name)
        res.violation("bad_graphs", f"accepted-{name}", {"graph": name}, f"invalid graph {name!r} was accepted by build_model")

    def expect_accept(name, build, n_nodes=None):
        res.transitions += 1
        res.executions += 1
        try:
            m = build()
        except Exception as e:
            res.violation("bad_graphs", f"rejected-{name}", {"graph": name}, f"valid graph {name!r} was rejected: {type(e).__name__}: {e}")
            return
        res.outcome("accepted", name, len(m.nodes))
        if n_nodes is not None and len(m.nodes) != n_nodes:
            res.violation("bad_graphs", f"size-{name}", {"graph": name}, f"graph {name!r}: {len(m.nodes)} nodes, expected {n_nodes}")

    f = lambda *a, **k: ("f", a)  # noqa
    expect_reject("duplicate-node-names", lambda: lsl.GraphBuilder().add(lsl.Value(1, _name="x"), lsl.Value(2, _name="x")).build_model())
    expect_reject("duplicate-node-names-deep", lambda: lsl.GraphBuilder().add(lsl.Calc(f, lsl.Value(1, _name="x"), lsl.Value(2, _name="x"), _name="c")).build_model())
    expect_reject("duplicate-var-names", lambda: lsl.GraphBuilder().add(lsl.Var(1, name="v"), lsl.Var(2, name="v")).build_model())
    def dup_vars_distinct_nodes():
        v1 = lsl.Var(lsl.Value(1, _name="a"), name="v")
        v2 = lsl.Var(lsl.Value(2, _name="b"), name="w")
        v2.name = "v"  # explicitly named value nodes keep their names: only the VAR names collide
        v2.var_value_node.name = "b_proxy"
        v1.var_value_node.name = "a_proxy"
        return lsl.GraphBuilder().add(v1, v2).build_model()

    expect_reject("duplicate-var-names-distinct-node-names", dup_vars_distinct_nodes)
    expect_reject("var-node-name-clash", lambda: lsl.GraphBuilder().add(lsl.Var(1, name="v"), lsl.Value(2, _name="v_value")).build_model())
    expect_reject("reserved-name", lambda: lsl.GraphBuilder().add(lsl.Value(1, _name="_model_foo")).build_model())
    expect_reject("reserved-name-input", lambda: lsl.GraphBuilder().add(lsl.Calc(f, lsl.Value(1, _name="_model_log_prob"), _name="c")).build_model())

    def cyc2():
        a = lsl.Calc(f, lsl.Value(1), _name="a", update_on_init=False)
        b = lsl.Calc(f, a, _name="b", update_on_init=False)
        a.set_inputs(b)
        return lsl.GraphBuilder().add(b).build_model()

    def cyc1():
        a = lsl.Calc(f, lsl.Value(1), _name="a", update_on_init=False)
        a.set_inputs(a)
        return lsl.GraphBuilder().add(a).build_model()

    def cyc3():
        a = lsl.Calc(f, lsl.Value(1), _name="a", update_on_init=False)
        b = lsl.Calc(f, a, _name="b", update_on_init=False)
        c = lsl.Calc(f, b, _name="c", update_on_init=False)
        a.set_inputs(c)
        return lsl.GraphBuilder().add(b).build_model()

    expect_reject("cycle-2", cyc2)
    expect_reject("cycle-self", cyc1)
    expect_reject("cycle-3", cyc3)

    def simcycle():
        b = programs.Built({"items": [{"kind": "var"}, {"kind": "calc", "inputs": [0]}, {"kind": "dist", "var": 0, "inputs": [1]}]}, build=False)
        return lsl.GraphBuilder().add(*b.objs).build_model()

    def simcycle2():
        b = programs.Built({"items": [{"kind": "var"}, {"kind": "var"}, {"kind": "dist", "var": 0, "inputs": [1]}, {"kind": "dist", "var": 1, "inputs": [0]}]}, build=False)
        return lsl.GraphBuilder().add(*b.objs).build_model()

    expect_reject("dist-param-descends-from-own-var", simcycle)
    expect_reject("mutually-dependent-dists", simcycle2)

    def two_groups():
        a, b = lsl.Value(1, _name="a"), lsl.Value(2, _name="b")
        lsl.Group("g", a=a)
        lsl.Group("g", b=b)
        return lsl.GraphBuilder().add(a, b).build_model()

    expect_reject("duplicate-group-names", two_groups)

    keep = []

    def second_model():
        a = lsl.Value(1, _name="a")
        keep.append(lsl.GraphBuilder().add(a).build_model())  # the first model stays alive
        return lsl.GraphBuilder().add(lsl.Calc(f, a, _name="c")).build_model()

    expect_reject("node-already-in-a-model", second_model)

    def rejected_build_harmless():
        a = lsl.Value(("in", 0), _name="a")
        c0 = lsl.Calc(f, a, _name="c0")
        first = lsl.GraphBuilder().add(c0).build_model()
        keep.append(first)
        before = structure(first)
        try:
            lsl.GraphBuilder().add(lsl.Calc(f, a, _name="c")).build_model()
        except Exception:
            pass
        res.transitions += 1
        res.executions += 1
        a.value = ("in", 1)
        ok = structure(first) == before and c0.value == ("f", (("in", 1),)) and not c0.outdated
        res.outcome("rejected-build-harmless", ok)
        if not ok:
            res.violation("bad_graphs", "rejected-build-corrupts-existing-model", {"graph": "a -> c0 in model A; build of Calc(f, a) rejected; a.value = 1"}, f"after a rejected build that shared node 'a' with an existing model, the existing model no longer propagates updates (c0 = {c0.value}, outdated={c0.outdated}) or its structure changed")

    rejected_build_harmless()

    def same_twice():
        a = lsl.Var(1, name="a")
        c = lsl.Calc(f, a, a, _name="c")
        return lsl.GraphBuilder().add(a, c, a, c).build_model()

    expect_accept("same-objects-added-twice", same_twice, 3 + 2 + 1)

    def shared_group():
        a, b = lsl.Value(1, _name="a"), lsl.Value(2, _name="b")
        g = lsl.Group("g", a=a, b=b)
        m = lsl.GraphBuilder().add_groups(g).build_model()
        assert set(m.groups()) == {"g"}
        return m

    expect_accept("one-group-two-members", shared_group, 3 + 2)

    def unnamed_clash():
        # automatic names must avoid user names n0 / v0
        a = lsl.Value(1, _name="n0")
        b = lsl.Value(2)
        v = lsl.Var(3, name="v0")
        w = lsl.Var(4)
        m = lsl.GraphBuilder().add(a, b, v, w).build_model()
        assert len(set(m.nodes)) == len(m.nodes) and all(m.nodes) and all(m.vars)
        return m

    expect_accept("auto-names-avoid-user-names", unnamed_clash, 3 + 2 + 4)
    res.states += 18


def run_unit(unit):
    core.assert_repo()
    res = core.UnitResult(unit)
    if unit["kind"] == "bad_graphs":
        run_bad_graphs(res)
        res.note(sorted(res.outcomes))
        res.sample({"bad_graphs": sorted(res.outcomes)[:6]})
        return res
    for p, depth in unit["jobs"]:
        build_variants(res, p)
        n = run_sequences(res, p, depth)
        res.note([p, n])
        res.sample({"program": p["items"], "sequences": n, "example": [["set", 0, 1], ["pop_rebuild"], ["saveload"]]}, limit=1)
    return res
