"""
C09 - kernels compose blockwise and keep the model state coherent.

(1) kernel level: KernelSequence.transition is run eagerly on a Liesel regression model
    (derived nodes sigma, eta, per-variable log-probs, model log-probs) and on a dict
    model, with 2-3 real kernels over disjoint blocks in every order. Each kernel is
    wrapped in a transparent logging proxy; all accept/reject/categorical answers of the
    environment are enumerated (core.answers). Oracle at every kernel boundary.
(2) engine level: real Engine runs with real keys tracking parameters, derived nodes and
    the model log-probs; the recomputation oracle runs on every stored iteration.
"""

from __future__ import annotations

import itertools

import numpy as np

from mc import core, kernellab as kl, seams

PROPERTY = "C09"
RULE = (
    "kernel level: kernel sets over disjoint blocks of a Liesel model {RW, IWLS, HMC, NUTS, MH, finite-discrete "
    "Gibbs} and of a dict model {RW, IWLS, HMC, MH}, every order of every set, 1 iteration with ALL "
    "combinations of environment answers (uniform/bernoulli accept-or-reject, categorical outcome) and 2 "
    "iterations with <= 1 (quick) / 2 (thorough) non-default answers; engine level: kernel sets x chunk sizes, "
    "4 chains, every stored iteration; joint Gibbs blocks: every order of 2 and 3 keys x {dict, Liesel} x {eager, jit}, every drawn key must be in the returned state. Distinct outcome = (kernel order, accept/reject pattern)."
)
ASSUMPTIONS = [
    "float64 closed-form reference of the regression model; tolerance 2e-4 absolute on log-densities and derived values (float32)",
    "Gaussian draws are fixed by a deterministic rule (alternating +0.8/-0.6); only accept/reject/categorical/direction answers are enumerated",
    "NUTS reports position_moved=99 always, so its rejection identity is not checked",
]

LIESEL_SETS = [
    [{"type": "RW", "keys": ["mu"]}, {"type": "IWLS", "keys": ["beta"]}, {"type": "HMC", "keys": ["log_sigma"]}],
    [{"type": "GIBBS", "keys": ["z"]}, {"type": "RW", "keys": ["log_sigma"]}, {"type": "IWLS", "keys": ["mu", "beta"]}],
    [{"type": "MH", "keys": ["mu"]}, {"type": "NUTS", "keys": ["beta", "log_sigma"]}],
    [{"type": "HMC", "keys": ["beta", "mu"]}, {"type": "GIBBS", "keys": ["z"]}],
    [{"type": "IWLS", "keys": ["log_sigma"]}, {"type": "MH", "keys": ["beta"]}, {"type": "GIBBS", "keys": ["z"]}],
    [{"type": "RW", "keys": ["offset"]}, {"type": "HMC", "keys": ["log_sigma", "mu"]}],
    [{"type": "PPGIBBS", "keys": ["y_rep"]}, {"type": "RW", "keys": ["log_sigma"]}, {"type": "RW", "keys": ["w_transformed"]}],
    [{"type": "IWLS", "keys": ["w_transformed", "mu"]}, {"type": "PPGIBBS", "keys": ["y_rep"]}],
]
DICT_SETS = [
    [{"type": "RW", "keys": ["a"]}, {"type": "IWLS", "keys": ["b"]}, {"type": "HMC", "keys": ["c"]}],
    [{"type": "MH", "keys": ["c"]}, {"type": "RW", "keys": ["b", "a"]}],
]
ENGINE_SETS = [
    {"kernels": [{"type": "RW", "keys": ["mu"]}, {"type": "IWLS", "keys": ["beta"]}, {"type": "GIBBS", "keys": ["z"]}, {"type": "HMC", "keys": ["log_sigma"]}, {"type": "RW", "keys": ["offset"]}], "chunk": 5},
    {"kernels": [{"type": "GIBBS", "keys": ["z"]}, {"type": "NUTS", "keys": ["beta", "mu"]}, {"type": "MH", "keys": ["log_sigma"]}, {"type": "PPGIBBS", "keys": ["y_rep"]}, {"type": "RW", "keys": ["w_transformed"]}], "chunk": 10},
    {"kernels": [{"type": "IWLS", "keys": ["log_sigma", "mu"]}, {"type": "RW", "keys": ["beta"]}, {"type": "RW", "keys": ["offset"]}], "chunk": 1},
]
TOL = 2e-4
IDENTS = ["zeta_kernel", "mid_kernel", "alpha_kernel", "beta_kernel"]  # user-chosen, not alphabetical


def bounds(tier):
    return {"kernels_per_sequence": 3, "iterations": 2, "deviation_bound_2_iterations": 1 if tier == "quick" else 2, "engine_chains": 4, "engine_iterations": 30}


def units(tier, seed):
    us = []
    for si, ks in enumerate(LIESEL_SETS):
        perms = list(itertools.permutations(range(len(ks))))
        if tier == "quick" and len(perms) > 2:
            perms = [perms[0], perms[3], perms[5]] if si % 2 == 0 else [perms[1], perms[4]]
        for pi, perm in enumerate(perms):
            us.append({"part": "kernel", "model": "liesel", "kernels": [ks[i] for i in perm], "dev2": 1 if tier == "quick" else 2})
            if pi == 0 and (si < 2 or tier != "quick"):
                # the user's model had auto-update switched off when the interface was made
                us.append({"part": "kernel", "model": "liesel", "auto_update": False, "kernels": [ks[i] for i in perm], "dev2": 0 if tier == "quick" else 1})
    for ks in DICT_SETS:
        for perm in itertools.permutations(range(len(ks))):
            us.append({"part": "kernel", "model": "dict", "kernels": [ks[i] for i in perm], "dev2": 1 if tier == "quick" else 2})
    us.append({"part": "distreg", "seed": seed})
    us.append({"part": "gibbsjoint"})
    for es in ENGINE_SETS[: 2 if tier == "quick" else 3]:
        us.append({"part": "engine", "cfg": es, "seed": seed})
    return us


# ---------------------------------------------------------------------------------


def run_kernel_unit(res, unit):
    import jax
    import jax.numpy as jnp
    import liesel.goose as gs
    from liesel.goose.epoch import EpochConfig, EpochType
    from liesel.goose.kernel_sequence import KernelSequence

    is_liesel = unit["model"] == "liesel"
    if is_liesel:
        model = kl.build_liesel_model()
        if unit.get("auto_update") is False:
            model.auto_update = False
        interface = gs.LieselInterface(model)
        state0 = model.state
    else:
        model = None
        interface = gs.DictInterface(kl.dict_log_prob_jax)
        state0 = kl.dict_state()
    epoch = EpochConfig(EpochType.POSTERIOR, 10, 1, None).to_state(2, 7)

    if is_liesel and unit.get("auto_update") is not False:
        # creating kernels must not modify the user's model; afterwards a direct assignment
        # (relying on the default auto-update) must give a coherent model.state
        before_auto, before_state = model.auto_update, kl.state_leaves(model.state)
        for spec in unit["kernels"]:
            kl.make_kernel(spec, model)
        after = kl.state_leaves(model.state)
        if model.auto_update != before_auto or any(not kl.leaves_equal(after[k], before_state[k]) for k in after):
            res.violation("kernel", "kernel-construction-modifies-user-model", {"kernels": unit["kernels"]}, f"creating the kernels changed the user's model (auto_update {before_auto} -> {model.auto_update})")
        model.vars["mu"].value = jnp.float32(0.35)
        st = model.state
        ref = kl.ref_liesel(kl.params_of_state(st))
        lv = kl.state_leaves(st)
        bad = [n for n, want in ref.items() if lv[n] is None or not np.allclose(np.asarray(lv[n], dtype=np.float64), want, rtol=1e-4, atol=TOL)]
        if bad or any(bool(ns.outdated) for ns in st.values()):
            res.violation("kernel", "initial-state-incoherent-after-kernel-construction", {"kernels": unit["kernels"]}, f"after creating the kernels and assigning mu on the user's model, model.state is incoherent at {bad[:4]} (outdated: {[k for k, ns in st.items() if ns.outdated][:4]})")
        state0 = st

    def execute(script: core.Script, n_iter: int):
        log = []
        kernels = []
        for i, spec in enumerate(unit["kernels"]):
            k = kl.make_kernel(spec, model)
            k.identifier = IDENTS[i]
            k.set_model(interface)
            kernels.append(kl.Proxy(k, log))
        seq = KernelSequence(kernels)
        counter = {"normal": 0}

        def answer(fn, i, shape, info):
            if fn == "normal":
                counter["normal"] += 1
                return 0.8 if counter["normal"] % 2 else -0.6
            if fn == "uniform":
                return [1e-7, 0.9999999][script.choose(2, "uniform")]
            if fn == "bernoulli":
                return [1e-7, 0.9999999][script.choose(2, "bernoulli")]
            if fn == "categorical":
                n = len(info["logits"])
                return script.choose(n, f"categorical{n}")
            raise RuntimeError(f"unexpected draw {fn}")

        with jax.disable_jit(), seams.ScriptedPRNG(answer):
            ks = seq.init_states(jax.random.PRNGKey(0), state0)
            st = state0
            finals = []
            for it in range(n_iter):
                out = seq.transition(jax.random.PRNGKey(it + 1), ks, st, epoch)
                ks, st = out.kernel_states, out.model_state
                finals.append(st)
        return log, finals

    def leaves(st):
        if is_liesel:
            return kl.state_leaves(st)
        return {k: np.asarray(v) for k, v in st.items()}

    def oracle(choices, log, finals, n_iter):
        nk = len(unit["kernels"])
        case = {"model": unit["model"], "kernels": unit["kernels"], "iterations": n_iter, "answers": choices}
        order = "+".join(s["type"] for s in unit["kernels"])
        if len(log) != nk * n_iter:
            raise RuntimeError(f"expected {nk * n_iter} transitions, proxies saw {len(log)}")
        prev = leaves(state0)
        pattern = []
        for j, e in enumerate(log):
            kid = j % nk
            spec = unit["kernels"][kid]
            if e["kernel"] != IDENTS[kid]:
                res.violation("kernel", f"order-{order}", case, f"transition #{j} was run by {e['kernel']!r}, the configured order expects {IDENTS[kid]!r} ({case})")
                return
            lin, lout = leaves(e["in"]), leaves(e["out"])
            # (1) starts from the state left by its predecessor
            bad = [k for k in lin if not kl.leaves_equal(lin[k], prev.get(k))]
            if bad:
                res.violation("kernel", f"not-threaded-{spec['type']}", case, f"{spec['type']}{spec['keys']} (transition #{j}) did not start from its predecessor's state; differing: {bad[:3]} ({case})")
            # (2) only its own block and derived quantities change
            changed = {k for k in lout if not kl.leaves_equal(lout[k], lin.get(k))}
            if is_liesel:
                allowed = set(kl.MODEL_NODES)
                for p in spec["keys"]:
                    allowed |= kl.DESCENDANTS[p]
            else:
                allowed = set(spec["keys"])
            if changed - allowed:
                res.violation("kernel", f"foreign-change-{spec['type']}", case, f"{spec['type']}{spec['keys']} changed {sorted(changed - allowed)[:4]} outside its block ({case})")
            moved = e["info"].position_moved
            moved = None if spec["type"] == "NUTS" else bool(np.asarray(moved))
            # (4) rejection returns the input state exactly
            if moved is False and changed:
                res.violation("kernel", f"reject-changes-state-{spec['type']}", case, f"{spec['type']}{spec['keys']} reported a rejection but changed {sorted(changed)[:4]} ({case})")
            if moved is True and spec["type"] not in ("GIBBS", "PPGIBBS") and not (changed & ({kl.param_node(p) for p in spec["keys"]} if is_liesel else set(spec["keys"]))):
                res.violation("kernel", f"accept-without-move-{spec['type']}", case, f"{spec['type']}{spec['keys']} reported acceptance but its parameters did not change ({case})")
            # (3) coherence of all derived quantities
            if is_liesel:
                outd = [k for k, ns in e["out"].items() if bool(ns.outdated)]
                if outd:
                    res.violation("kernel", f"outdated-in-state-{spec['type']}", case, f"state after {spec['type']} has outdated nodes {outd[:3]} ({case})")
                ref = kl.ref_liesel(kl.params_of_state(e["out"]))
                for name, want in ref.items():
                    got = lout[name]
                    if got is None or not np.allclose(np.asarray(got, dtype=np.float64), want, rtol=1e-4, atol=TOL):
                        res.violation("kernel", f"incoherent-{spec['type']}-{name}", case, f"after {spec['type']}{spec['keys']} (moved={moved}) node {name} = {got} but recomputed from the stored parameters = {want} ({case})")
                        break
            else:
                got = float(interface.log_prob(e["out"]))
                want = kl.dict_log_prob_np({k: np.asarray(v) for k, v in e["out"].items()})
                if not np.isclose(got, want, rtol=1e-4, atol=TOL):
                    res.violation("kernel", "dict-log-prob", case, f"dict model log_prob {got} != reference {want}")
            pattern.append("?" if moved is None else "A" if moved else "R")
            prev = lout
            res.transitions += 1
            if kid == nk - 1:
                fin = leaves(finals[j // nk])
                if any(not kl.leaves_equal(fin[k], lout[k]) for k in fin):
                    res.violation("kernel", "sequence-output", case, f"KernelSequence returned a state that is not the last kernel's output ({case})")
        res.outcome(unit["model"], unit.get("auto_update", True), order, n_iter, "".join(pattern))

    n1 = n2 = 0
    for choices, (log, finals) in core.answers(lambda sc: execute(sc, 1), bound=None):
        oracle(choices, log, finals, 1)
        n1 += 1
    for choices, (log, finals) in core.answers(lambda sc: execute(sc, 2), bound=unit["dev2"]):
        oracle(choices, log, finals, 2)
        n2 += 1
    res.executions += n1 + n2
    res.states += n1 + n2
    res.sample({"kernels": unit["kernels"], "model": unit["model"], "executions_1_iteration": n1, "executions_2_iterations": n2})
    res.note([unit["kernels"], n1, n2, sorted(res.outcomes)])


def run_engine_unit(res, unit):
    import jax
    import liesel.goose as gs
    from liesel.goose.engine import Engine
    from liesel.goose.epoch import EpochConfig, EpochType
    from liesel.goose.kernel_sequence import KernelSequence

    cfg = unit["cfg"]
    model = kl.build_liesel_model()
    interface = gs.LieselInterface(model)
    b = gs.EngineBuilder(seed=unit["seed"] + 11, num_chains=4)
    b.show_progress = False
    b.set_model(interface)
    b.set_initial_values(model.state)
    for i, spec in enumerate(cfg["kernels"]):
        k = kl.make_kernel(spec, model)
        k.identifier = ["zeta_kernel", "mid_kernel", "alpha_kernel", "beta_kernel", "aa_kernel"][i]
        b.add_kernel(k)
    b.set_epochs([
        EpochConfig(EpochType.INITIAL_VALUES, 1, 1, None),
        EpochConfig(EpochType.FAST_ADAPTATION, 10, 1, None),
        EpochConfig(EpochType.BURNIN, 10, 1, None),
        EpochConfig(EpochType.POSTERIOR, 10, 1, None),
    ])
    derived = ["sigma", "eta", "eta_twice", "pred", "rep_stat", "w", "w_transformed_log_prob", "mu_log_prob", "beta_log_prob", "log_sigma_log_prob", "sigma_log_prob", "z_log_prob", "offset_log_prob", "y_log_prob", "_model_log_prob", "_model_log_prior", "_model_log_lik"]
    b.positions_included = kl.PARAMS + derived
    with seams.quiet():
        eng = b.build()
        if cfg["chunk"] != eng._jitted_sample_duration:
            eng = Engine(
                seeds=eng._seeds, model_states=eng._model_states, kernel_sequence=KernelSequence(b.kernels), epoch_configs=list(b.epochs),
                jitted_sample_duration=cfg["chunk"], model=interface, position_keys=list(eng._position_keys), show_progress=False,
            )
        eng.sample_all_epochs()
    s = eng.get_results().get_samples()
    s = {k: np.asarray(v) for k, v in s.items()}
    nch, nt = s["mu"].shape[:2]
    moved = 0
    for c in range(nch):
        for t in range(nt):
            params = {p: s[p][c, t] for p in kl.PARAMS}
            ref = kl.ref_liesel(params)
            for name, want in ref.items():
                key = name[: -len("_value")] if name.endswith("_value") else name
                got = s[key][c, t]
                res.transitions += 1
                if not np.allclose(np.asarray(got, dtype=np.float64), want, rtol=2e-4, atol=5e-4):
                    res.violation("engine", f"incoherent-stored-{key}", {"cfg": cfg, "chain": c, "time": t}, f"stored {key}[chain {c}, time {t}] = {got} but recomputed from the stored parameters = {want} (kernels {[k['type'] for k in cfg['kernels']]}, chunk {cfg['chunk']})")
                    break
            if t > 0 and any(not np.array_equal(s[p][c, t], s[p][c, t - 1]) for p in kl.PARAMS):
                moved += 1
    res.outcome("engine", "+".join(k["type"] for k in cfg["kernels"]), "moved>0" if moved else "never-moved")
    if not moved:
        raise RuntimeError("engine run never moved: vacuous")
    res.executions += 1
    res.states += nch * nt
    res.sample({"engine": cfg, "stored_iterations": int(nch * nt)})
    res.note([cfg, int(nch * nt)])
    jax.clear_caches()


def run_distreg_unit(res, unit):
    """The built-in Gibbs kernel for a smoothing variance (liesel.model.distreg.tau2_gibbs_kernel):
    its draw must be a function of the model state it is handed - not of what the user's model
    object holds. Lattice: every combination of {state, model object} x {a, b, beta, K} variants."""
    import jax
    import jax.numpy as jnp
    import tensorflow_probability.substrates.jax.distributions as tfd
    import tensorflow_probability.substrates.jax.bijectors as tfb
    import liesel.goose as gs
    from liesel.goose.epoch import EpochConfig, EpochType
    from liesel.model.distreg import DistRegBuilder, tau2_gibbs_kernel

    rng = np.random.RandomState(3)
    n, p = 12, 3
    X = rng.normal(size=(n, p)).astype(np.float32)
    D = np.diff(np.eye(p), axis=0)
    K0 = (D.T @ D).astype(np.float32)
    y = rng.normal(size=n).astype(np.float32)
    bld = DistRegBuilder()
    bld.add_response(y, tfd.Normal)
    bld.add_predictor("loc", tfb.Identity)
    bld.add_predictor("scale", tfb.Exp)
    bld.add_np_smooth(X, K0, 2.0, 0.5, "loc", name="s")
    model = bld.build_model()
    group = model.groups()["s"]
    kernel = tau2_gibbs_kernel(group)
    interface = gs.LieselInterface(model)
    kernel.set_model(interface)
    names = {k: group[k].name for k in ("a", "b", "beta", "K", "tau2")}
    base = {"a": 2.0, "b": 0.5, "beta": np.array([0.3, -0.2, 0.6], np.float32), "K": K0}
    alt = {"a": 3.5, "b": 1.75, "beta": np.array([1.0, 0.5, -1.5], np.float32), "K": (2.0 * K0 + np.eye(p)).astype(np.float32)}
    state0 = model.state
    epoch = EpochConfig(EpochType.POSTERIOR, 10, 1, None).to_state(0, 0)
    key = jax.random.PRNGKey(unit.get("seed", 0) + 5)
    rank = float(np.linalg.matrix_rank(K0))
    outcomes = set()
    for in_state in itertools.product([0, 1], repeat=4):
        for in_model in itertools.product([0, 1], repeat=4):
            sv = {k: (alt if f else base)[k] for k, f in zip(("a", "b", "beta", "K"), in_state)}
            mv = {k: (alt if f else base)[k] for k, f in zip(("a", "b", "beta", "K"), in_model)}
            case = {"state_variant": in_state, "model_object_variant": in_model}
            try:
                model.state = state0
                ms = interface.update_state({names[k]: jnp.asarray(v) for k, v in sv.items()}, state0)
                # what the user's model object happens to hold when the transition runs
                for k, v in mv.items():
                    group[k].value = v
                ks = kernel.init_state(key, ms)
                out = kernel.transition(key, ks, ms, epoch)
                got = float(interface.extract_position([names["tau2"]], out.model_state)[names["tau2"]])
            except Exception as exc:
                if core.raised_in_repo(exc):
                    res.violation("distreg", "tau2-gibbs-raises", case, f"{type(exc).__name__}: {exc}")
                    return
                raise
            res.executions += 1
            res.transitions += 1
            a_g = sv["a"] + 0.5 * rank
            b_g = float(sv["b"] + 0.5 * (sv["beta"].astype(np.float64) @ sv["K"].astype(np.float64) @ sv["beta"].astype(np.float64)))
            ref = b_g / float(jax.random.gamma(key, jnp.float32(a_g)))
            outcomes.add(round(got, 5))
            res.outcome("distreg", in_state)
            if not np.isclose(got, ref, rtol=2e-4):
                res.violation("distreg", "tau2-gibbs-not-a-function-of-the-model-state", case,
                              f"tau2 draw {got:.6g}; the full conditional given the model state handed over gives {ref:.6g} "
                              f"(state a={sv['a']}, b={sv['b']}; model object a={mv['a']}, b={mv['b']})")
                return
            # the stored log-prob of the state after the draw is coherent
            lp = float(out.model_state["_model_log_prob"].value)
            model.state = out.model_state
            model.update()
            if not np.isclose(lp, float(model.log_prob), rtol=2e-4, atol=TOL):
                res.violation("distreg", "tau2-gibbs-incoherent-state", case, f"stored model log-prob {lp} but recomputation gives {float(model.log_prob)}")
                return
    res.states += len(outcomes)
    res.note(["distreg-tau2-gibbs", len(outcomes)])
    res.sample({"distreg": "tau2_gibbs_kernel", "distinct_draws": len(outcomes)})
    if len(outcomes) < 16:
        raise RuntimeError(f"vacuous distreg lattice: {len(outcomes)} distinct draws")
    jax.clear_caches()


def run_gibbsjoint_unit(res, unit):
    """A GibbsKernel over a JOINT block: every key of the drawn position must be in the returned state
    (all orders of 2 and 3 keys, dict and Liesel model, eager and jit), all other parameters untouched."""
    import jax
    import jax.numpy as jnp
    import liesel.goose as gs
    from liesel.goose.epoch import EpochConfig, EpochType

    epoch = EpochConfig(EpochType.POSTERIOR, 10, 1, None).to_state(2, 7)
    for mname in ("dict", "liesel"):
        if mname == "dict":
            interface, state0 = gs.DictInterface(kl.dict_log_prob_jax), kl.dict_state()
            pool, draw = ["a", "b", "c"], {"a": jnp.float32(-0.75), "b": jnp.array([0.5, 0.25], dtype=jnp.float32), "c": jnp.float32(1.5)}
            allp = pool
        else:
            model = kl.build_liesel_model()
            interface, state0 = gs.LieselInterface(model), model.state
            pool, draw = ["mu", "beta", "log_sigma"], {"mu": jnp.float32(-0.75), "beta": jnp.array([0.5, 0.25], dtype=jnp.float32), "log_sigma": jnp.float32(0.125)}
            allp = kl.PARAMS
        before = interface.extract_position(allp, state0)
        for n in (2, 3):
            for keys in itertools.permutations(pool, n):
                for jit in (False, True):
                    k = gs.GibbsKernel(list(keys), lambda key, ms, keys=keys: {q: draw[q] for q in keys})
                    k.set_model(interface)
                    ks = k.init_state(jax.random.PRNGKey(0), state0)
                    f = jax.jit(k.transition) if jit else k.transition
                    out = f(jax.random.PRNGKey(1), ks, state0, epoch)
                    after = interface.extract_position(allp, out.model_state)
                    res.executions += 1
                    res.transitions += 1
                    res.outcome("gibbsjoint", mname, n, jit)
                    for q in allp:
                        want = draw[q] if q in keys else before[q]
                        if not np.array_equal(np.asarray(after[q]), np.asarray(want)):
                            res.violation("gibbsjoint", f"joint-gibbs-{mname}-{'own' if q in keys else 'foreign'}-key", {"model": mname, "keys": list(keys), "jit": jit}, f"GibbsKernel{list(keys)} on the {mname} model drew {q}={np.asarray(draw[q]).tolist() if q in keys else '(not its key)'} but the returned state holds {q}={np.asarray(after[q]).tolist()} (expected {np.asarray(want).tolist()})")
                            break
        res.states += 1


def run_unit(unit):
    core.assert_repo()
    res = core.UnitResult(unit)
    if unit["part"] == "distreg":
        run_distreg_unit(res, unit)
    elif unit["part"] == "gibbsjoint":
        run_gibbsjoint_unit(res, unit)
    elif unit["part"] == "kernel":
        run_kernel_unit(res, unit)
    else:
        run_engine_unit(res, unit)
    return res
