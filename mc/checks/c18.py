"""
C18 - custom distributions and bijectors: MultivariateNormalDegenerate, GaussianCopula,
AlgebraicSigmoid. Pure input-lattice enumeration on the real classes; oracles are the
closed forms of mc/ref/c18_ref.py in float64.

Sub-checks (the `check` field of a violation):
  asig            forward / inverse / round trips / both log-det-Jacobians against the
                  closed form and against jax.grad of the real forward / inverse
                  (float32 and, inside jax.experimental.enable_x64, float64)
  copula          log-density against the closed-form bivariate Gaussian copula density,
                  uniform marginals by composite Gauss-Legendre quadrature
  mvn-logprob     range-space Gaussian density for every constructor / batch layout
  mvn-rank        the distribution's rank and log_pdet properties
  mvn-null        invariance to null-space shifts
  mvn-ctor        agreement of all thirteen constructor variants
  (mvn-* also for d = 30 and 60 with I / RW1: pseudo-determinants outside the float32 range)
  mvn-sample      linear map of the sampler reconstructed from scripted unit normals:
                  S S^T = pinv(P), N^T S = 0; real-key samples lie in the range space
"""

from __future__ import annotations

import itertools

import numpy as np

from mc import core
from mc.ref import c18_ref as ref

PROPERTY = "C18"
RULE = (
    "full products: (dimension x penalty {I, SPD, RW1, RW2, zero-block x2, stacked batch of all}) x "
    "(variance {0.1,1,7} or batched) x (loc {0, vector} or batched) x batch layouts {(), (2,), (2,3), "
    "mixed broadcasting} x 13 constructor variants (precision / from_penalty / from_penalty_smooth, "
    "rank and log-pdet supplied or not; precision with explicit tol; plus d in {30, 60} with I / RW1, whose pseudo-determinants leave the float32 range, at a few lattice-valued points) x lattice {-1,0,2}^d plus null-space shifts; sampler: "
    "scripted normals z=e_i for every i, sample shapes (), (2,), (2,2); algebraic sigmoid: 41-point "
    "x and y lattices in float32 and float64; copula: 8 dependences (+None) x 7x7 unit-square "
    "lattice x validate_args x batch shapes, marginals on a 198-node composite Gauss-Legendre rule. "
    "Distinct outcome = (sub-check, constructor variant, rank class, batch layout, sign of result)."
)
ASSUMPTIONS = [
    "TFP's Distribution/Bijector base classes, MultivariateNormalTriL and NormalCDF are trusted; what is checked is liesel's use of them",
    "float32 implementation against float64 closed forms; tolerances are relative to the magnitude of the summed terms (stated in the module) and at least 100x below the effect of any mutant tried",
    "eager evaluation runs inside jax.disable_jit() (lax.fori_loop in _log_pdet would otherwise be recompiled for every case); every (dimension, penalty, constructor) is additionally run once under jax.jit",
    "lattice checks say nothing about points between lattice values; penalties have integer entries (exact in float32)",
    "marginal uniformity is checked on [1e-6, 1-1e-6] with tolerance 1e-3 (mass outside < 2e-5 on the lattice used)",
    "signature classification only: a rank / sampler failure is reported as 'null-eigenvalue-noise-above-tol' (open known finding) iff liesel's own dist.eig eigenvalue of a reference-null direction exceeds the documented absolute tol=1e-6; the affected batch element is then excluded from the downstream log-density / constructor-agreement / covariance comparisons, everything else stays a violation",
    "round trips pass fresh arrays to the bijector because TFP caches forward/inverse pairs by object identity",
]

VARS = (0.1, 1.0, 7.0)
HIGH_DIMS = (30, 60)  # pseudo-determinants outside the float32 range (5^60, 100^-30, ...)
LOCVEC = (0.5, -1.0, 2.0, -0.25, 1.5, -0.75)
RHOS = (0.0, -0.5, 0.42, -0.1, 0.1, 0.9, -0.95, 0.99)  # simplest first; both halves contain both signs

import os  # noqa: E402

# development aid only: VERIF_TOLSCALE=0.1 divides every tolerance by 10 (used once to
# show the margin between float32 noise and the tolerances; never set by the runner)
TOLSCALE = float(os.environ.get("VERIF_TOLSCALE", "1"))

# tolerance factors (multiples of the magnitude scale of the summed terms)
MVN_RTOL = 2e-5 * TOLSCALE      # observed float32 noise <= ~3e-7 x scale
SAMPLE_RTOL = 2e-4 * TOLSCALE   # on S S^T relative to max|pinv|
COPULA_RTOL = 5e-5 * TOLSCALE
MARGIN_TOL = 1e-3 * TOLSCALE


def bounds(tier):
    return {
        "mvn_dimensions": [1, 2, 3, 4] if tier == "quick" else [1, 2, 3, 4, 5, 6],
        "penalties": list(ref.PENALTIES) + ["stacked batch"],
        "variances": list(VARS) if tier == "quick" else [0.01] + list(VARS) + [100.0],
        "batch_shapes": [[], [2], [2, 3], "mixed (3,)x(2,1)"],
        "constructor_variants": 13,
        "high_dimensional_family": {"d": list(HIGH_DIMS), "penalties": ["I", "RW1"], "variances": [0.2, 1.0, 100.0] if tier == "quick" else [0.01, 0.2, 1.0, 7.0, 100.0],
                                    "constructor_variants": 12, "points": "0, two {-1,0,2}-patterns, their null-space shifts"},
        "lattice_values": [-1.0, 0.0, 2.0],
        "sample_shapes": [[], [2], [2, 2]],
        "asig_lattice_points": 41,
        "copula_dependences": list(RHOS) + [None] + ([] if tier == "quick" else [-0.99, -0.75, 0.25, 0.6, 0.75, 0.97]),
        "copula_unit_lattice": list(ref.UNIT_LATTICE),
        "quadrature_nodes": 198,
    }


def _dims(tier):
    return [1, 2, 3, 4] if tier == "quick" else [1, 2, 3, 4, 5, 6]


def _vars(tier):
    return list(VARS) if tier == "quick" else [0.01] + list(VARS) + [100.0]


def units(tier, seed):
    us = [{"kind": "asig"}]
    rhos = list(RHOS) + ([] if tier == "quick" else [-0.99, -0.75, 0.25, 0.6, 0.75, 0.97])
    us.append({"kind": "copula", "rhos": rhos[: len(rhos) // 2], "none": True, "batches": True})
    us.append({"kind": "copula", "rhos": rhos[len(rhos) // 2:], "none": False, "batches": False})
    for d in _dims(tier):
        for pen in ref.penalties(d) + ["batch"]:
            if d >= 5 and tier != "quick":
                for v in _vars(tier) + ["batch"]:
                    us.append({"kind": "mvn", "d": d, "pen": pen, "vars": [v]})
            else:
                us.append({"kind": "mvn", "d": d, "pen": pen, "vars": _vars(tier) + ["batch"]})
    us.append({"kind": "mvn-scaled-pen", "dims": [4, 6], "scales": [2.0**-17, 2.0**-10, 1.0, 2.0**10] if tier == "quick" else [2.0**k for k in (-20, -17, -13, -10, -7, -3, 0, 3, 7, 10, 13)]})  # powers of two: c * K stays exactly low-rank in float32
    for d in HIGH_DIMS:
        us.append({"kind": "mvn-highdim", "d": d, "vars": [0.2, 1.0, 100.0] if tier == "quick" else [0.01, 0.2, 1.0, 7.0, 100.0]})
    for d in _dims(tier):
        for pen in ref.penalties(d) + ["batch"]:
            us.append({"kind": "mvn-sample", "d": d, "pen": pen, "vars": _vars(tier), "keys": sorted({0, 1, 1000 + seed})})
    return us


# ---------------------------------------------------------------------------------
# helpers
# ---------------------------------------------------------------------------------


class Recorder:
    """Keeps the first (smallest) violation per (check, sig)."""

    def __init__(self, res):
        self.res = res
        self.seen = set()

    def fail(self, check, sig, case, msg):
        if (check, sig) in self.seen:
            return
        self.seen.add((check, sig))
        self.res.violation(check, sig, case, msg)


def f32(x):
    return np.asarray(x, dtype=np.float32)


def f64(x):
    return np.asarray(x, dtype=np.float64)


class HarnessError(RuntimeError):
    pass


def call(rec, check, sig, case, fn):
    """Runs a call into liesel. An exception for an input inside the property's domain
    is a violation of the property (not a harness error). Returns (ok, value)."""
    try:
        return True, fn()
    except HarnessError:
        raise
    except Exception as e:  # noqa: BLE001
        rec.fail(check, f"{sig}:raises-{type(e).__name__}", case, f"{check} [{sig}] raised {type(e).__name__}({str(e)[:200]!r}) for the in-domain input {case}")
        return False, None


# ---------------------------------------------------------------------------------
# algebraic sigmoid
# ---------------------------------------------------------------------------------


def run_asig(unit, res):
    import jax
    import jax.numpy as jnp
    from jax.experimental import enable_x64

    from liesel.bijectors import AlgebraicSigmoid

    rec = Recorder(res)
    ref.selftest()
    xs64 = f64(ref.asig_x_lattice())
    ys64 = f64(ref.asig_y_lattice())

    def one_mode(mode, validate):
        eps = (6e-8 if mode == "f32" else 5e-16) * TOLSCALE  # unit round-off x ~4 (margin measured: >= 10x)
        dt = jnp.float32 if mode == "f32" else jnp.float64
        b = AlgebraicSigmoid(validate_args=validate)
        x = jnp.asarray(xs64, dtype=dt)
        y = jnp.asarray(ys64, dtype=dt)
        xr, yr = f64(x), f64(y)  # the inputs actually used
        tag = f"{mode}{'-validate' if validate else ''}"

        def cmp(sig, got, want, tol, pts):
            got = f64(got)
            res.transitions += 1
            res.states += len(pts)
            if got.shape != want.shape:
                rec.fail("asig", f"{sig}-shape", {"mode": tag}, f"{sig}: shape {got.shape} != {want.shape}")
                return
            bad = ~(np.abs(got - want) <= tol)
            res.outcome("asig", sig, tag, "neg" if np.any(got < 0) else "", "pos" if np.any(got > 0) else "", "zero" if np.any(got == 0) else "")
            res.note([sig, tag, got])
            if np.any(bad):
                i = int(np.argmax(bad))
                rec.fail("asig", sig, {"mode": tag, "point": float(pts[i])},
                         f"AlgebraicSigmoid {sig} ({tag}) at {float(pts[i])!r}: got {got[i]!r}, closed form {want[i]!r}, tolerance {tol[i]:.3g}")

        fx = b.forward(x)
        cmp("forward", fx, ref.asig_forward(xr), 16 * eps * np.abs(ref.asig_forward(xr)) + 1e-300, xr)
        # inverse: 1 - y^2 is formed in working precision -> conditioning 1/(1-y^2)
        cond_y = 1.0 / ((1 - yr) * (1 + yr))
        iy = b.inverse(y)
        cmp("inverse", iy, ref.asig_inverse(yr), (16 * eps + 4 * eps * cond_y) * np.abs(ref.asig_inverse(yr)) + 1e-300, yr)
        # TFP bijectors cache forward/inverse pairs by object identity: b.inverse(b.forward(x))
        # would return x without calling _inverse. Fresh arrays defeat the cache.
        fresh = lambda a: jnp.asarray(np.array(a), dtype=dt)  # noqa: E731
        cmp("inverse-of-forward", b.inverse(fresh(fx)), xr, (32 * eps + 16 * eps * (1 + xr**2)) * np.abs(xr) + 1e-300, xr)
        cmp("forward-of-inverse", b.forward(fresh(iy)), yr, (32 * eps + 8 * eps) * np.abs(yr) + 1e-300, yr)
        # log-det-Jacobians against the closed-form derivative
        lf = np.log(ref.asig_dforward(xr))
        cmp("fldj", b.forward_log_det_jacobian(x, event_ndims=0), lf, 16 * eps * (1 + np.abs(lf)), xr)
        li = np.log(ref.asig_dinverse(yr))
        cmp("ildj", b.inverse_log_det_jacobian(y, event_ndims=0), li, 16 * eps * (1 + np.abs(li)) + 6 * eps * cond_y, yr)
        # far tails (|x| up to 1e6, where forward(x) rounds to +-1 and only the Jacobian is informative)
        far64 = f64([-1e6, -1e5, -3e4, -10001.0, 10001.0, 3e4, 1e5, 1e6])
        xfar = jnp.asarray(far64, dtype=dt)
        lfar = np.log(ref.asig_dforward(f64(xfar)))
        cmp("fldj-far-tail", b.forward_log_det_jacobian(xfar, event_ndims=0), lfar, 16 * eps * (1 + np.abs(lfar)), f64(xfar))
        # ... against autodiff of the REAL forward / inverse. The derivative of
        # x/sqrt(1+x^2) is a difference of terms (1+x^2) times larger than itself.
        gf = f64(jax.vmap(jax.grad(lambda t: b.forward(t)))(x))
        m = np.ones(len(xr), dtype=bool) if mode == "f64" else np.abs(xr) <= 10.0
        cmp("fldj-vs-grad-forward", f64(b.forward_log_det_jacobian(x, event_ndims=0))[m], np.log(gf[m]),
            (16 * eps * (1 + np.abs(lf)) + 16 * eps * (1 + xr**2))[m], xr[m])
        gi = f64(jax.vmap(jax.grad(lambda t: b.inverse(t)))(y))
        cmp("ildj-vs-grad-inverse", b.inverse_log_det_jacobian(y, event_ndims=0), np.log(gi),
            16 * eps * (1 + np.abs(li)) + 16 * eps * cond_y, yr)
        # event_ndims=1 sums over the last axis
        s = b.forward_log_det_jacobian(x, event_ndims=1)
        cmp("fldj-event1", jnp.reshape(s, (1,)), np.array([lf.sum()]), np.array([64 * eps * (1 + np.abs(lf).sum())]), np.array([0.0]))
        res.executions += 1

    for validate in (False, True):
        one_mode("f32", validate)
        with enable_x64():
            one_mode("f64", validate)


# ---------------------------------------------------------------------------------
# copula
# ---------------------------------------------------------------------------------


def run_copula(unit, res):
    import jax.numpy as jnp

    from liesel.distributions.copulas import GaussianCopula

    rec = Recorder(res)
    ref.selftest()
    L = ref.UNIT_LATTICE
    pts = np.array(list(itertools.product(L, L)), dtype=np.float64)
    pts32 = f32(pts)
    ptsr = f64(pts32)
    nodes, weights = ref.gauss_legendre_01()
    nodes32 = f32(nodes)

    def ref_grid(rho):
        lp = np.array([ref.copula_logpdf(u, v, rho) for u, v in ptsr])
        sc = np.array([ref.copula_scale(u, v, rho) for u, v in ptsr])
        return lp, sc

    def rho_class(rho):
        return "none" if rho is None else "neg" if rho < 0 else "zero" if rho == 0 else "pos"

    def check_grid(got, rho_eff, case, sigtag):
        want, sc = ref_grid(rho_eff)
        got = f64(got)
        res.states += len(want)
        tol = COPULA_RTOL * sc
        bad = ~(np.abs(got - want) <= tol)
        res.outcome("copula", sigtag, "dens>1" if np.any(got > 0) else "", "dens<1" if np.any(got < 0) else "")
        res.note([case, got])
        if np.any(bad):
            i = int(np.argmax(bad))
            rec.fail("copula", f"logprob-{sigtag}", {**case, "point": ptsr[i].tolist()},
                     f"GaussianCopula({case}) log_prob{tuple(ptsr[i])} = {got[i]!r}, closed form {want[i]!r} (tol {tol[i]:.2g})")

    rhos = [None] * bool(unit["none"]) + list(unit["rhos"])
    for rho in rhos:
        for validate in (False, True):
            for kind in ("f32-array", "pyfloat"):
                if rho is None and kind == "pyfloat":
                    continue
                case = {"dependence": rho, "validate_args": validate, "arg": kind}
                sigtag = f"rho-{rho_class(rho)}{'-validate' if validate else ''}"
                arg = None if rho is None else (jnp.float32(rho) if kind == "f32-array" else float(rho))
                rho_eff = 0.0 if rho is None else float(np.float32(rho))
                ok, dist = call(rec, "copula", f"construct-{sigtag}", case, lambda: GaussianCopula(arg, validate_args=validate))
                res.transitions += 1
                if not ok:
                    continue
                ok, lp = call(rec, "copula", f"logprob-{sigtag}", case, lambda: dist.log_prob(jnp.asarray(pts32)))
                res.transitions += 1
                if not ok:
                    continue
                if lp.shape != (len(pts),):
                    rec.fail("copula", f"shape-{sigtag}", case, f"log_prob shape {lp.shape}")
                    continue
                check_grid(lp, rho_eff, case, sigtag)
                res.executions += 1
                if kind != "f32-array":
                    continue
                # uniform marginals: int c(u, v) dv = 1 and int c(u, v) du = 1
                for axis in (0, 1):
                    g = np.zeros((len(L), len(nodes), 2), dtype=np.float32)
                    g[:, :, axis] = f32(L)[:, None]
                    g[:, :, 1 - axis] = nodes32[None, :]
                    ok, lpm = call(rec, "copula", f"logprob-{sigtag}", case, lambda: dist.log_prob(jnp.asarray(g)))
                    res.transitions += 1
                    if not ok:
                        break
                    m = (np.exp(f64(lpm)) * weights[None, :]).sum(axis=1)
                    res.states += g.shape[0] * g.shape[1]
                    res.note(["marginal", case, axis, m])
                    res.outcome("copula-marginal", sigtag, axis)
                    bad = ~(np.abs(m - 1.0) <= MARGIN_TOL)
                    if np.any(bad):
                        i = int(np.argmax(bad))
                        rec.fail("copula", f"marginal-{sigtag}", {**case, "fixed_axis": axis, "at": L[i]},
                                 f"GaussianCopula({case}): integral of the density over coordinate {1 - axis} at coordinate {axis} = {L[i]} is {m[i]:.6f}, not 1")
                    res.executions += 1

    if unit["batches"]:
        allr = list(RHOS)
        layouts = {
            "(2,)": np.array([-0.5, 0.9]),
            "(2,3)": np.array([[-0.95, -0.1, 0.0], [0.42, 0.99, -0.5]]),
            "(8,)": np.array(allr),
        }
        for name, arr in layouts.items():
            for validate in (False, True):
                case = {"dependence": arr.tolist(), "validate_args": validate}
                sigtag = f"batch{name}{'-validate' if validate else ''}"
                a32 = f32(arr)
                ok, dist = call(rec, "copula", f"construct-{sigtag}", case, lambda: GaussianCopula(jnp.asarray(a32), validate_args=validate))
                res.transitions += 1
                if not ok:
                    continue
                x = pts32.reshape((len(pts),) + (1,) * arr.ndim + (2,))
                ok, lp = call(rec, "copula", f"logprob-{sigtag}", case, lambda: dist.log_prob(jnp.asarray(x)))
                res.transitions += 1
                if not ok:
                    continue
                if lp.shape != (len(pts),) + arr.shape or tuple(dist.batch_shape) != arr.shape:
                    rec.fail("copula", f"shape-{sigtag}", case, f"log_prob shape {lp.shape}, batch_shape {dist.batch_shape}")
                    continue
                for idx in np.ndindex(arr.shape):
                    check_grid(f64(lp)[(slice(None),) + idx], float(a32[idx]), {**case, "batch_index": list(idx)}, sigtag)
                res.executions += 1


# ---------------------------------------------------------------------------------
# degenerate MVN
# ---------------------------------------------------------------------------------

CTORS = [(c, gr, gl) for c in ("prec", "pen", "smooth") for gr in (False, True) for gl in (False, True)]
# 13th variant: precision constructor with an explicit eigenvalue tolerance that is above
# the float32 eigenvalue noise of every precision matrix used and below every non-zero
# eigenvalue (smallest: 0.268/100), so that rank detection from the eigenvalues of
# *scaled* rank-deficient precisions is exercised without the known noise problem
EXPLICIT_TOL = 1e-3
CTORS.append(("prectol", False, False))


def ctor_name(c, gr, gl):
    return ("prec+tol" if c == "prectol" else c) + ("+rank" if gr else "") + ("+lpdet" if gl else "")


def batch_layouts(pen_batched: bool):
    """(name, shapes of pen/var/loc batch dims). For a named penalty only var/loc are
    batched; for the stacked-penalty unit the penalty is always batched."""
    out = []
    others = ("var", "loc")
    if not pen_batched:
        out.append(("none", {"pen": (), "var": (), "loc": ()}))
    for B in ((2,), (2, 3)):
        for k in range(0, 3):
            for sub in itertools.combinations(others, k):
                if not pen_batched and not sub:
                    continue
                sh = {"pen": B if pen_batched else (), "var": (), "loc": ()}
                for s in sub:
                    sh[s] = B
                out.append((f"{'x'.join(map(str, B))}:{'+'.join((['pen'] if pen_batched else []) + list(sub))}", sh))
    if pen_batched:
        out.append(("mixed:pen(3)loc(2,1)", {"pen": (3,), "var": (), "loc": (2, 1)}))
        out.append(("mixed:pen(2,1)var(3)", {"pen": (2, 1), "var": (3,), "loc": ()}))
        out.append(("mixed:pen(3)var(2,3)loc(2,1)", {"pen": (3,), "var": (2, 3), "loc": (2, 1)}))
    else:
        out.append(("mixed:var(3)loc(2,1)", {"pen": (), "var": (3,), "loc": (2, 1)}))
        out.append(("mixed:var(2,1)loc(3)", {"pen": (), "var": (2, 1), "loc": (3,)}))
    return out


def build_inputs(d, penspec, varspec, locspec, shapes, varlist):
    """float64 arrays (values exactly representable after the float32 round trip is
    applied by the caller): pen [Bp,d,d], var [Bv], loc [Bl,d]."""
    names = ref.penalties(d)
    Bp, Bv, Bl = shapes["pen"], shapes["var"], shapes["loc"]
    if penspec == "batch":
        n = int(np.prod(Bp))
        pen = np.stack([ref.penalty(names[(k + 2) % len(names)], d) for k in range(n)]).reshape(Bp + (d, d))
        pen_names = [names[(k + 2) % len(names)] for k in range(n)]
    else:
        pen = ref.penalty(penspec, d)
        pen_names = [penspec]
    if Bv:
        n = int(np.prod(Bv))
        L = len(varlist)
        var = np.array([varlist[(2 * k + 1) % L] if L % 2 else varlist[k % L] for k in range(n)]).reshape(Bv)
    else:
        var = np.array(float(varspec))
    vec = np.resize(np.array(LOCVEC), d)  # LOCVEC[:d] for d <= 6, tiled beyond
    if Bl:
        n = int(np.prod(Bl))
        loc = np.stack([vec * (1.0 + 0.5 * k) - 0.25 * k for k in range(n)]).reshape(Bl + (d,))
    elif locspec == "vec":
        loc = vec
    else:
        loc = np.zeros(d)
    return pen, var, loc, pen_names


def rank_class(r, d):
    return "zero" if r == 0 else "full" if r == d else "deficient"


def mvn_cases(unit):
    d, penspec = unit["d"], unit["pen"]
    varlist = [v for v in unit["vars"] if v != "batch"] or list(VARS)
    allow_batch_var = "batch" in unit["vars"]
    for name, shapes in batch_layouts(penspec == "batch"):
        if shapes["var"] and not allow_batch_var:
            continue
        vspecs = ["batch"] if shapes["var"] else [v for v in unit["vars"] if v != "batch"]
        lspecs = ["batch"] if shapes["loc"] else ["zero", "vec"]
        for vs in vspecs:
            for ls in lspecs:
                yield name, shapes, vs, ls, (varlist if len(varlist) > 1 else list(VARS))


def make_dist(M, jnp, ctor, gr, gl, inp):
    """Builds the real distribution for one constructor variant."""
    rank = inp["rank_arg"] if gr else None
    if ctor == "prectol":
        return M(loc=jnp.asarray(inp["loc32"]), prec=jnp.asarray(inp["prec32"]), tol=EXPLICIT_TOL)
    if ctor == "prec":
        lp = jnp.asarray(inp["lp_prec32"]) if gl else None
        return M(loc=jnp.asarray(inp["loc32"]), prec=jnp.asarray(inp["prec32"]), rank=rank, log_pdet=lp)
    lp = jnp.asarray(inp["lp_pen32"]) if gl else None
    if ctor == "pen":
        return M.from_penalty(loc=jnp.asarray(inp["loc32"]), var=jnp.asarray(inp["var32"]), pen=jnp.asarray(inp["pen32"]), rank=rank, log_pdet=lp)
    return M.from_penalty_smooth(loc=jnp.asarray(inp["loc32"]), smooth=jnp.asarray(inp["smooth32"]), pen=jnp.asarray(inp["pen32"]), rank=rank, log_pdet=lp)


def prepare(d, penspec, vs, ls, shapes, varlist, jnp):
    pen, var, loc, pen_names = build_inputs(d, penspec, vs, ls, shapes, varlist)
    B = np.broadcast_shapes(shapes["pen"], shapes["var"], shapes["loc"])
    inp = {"B": B, "pen_names": pen_names}
    inp["pen32"], inp["var32"], inp["loc32"] = f32(pen), f32(var), f32(loc)
    varr = f64(inp["var32"])
    inp["smooth32"] = f32(1.0 / varr)
    inp["prec32"] = f32(pen / varr[..., None, None])
    # reference spectral data per penalty batch element
    Bp = shapes["pen"]
    sp = np.empty(Bp, dtype=object)
    for idx in np.ndindex(Bp):
        sp[idx] = ref.spectral(pen[idx])
    ranks = np.array([sp[idx]["rank"] for idx in np.ndindex(Bp)], dtype=np.int32).reshape(Bp)
    lps = np.array([sp[idx]["log_pdet"] for idx in np.ndindex(Bp)]).reshape(Bp)
    inp["rank_arg"] = int(ranks) if Bp == () else jnp.asarray(ranks)
    inp["lp_pen32"] = f32(lps)
    inp["lp_prec32"] = f32(lps - ranks * np.log(varr))
    inp["ranks"], inp["sp"] = ranks, sp
    # per batch element of B: exact precision matrices the three constructors stand for
    penB = np.broadcast_to(pen, B + (d, d))
    varB = np.broadcast_to(varr, B)
    smoothB = np.broadcast_to(f64(inp["smooth32"]), B)
    inp["P"] = {"prec": penB / varB[..., None, None], "pen": penB / varB[..., None, None], "smooth": penB * smoothB[..., None, None]}
    inp["P"]["prectol"] = inp["P"]["prec"]
    inp["prec32B"] = np.broadcast_to(inp["prec32"], B + (d, d))
    inp["locB"] = np.broadcast_to(f64(inp["loc32"]), B + (d,))
    inp["ranksB"] = np.broadcast_to(ranks, B)
    return inp


def eval_points(d, inp):
    """Lattice {-1,0,2}^d plus null-space shifts for every distinct penalty involved.
    Returns float32 points and, per distinct null vector, (base rows, shifted rows)."""
    lat = ref.lattice(d)
    blocks = [lat]
    shifts = []  # (penalty batch index, rows of base, rows of shifted)
    off = len(lat)
    seen = {}
    for idx in np.ndindex(inp["sp"].shape):
        N = inp["sp"][idx]["null"]
        vecs = [3.0 * N[:, j] for j in range(N.shape[1])]
        if N.shape[1] >= 2:
            vecs.append(N[:, :2] @ np.array([1.5, -2.0]))
        for v in vecs:
            key = tuple(np.round(v, 9))
            if key not in seen:
                blocks.append(lat + v)
                seen[key] = (off, off + len(lat))
                off += len(lat)
            a, b = seen[key]
            shifts.append((idx, (0, len(lat)), (a, b)))
    X = np.concatenate(blocks, axis=0)
    return f32(X), shifts


DOC_TOL = 1e-6  # documented default of MultivariateNormalDegenerate(tol=...)


def noise_explained(dist, inp, ctor, B, d, strict):
    if ctor == "prectol":
        return np.zeros(B, dtype=bool), np.zeros(B, dtype=int), None
    """
    Signature classification only (never turns a failure into a pass): for which batch
    elements does the implementation's OWN eigendecomposition (public property
    ``dist.eig``) contain more eigenvalues above the documented absolute tolerance than
    the true rank? There the tolerance logic works as written and the failure is float32
    eigenvalue noise above tol. strict: '>' as in _rank; otherwise '>=' as in _sqrt_pcov.
    """
    ev = np.broadcast_to(np.asarray(dist.eig[0], dtype=np.float64), B + (d,))
    out = np.zeros(B, dtype=bool)
    cnt = np.zeros(B, dtype=int)
    for idx in np.ndindex(B):
        n_above = int(np.sum(ev[idx] > DOC_TOL)) if strict else int(np.sum(ev[idx] >= DOC_TOL))
        cnt[idx] = n_above
        out[idx] = n_above > ref.spectral(inp["P"][ctor][idx])["rank"]
    return out, cnt, ev


def ref_grid_mvn(Xr, inp, ctor, B):
    want = np.empty((len(Xr),) + B)
    scale = np.empty((len(Xr),) + B)
    for idx in np.ndindex(B):
        w, s = ref.mvn_logpdf_many(Xr, inp["locB"][idx], inp["P"][ctor][idx])
        want[(slice(None),) + idx] = w
        scale[(slice(None),) + idx] = s
    return want, scale


def run_mvn(unit, res):
    import jax
    import jax.numpy as jnp

    from liesel.distributions.mvn_degen import MultivariateNormalDegenerate as M

    rec = Recorder(res)
    d, penspec = unit["d"], unit["pen"]
    worst = 0.0
    first = True
    for layout, shapes, vs, ls, varlist in mvn_cases(unit):
        inp = prepare(d, penspec, vs, ls, shapes, varlist, jnp)
        B = inp["B"]
        X32, shifts = eval_points(d, inp)
        Xr = f64(X32)
        xin = jnp.asarray(X32.reshape((len(X32),) + (1,) * len(B) + (d,)))
        case0 = {"d": d, "pen": inp["pen_names"], "var": f64(inp["var32"]).tolist(), "loc": f64(inp["loc32"]).tolist(), "layout": layout}
        got_all = {}
        scale = None
        for ctor, gr, gl in CTORS:
            cn = ctor_name(ctor, gr, gl)
            case = {**case0, "ctor": cn}
            want, scale = ref_grid_mvn(Xr, inp, ctor, B)
            rcs = sorted({rank_class(int(r), d) for r in inp["ranksB"].reshape(-1)})
            tag = f"{cn}:{'/'.join(rcs)}:{'batched' if B else 'unbatched'}"
            with jax.disable_jit():
                ok, dist = call(rec, "mvn-logprob", f"construct-{tag}", case, lambda: make_dist(M, jnp, ctor, gr, gl, inp))
                res.transitions += 1
                if not ok:
                    continue
                ok, lp = call(rec, "mvn-logprob", tag, case, lambda: dist.log_prob(xin))
                res.transitions += 1
                if not ok:
                    continue
                ok, rk = call(rec, "mvn-rank", tag, case, lambda: (np.asarray(dist.rank), np.asarray(dist.log_pdet)))
                if not ok:
                    continue
            lp = f64(lp)
            res.states += want.size
            res.executions += 1
            if lp.shape != want.shape or tuple(dist.batch_shape) != tuple(B) or tuple(dist.event_shape) != (d,):
                rec.fail("mvn-logprob", f"shape-{tag}", case, f"log_prob shape {lp.shape} (expected {want.shape}), batch_shape {dist.batch_shape}, event_shape {dist.event_shape}")
                continue
            # rank / log_pdet properties (of the precision matrix)
            try:
                rgot = np.broadcast_to(np.asarray(rk[0]), B)
                lgot = np.broadcast_to(np.asarray(rk[1], dtype=np.float64), B)
            except ValueError:
                rec.fail("mvn-rank", f"shape-{tag}", case, f"rank shape {np.shape(rk[0])}, log_pdet shape {np.shape(rk[1])} do not broadcast to batch shape {B}")
                continue
            explained = np.zeros(B, dtype=bool)
            if ctor == "prec" and not gr:  # the only variants whose rank comes from eigh(prec) with the default tol
                with jax.disable_jit():
                    noisy, cnt, ev = noise_explained(dist, inp, ctor, B, d, strict=True)
                for idx in np.ndindex(B):
                    if noisy[idx] and int(rgot[idx]) == cnt[idx]:
                        explained[idx] = True
                        res.outcome("mvn-rank", "null-eigenvalue-noise-above-tol", cn)
                        j = int(np.argmax(np.abs(lp - want)[(slice(None),) + idx]))
                        rec.fail("mvn-rank", f"null-eigenvalue-noise-above-tol:{cn}",
                                 {**case, "batch_index": list(idx), "eigenvalues_float32": ev[idx].tolist(), "prec_float32": inp["prec32B"][idx].tolist(),
                                  "call": "MultivariateNormalDegenerate(loc, prec)", "rank_reported": int(rgot[idx]), "rank_true": ref.spectral(inp["P"][ctor][idx])["rank"],
                                  "x": Xr[j].tolist(), "log_prob": float(lp[(j,) + idx]), "range_space_density": float(want[(j,) + idx])},
                                 f"[{cn}] rank {int(rgot[idx])} instead of {ref.spectral(inp['P'][ctor][idx])['rank']} for prec = pen{inp['pen_names']}/var{case0['var']} (batch {list(idx)}): the float32 eigenvalues {ev[idx].tolist()} of a numerically singular precision exceed the absolute tolerance 1e-6, so log_prob is off by {float(np.max(np.abs(lp - want)[(slice(None),) + idx])):.4g}")
            for idx in np.ndindex(B):
                if explained[idx]:
                    continue
                spP = ref.spectral(inp["P"][ctor][idx])
                res.outcome("mvn-rank", cn, rank_class(spP["rank"], d))
                if int(rgot[idx]) != spP["rank"]:
                    rec.fail("mvn-rank", f"rank-{tag}", {**case, "batch_index": list(idx)}, f"[{cn}] rank {int(rgot[idx])} != {spP['rank']} for pen={inp['pen_names']} var={case0['var']} at batch {list(idx)}")
                if not abs(float(lgot[idx]) - spP["log_pdet"]) <= 2 * MVN_RTOL * (1 + abs(spP["log_pdet"]) + d):
                    rec.fail("mvn-rank", f"log_pdet-{tag}", {**case, "batch_index": list(idx)}, f"[{cn}] log_pdet {float(lgot[idx])!r} != {spP['log_pdet']!r} for pen={inp['pen_names']} var={case0['var']} at batch {list(idx)}")
            keep = np.broadcast_to(~explained, want.shape)
            err = np.abs(lp - want) / scale
            err = np.where(keep, err, 0.0)
            worst = max(worst, float(np.nanmax(err)))
            res.outcome("mvn-logprob", cn, "/".join(rcs), layout.split(":")[0], "pos" if np.any(lp > 0) else "", "neg" if np.any(lp < 0) else "")
            if first:
                res.note([case, lp])
            bad = ~(err <= MVN_RTOL)
            if np.any(bad):
                i = np.unravel_index(int(np.argmax(bad)), bad.shape)
                rec.fail("mvn-logprob", tag, {**case, "x": Xr[i[0]].tolist(), "batch_index": list(i[1:])},
                         f"MultivariateNormalDegenerate[{cn}] d={d} pen={inp['pen_names']} var={case0['var']} layout={layout}: log_prob({Xr[i[0]].tolist()})[{list(i[1:])}] = {lp[i]!r}, range-space density {want[i]!r} (tolerance {MVN_RTOL * scale[i]:.2g})")
            got_all[cn] = np.where(keep, lp, np.nan)
            # null-space invariance (direct, on the implementation's own values)
            pshape = shapes["pen"]
            for pidx, (a0, a1), (b0, b1) in shifts:
                for idx in np.ndindex(B):
                    if explained[idx]:
                        continue
                    # does batch element idx use penalty element pidx?
                    pi = tuple(0 if pshape[k] == 1 else idx[len(B) - len(pshape) + k] for k in range(len(pshape)))
                    if pi != pidx:
                        continue
                    sl = (slice(None),) + idx
                    diff = np.abs(lp[sl][b0:b1] - lp[sl][a0:a1])
                    tol = 2 * MVN_RTOL * np.maximum(scale[sl][a0:a1], scale[sl][b0:b1])
                    res.outcome("mvn-null", cn, rank_class(int(inp["ranks"][pidx]), d))
                    bad = ~(diff <= tol)
                    if np.any(bad):
                        i = int(np.argmax(bad))
                        rec.fail("mvn-null", tag, {**case, "x": Xr[a0 + i].tolist(), "x_shifted": Xr[b0 + i].tolist(), "batch_index": list(idx)},
                                 f"[{cn}] log_prob changes by {diff[i]:.4g} when the null-space vector {(Xr[b0 + i] - Xr[a0 + i]).tolist()} of pen={inp['pen_names']} is added to {Xr[a0 + i].tolist()}")
        # constructor agreement (NaN marks batch elements explained above)
        names = sorted(got_all)
        for a, b in itertools.combinations(names, 2):
            diff = np.abs(got_all[a] - got_all[b])
            tol = 2 * MVN_RTOL * scale
            bad = diff > tol
            if np.any(bad):
                i = np.unravel_index(int(np.argmax(bad)), bad.shape)
                rec.fail("mvn-ctor", f"{a}-vs-{b}", {**case0, "x": Xr[i[0]].tolist(), "batch_index": list(i[1:])},
                         f"constructors {a} and {b} disagree by {diff[i]:.4g} at x={Xr[i[0]].tolist()} for d={d} pen={inp['pen_names']} var={case0['var']} layout={layout}")
        if len(names) == len(CTORS):
            res.outcome("mvn-ctor", "all-13-compared", layout.split(":")[0])
        if first:
            res.sample({**case0, "points": len(Xr), "constructors": len(names), "first_logprob": float(next(iter(got_all.values())).reshape(-1)[0]) if got_all else None})
        first = False

    # the same under jax.jit (one compiled function per constructor; named penalties and
    # the stacked batch alike), variance and loc as traced arguments
    varlist = [v for v in unit["vars"] if v != "batch"] or [1.0]
    layout, shapes = batch_layouts(penspec == "batch")[0]
    for ctor in ("prec", "pen", "smooth", "prectol"):
        for gr in (False, True):
            if ctor == "prectol" and gr:
                continue
            cn = ctor_name(ctor, gr, False) + ":jit"
            fn = None
            for v in varlist:
                inp = prepare(d, penspec, v, "vec", {**shapes, "var": (), "loc": ()}, varlist, jnp)
                B = inp["B"]
                X32, _ = eval_points(d, inp)
                Xr = f64(X32)
                xin = jnp.asarray(X32.reshape((len(X32),) + (1,) * len(B) + (d,)))
                if fn is None:
                    rank_arg = inp["rank_arg"] if gr else None

                    def raw(loc, var, smooth, pen, prec, x, ctor=ctor, rank_arg=rank_arg):
                        if ctor == "prectol":
                            dist = M(loc=loc, prec=prec, tol=EXPLICIT_TOL)
                        elif ctor == "prec":
                            dist = M(loc=loc, prec=prec, rank=rank_arg)
                        elif ctor == "pen":
                            dist = M.from_penalty(loc=loc, var=var, pen=pen, rank=rank_arg)
                        else:
                            dist = M.from_penalty_smooth(loc=loc, smooth=smooth, pen=pen, rank=rank_arg)
                        return dist.log_prob(x)

                    fn = jax.jit(raw)
                case = {"d": d, "pen": inp["pen_names"], "var": v, "loc": "vec", "ctor": cn}
                ok, lp = call(rec, "mvn-logprob", cn, case, lambda: fn(jnp.asarray(inp["loc32"]), jnp.asarray(inp["var32"]), jnp.asarray(inp["smooth32"]), jnp.asarray(inp["pen32"]), jnp.asarray(inp["prec32"]), xin))
                res.transitions += 1
                if not ok:
                    continue
                lp = f64(lp)
                want, scale = ref_grid_mvn(Xr, inp, ctor, B)
                res.states += want.size
                res.executions += 1
                res.outcome("mvn-logprob", cn)
                if lp.shape != want.shape:
                    rec.fail("mvn-logprob", f"shape-{cn}", case, f"log_prob shape {lp.shape} (expected {want.shape})")
                    continue
                explained = np.zeros(B, dtype=bool)
                if ctor == "prec" and not gr:
                    with jax.disable_jit():
                        explained, cnt, ev = noise_explained(make_dist(M, jnp, ctor, gr, False, inp), inp, ctor, B, d, strict=True)
                    # under jit the rank is not observable: the finding is emitted only where
                    # the log-density is actually wrong
                    wrong = np.any(~(np.abs(lp - want) / scale <= MVN_RTOL), axis=0)
                    explained = explained & wrong
                    if np.any(explained):
                        idx = tuple(np.argwhere(explained)[0])
                        rec.fail("mvn-rank", f"null-eigenvalue-noise-above-tol:{cn}", {**case, "batch_index": list(idx), "eigenvalues_float32": ev[idx].tolist(), "prec_float32": inp["prec32B"][idx].tolist()},
                                 f"[{cn}] prec = pen{inp['pen_names']}/{v}: float32 eigenvalues {ev[idx].tolist()} of a numerically singular precision exceed the absolute tolerance 1e-6; log_prob is off by {float(np.max(np.abs(lp - want)[(slice(None),) + idx])):.4g}")
                err = np.where(np.broadcast_to(~explained, want.shape), np.abs(lp - want) / scale, 0.0)
                worst = max(worst, float(np.nanmax(err)))
                bad = ~(err <= MVN_RTOL)
                if np.any(bad):
                    i = np.unravel_index(int(np.argmax(bad)), bad.shape)
                    rec.fail("mvn-logprob", cn, {**case, "x": Xr[i[0]].tolist(), "batch_index": list(i[1:])},
                             f"[{cn}] d={d} pen={inp['pen_names']} var={v}: log_prob({Xr[i[0]].tolist()}) = {lp[i]!r}, range-space density {want[i]!r}")


def run_mvn_highdim(unit, res):
    """
    d = 30 / 60, penalties I and RW1: the pseudo-determinant of the precision leaves the
    float32 range (5^60 ~ 1e42, 100^-30 = 1e-60) while every eigenvalue is harmless, so
    log_pdet must be accumulated in log space. Twelve constructor variants (no explicit
    tol), log_prob at a few points built from the lattice values, rank, log_pdet,
    null-space shifts, constructor agreement; precision / from_penalty also under jit.
    """
    import jax
    import jax.numpy as jnp

    from liesel.distributions.mvn_degen import MultivariateNormalDegenerate as M

    rec = Recorder(res)
    d = unit["d"]
    shapes = {"pen": (), "var": (), "loc": ()}
    B = ()
    pats = [np.zeros(d), np.resize(np.array([-1.0, 0.0, 2.0]), d), np.resize(np.array([2.0, -1.0, -1.0, 0.0, 2.0, 0.0, -1.0]), d)]
    first = True
    for penname in ("I", "RW1"):
        for v in unit["vars"]:
            for ls in ("zero", "vec"):
                inp = prepare(d, penname, v, ls, shapes, list(unit["vars"]), jnp)
                N = inp["sp"][()]["null"]
                X = list(pats)
                shifts = []
                for j in range(N.shape[1]):
                    for i in range(len(pats)):
                        X.append(pats[i] + 3.0 * np.sqrt(d) * N[:, j])
                        shifts.append((i, len(X) - 1))
                X32 = f32(np.stack(X))
                Xr = f64(X32)
                xin = jnp.asarray(X32)
                case0 = {"d": d, "pen": [penname], "var": float(np.float32(v)), "loc": ls, "layout": "highdim"}
                rc = rank_class(int(inp["ranks"]), d)
                got_all = {}
                scale = None
                for ctor, gr, gl in CTORS:
                    if ctor == "prectol":
                        continue
                    cn = ctor_name(ctor, gr, gl)
                    case = {**case0, "ctor": cn}
                    tag = f"{cn}:{rc}:highdim"
                    want, scale = ref_grid_mvn(Xr, inp, ctor, B)
                    spP = ref.spectral(inp["P"][ctor][()])
                    with jax.disable_jit():
                        ok, dist = call(rec, "mvn-logprob", f"construct-{tag}", case, lambda: make_dist(M, jnp, ctor, gr, gl, inp))
                        res.transitions += 1
                        if not ok:
                            continue
                        ok, r = call(rec, "mvn-logprob", tag, case, lambda: (f64(dist.log_prob(xin)), np.asarray(dist.rank), np.asarray(dist.log_pdet, dtype=np.float64)))
                        res.transitions += 1
                        if not ok:
                            continue
                        lp, rgot, lgot = r
                        explained = False
                        if ctor == "prec" and not gr:
                            noisy, cnt, ev = noise_explained(dist, inp, ctor, B, d, strict=True)
                            if noisy[()] and int(rgot) == cnt[()]:
                                explained = True
                                rec.fail("mvn-rank", f"null-eigenvalue-noise-above-tol:{cn}", {**case, "eigenvalues_float32": ev[()][:4].tolist()},
                                         f"[{cn}] d={d} pen={penname} var={v}: rank {int(rgot)} instead of {spP['rank']}: float32 eigenvalue noise above the absolute tolerance 1e-6")
                    res.states += want.size
                    res.executions += 1
                    if lp.shape != want.shape or np.shape(rgot) != () or np.shape(lgot) != ():
                        rec.fail("mvn-logprob", f"shape-{tag}", case, f"log_prob shape {lp.shape}, rank shape {np.shape(rgot)}, log_pdet shape {np.shape(lgot)}")
                        continue
                    if explained:
                        continue
                    res.outcome("mvn-highdim", cn, rc, "log_pdet>88" if spP["log_pdet"] > 88.7 else "log_pdet<-103" if spP["log_pdet"] < -103.3 else "log_pdet-in-f32-range")
                    if first:
                        res.note([case, lp, float(lgot)])
                    if int(rgot) != spP["rank"]:
                        rec.fail("mvn-rank", f"rank-{tag}", case, f"[{cn}] d={d} pen={penname} var={v}: rank {int(rgot)} != {spP['rank']}")
                    if not abs(float(lgot) - spP["log_pdet"]) <= 2 * MVN_RTOL * (1 + abs(spP["log_pdet"]) + d):
                        rec.fail("mvn-rank", f"log_pdet-{tag}", case,
                                 f"[{cn}] d={d} pen={penname} var={v}: log_pdet {float(lgot)!r} != {spP['log_pdet']!r} (the pseudo-determinant itself is {'outside' if abs(spP['log_pdet']) > 88 else 'inside'} the float32 range)")
                    err = np.abs(lp - want) / scale
                    bad = ~(err <= MVN_RTOL)
                    if np.any(bad):
                        i = int(np.argmax(bad))
                        rec.fail("mvn-logprob", tag, {**case, "point": i, "x_head": Xr[i][:7].tolist()},
                                 f"MultivariateNormalDegenerate[{cn}] d={d} pen={penname} var={v} loc={ls}: log_prob(point {i}: {Xr[i][:7].tolist()}...) = {lp[i]!r}, range-space density {want[i]!r} (tolerance {MVN_RTOL * scale[i]:.2g})")
                    for a, b in shifts:
                        if not abs(lp[a] - lp[b]) <= 2 * MVN_RTOL * max(scale[a], scale[b]):
                            rec.fail("mvn-null", tag, {**case, "point": a}, f"[{cn}] d={d} pen={penname}: log_prob changes by {abs(lp[a] - lp[b]):.4g} under a null-space shift of point {a}")
                    got_all[cn] = lp
                names = sorted(got_all)
                for a, b in itertools.combinations(names, 2):
                    diff = np.abs(got_all[a] - got_all[b])
                    bad = ~(diff <= 2 * MVN_RTOL * scale)
                    if np.any(bad):
                        i = int(np.argmax(bad))
                        rec.fail("mvn-ctor", f"{a}-vs-{b}:highdim", {**case0, "point": i}, f"constructors {a} and {b} disagree by {diff[i]!r} at point {i} for d={d} pen={penname} var={v}")
                if first:
                    res.sample({**case0, "points": len(Xr), "constructors": len(names), "log_pdet_ref": ref.spectral(inp["P"]["prec"][()])["log_pdet"]})
                first = False
                # jit: precision and from_penalty without supplied rank
                if ls == "vec":
                    for ctor in ("prec", "pen"):
                        cn = ctor_name(ctor, False, False) + ":jit"
                        fn = jax.jit((lambda loc, prec, x: M(loc=loc, prec=prec).log_prob(x)) if ctor == "prec" else (lambda loc, var, pen, x: M.from_penalty(loc=loc, var=var, pen=pen).log_prob(x)))
                        args = (jnp.asarray(inp["loc32"]), jnp.asarray(inp["prec32"]), xin) if ctor == "prec" else (jnp.asarray(inp["loc32"]), jnp.asarray(inp["var32"]), jnp.asarray(inp["pen32"]), xin)
                        case = {**case0, "ctor": cn}
                        ok, lp = call(rec, "mvn-logprob", f"{cn}:highdim", case, lambda: f64(fn(*args)))
                        res.transitions += 1
                        if not ok:
                            continue
                        want, scale = ref_grid_mvn(Xr, inp, ctor, B)
                        res.states += want.size
                        res.executions += 1
                        if ctor == "prec":
                            with jax.disable_jit():
                                noisy, _, _ = noise_explained(make_dist(M, jnp, ctor, False, False, inp), inp, ctor, B, d, strict=True)
                            if noisy[()]:
                                continue
                        bad = ~(np.abs(lp - want) / scale <= MVN_RTOL) if lp.shape == want.shape else np.array([True])
                        if np.any(bad):
                            i = int(np.argmax(bad))
                            rec.fail("mvn-logprob", f"{cn}:{rc}:highdim", {**case, "point": i}, f"[{cn}] d={d} pen={penname} var={v}: log_prob(point {i}) = {lp[i] if lp.shape == want.shape else lp.shape!r}, range-space density {want[i] if lp.shape == want.shape else want.shape!r}")


# ---------------------------------------------------------------------------------
# sampler
# ---------------------------------------------------------------------------------


def run_mvn_sample(unit, res):
    import jax
    import jax.numpy as jnp

    from liesel.distributions.mvn_degen import MultivariateNormalDegenerate as M
    from mc.seams import ScriptedPRNG

    rec = Recorder(res)
    d = unit["d"]
    key0 = jax.random.PRNGKey(0)
    worst = 0.0
    first = True

    def draw(dist, sample_shape, zfun):
        """One real sample() call under the scripted seam; zfun(shape) -> z array of the
        shape the sampler asked for ([n] + batch + [d, 1])."""
        calls = []

        def script(fn, i, shape, info):
            calls.append((fn, shape))
            return zfun(shape)

        with ScriptedPRNG(script):
            out = dist.sample(sample_shape, seed=key0)
        if len(calls) != 1 or calls[0][0] != "normal":
            raise HarnessError(f"sampler seam: expected exactly one normal draw, saw {calls}")
        return np.asarray(out, dtype=np.float64), calls[0][1]

    for penspec in [unit["pen"]]:
        layouts = [("none", {"pen": (), "var": (), "loc": ()}), ("2x3:loc", {"pen": (), "var": (), "loc": (2, 3)}), ("2:var", {"pen": (), "var": (2,), "loc": ()})] if penspec != "batch" else [
            ("2:pen", {"pen": (2,), "var": (), "loc": ()}), ("2x3:pen+loc", {"pen": (2, 3), "var": (), "loc": (2, 3)}), ("mixed:pen(3)var(2,3)loc(2,1)", {"pen": (3,), "var": (2, 3), "loc": (2, 1)})]
        for layout, shapes in layouts:
            for v in (["batch"] if shapes["var"] else unit["vars"]):
                for ls in (["batch"] if shapes["loc"] else ["zero", "vec"]):
                    inp = prepare(d, penspec, v, ls, shapes, list(unit["vars"]), jnp)
                    B = inp["B"]
                    for ctor in ("prec", "pen", "smooth", "prectol"):
                        case = {"d": d, "pen": inp["pen_names"], "var": f64(inp["var32"]).tolist(), "loc": f64(inp["loc32"]).tolist(), "layout": layout, "ctor": ctor_name(ctor, False, False)}
                        rcs = sorted({rank_class(int(r), d) for r in inp["ranksB"].reshape(-1)})
                        tag = f"{ctor_name(ctor, False, False)}:{'/'.join(rcs)}:{'batched' if B else 'unbatched'}"
                        ok, dist = call(rec, "mvn-sample", f"construct-{tag}", case, lambda: make_dist(M, jnp, ctor, False, False, inp))
                        if not ok:
                            continue
                        # 1. reconstruct the linear map: z = e_i everywhere
                        S = np.zeros(B + (d, d))
                        good = True
                        for i in range(d):
                            def zf(shape, i=i):
                                z = np.zeros(shape)
                                z[..., i, 0] = 1.0
                                return z
                            ok, r = call(rec, "mvn-sample", tag, case, lambda: draw(dist, (), zf))
                            res.transitions += 1
                            if not ok:
                                good = False
                                break
                            out, zshape = r
                            if out.shape != B + (d,) or tuple(zshape) != (1,) + B + (d, 1):
                                rec.fail("mvn-sample", f"shape-{tag}", case, f"sample() shape {out.shape} (expected {B + (d,)}), normal draw shape {zshape}")
                                good = False
                                break
                            S[..., :, i] = out - inp["locB"]
                        if not good:
                            continue
                        res.executions += 1
                        noisy, _, ev = noise_explained(dist, inp, ctor, B, d, strict=False)
                        noise_sig = f"null-eigenvalue-noise-above-tol:{ctor_name(ctor, False, False)}"
                        for idx in np.ndindex(B):
                            spP = ref.spectral(inp["P"][ctor][idx])
                            Sb = S[idx]
                            cov = Sb @ Sb.T
                            mx = max(1e-3, float(np.max(np.abs(spP["pinv"]))))
                            e1 = float(np.max(np.abs(cov - spP["pinv"]))) / mx
                            e2 = float(np.max(np.abs(spP["null"].T @ Sb))) / np.sqrt(mx) if spP["null"].size else 0.0
                            worst = max(worst, e1, e2)
                            res.states += 1
                            res.outcome("mvn-sample", ctor, rank_class(spP["rank"], d), "S=0" if not np.any(Sb) else "S!=0")
                            if first:
                                res.note([case, Sb])
                            if noisy[idx]:
                                if not (e1 <= SAMPLE_RTOL and e2 <= SAMPLE_RTOL):
                                    res.outcome("mvn-sample", "null-eigenvalue-noise-above-tol", ctor)
                                    rec.fail("mvn-sample", noise_sig,
                                             {**case, "batch_index": list(idx), "eigenvalues_float32": ev[idx].tolist(), "prec_float32": inp["prec32B"][idx].tolist(),
                                              "call": "dist.sample(seed=key) with the normal draw scripted to e_i", "S_St": np.round(cov, 4).tolist(), "pinv": np.round(spP["pinv"], 6).tolist(),
                                              "null_component_of_S": np.round(spP["null"].T @ Sb, 4).tolist()},
                                             f"[{case['ctor']}] d={d} pen={inp['pen_names']} var={case['var']} batch {list(idx)}: float32 eigenvalues {ev[idx].tolist()} of the numerically singular precision are >= the absolute tolerance 1e-6, so a null direction is inverted instead of zeroed: max|S S^T| = {np.max(np.abs(cov)):.4g} but max|pinv(P)| = {np.max(np.abs(spP['pinv'])):.4g}; N^T S = {np.round(spP['null'].T @ Sb, 3).tolist()}")
                                continue
                            if not e1 <= SAMPLE_RTOL:
                                rec.fail("mvn-sample", f"cov-{tag}", {**case, "batch_index": list(idx)},
                                         f"[{ctor}] sampler map S (from z=e_i) has S S^T = {np.round(cov, 5).tolist()} but pinv(P) = {np.round(spP['pinv'], 5).tolist()} for d={d} pen={inp['pen_names']} var={case['var']} batch {list(idx)}")
                            if not e2 <= SAMPLE_RTOL:
                                rec.fail("mvn-sample", f"range-{tag}", {**case, "batch_index": list(idx)},
                                         f"[{ctor}] samples leave the range space: N^T S = {np.round(spP['null'].T @ Sb, 5).tolist()} for d={d} pen={inp['pen_names']} batch {list(idx)}")
                        # 2. a non-basis z and larger sample shapes: every draw must be
                        #    loc + S z for the z that this sample / batch element was given
                        for sshape in ((), (2,), (2, 2)):
                            n = int(np.prod(sshape)) if sshape else 1
                            full = (n,) + B + (d,)
                            zint = np.zeros(full)
                            cnt = 0
                            for pos in np.ndindex((n,) + B):
                                zint[pos][cnt % d] = 1.0 + (cnt % 3)
                                zint[pos][(cnt // d + 1) % d] -= 0.5
                                cnt += 1
                            ok, r = call(rec, "mvn-sample", tag, case, lambda: draw(dist, sshape, lambda shape: zint.reshape(shape) if int(np.prod(shape)) == zint.size else np.zeros(shape)))
                            res.transitions += 1
                            if not ok:
                                continue
                            out, zshape = r
                            if out.shape != sshape + B + (d,) or tuple(zshape) != full + (1,):
                                rec.fail("mvn-sample", f"shape-{tag}", {**case, "sample_shape": list(sshape)}, f"sample({sshape}) shape {out.shape} (expected {sshape + B + (d,)}), normal draw shape {zshape}")
                                continue
                            out = out.reshape(full)
                            want = inp["locB"][None] + np.einsum("...ij,n...j->n...i", S, zint)
                            sc = 1e-3 + np.max(np.abs(want))
                            res.states += n
                            res.executions += 1
                            res.outcome("mvn-sample-shape", str(sshape), "batched" if B else "unbatched")
                            if not np.max(np.abs(out - want)) <= SAMPLE_RTOL * sc * 4:
                                rec.fail("mvn-sample", f"linear-{tag}", {**case, "sample_shape": list(sshape)},
                                         f"[{ctor}] sample({sshape}) is not loc + S z element by element (max deviation {np.max(np.abs(out - want)):.4g}) for d={d} pen={inp['pen_names']} layout={layout}")
                        # 3. real keys (input labels): samples lie in loc + range(P)
                        if ctor in ("pen", "prectol"):
                            for k in unit["keys"]:
                                ok, x = call(rec, "mvn-sample", tag, case, lambda: np.asarray(dist.sample((3,), seed=jax.random.PRNGKey(k)), dtype=np.float64))
                                res.transitions += 1
                                if not ok:
                                    continue
                                if x.shape != (3,) + B + (d,):
                                    rec.fail("mvn-sample", f"shape-{tag}", {**case, "key": k}, f"sample((3,)) shape {x.shape}")
                                    continue
                                res.executions += 1
                                for idx in np.ndindex(B):
                                    spP = ref.spectral(inp["P"][ctor][idx])
                                    if not spP["null"].size:
                                        continue
                                    xc = x[(slice(None),) + idx] - inp["locB"][idx]
                                    mx = max(1e-3, float(np.max(np.abs(spP["pinv"]))))
                                    e = float(np.max(np.abs(xc @ spP["null"]))) / np.sqrt(mx)
                                    res.outcome("mvn-sample-realkey", rank_class(spP["rank"], d))
                                    if not e <= 20 * SAMPLE_RTOL and noisy[idx]:
                                        rec.fail("mvn-sample", noise_sig, {**case, "key": k, "batch_index": list(idx), "eigenvalues_float32": ev[idx].tolist()},
                                                 f"[{case['ctor']}] sample with PRNGKey({k}) has a null-space component {e:.4g} (float32 eigenvalue noise above tol) for d={d} pen={inp['pen_names']} var={case['var']}")
                                    elif not e <= 20 * SAMPLE_RTOL:
                                        rec.fail("mvn-sample", f"range-realkey-{tag}", {**case, "key": k, "batch_index": list(idx)},
                                                 f"[{ctor}] sample with PRNGKey({k}) has a null-space component {e:.4g} for d={d} pen={inp['pen_names']}")
                        if first:
                            res.sample({**case, "S": np.round(S, 6).tolist()})
                        first = False


def run_mvn_scaled_pen(unit, res):
    """from_penalty / the precision constructor with a SUPPLIED rank on penalties at unusual scales
    (c * K, c from 1e-5 to 1e3): the supplied rank decides which eigenvalues enter the log-pseudo-
    determinant, so the density must agree with the float64 reference at every scale - the absolute
    eigenvalue tolerance (1e-6) plays no role when the rank is given."""
    import jax
    import jax.numpy as jnp

    from liesel.distributions.mvn_degen import MultivariateNormalDegenerate as M

    rec = Recorder(res)
    for d in unit["dims"]:
        pats = [np.zeros(d), np.resize(np.array([-1.0, 0.0, 2.0]), d), np.resize(np.array([0.5, -0.25, 1.5, 0.0, -2.0]), d)]
        loc = np.resize(np.array(LOCVEC), d)
        for penname in ("RW1", "RW2", "ZB2", "SPD"):
            K = ref.penalty(penname, d)
            if K is None:
                continue
            for c in unit["scales"]:
                for v in (0.5, 2.0):
                    pen32 = f32(c * K)
                    P = f64(pen32) / float(np.float32(v))
                    sp = ref.spectral(f64(pen32))
                    rank = sp["rank"]
                    want = np.array([ref.mvn_logpdf(f64(f32(x)), f64(f32(loc)), P) for x in pats])
                    for cn, mk in (
                        ("pen+rank", lambda: M.from_penalty(loc=jnp.asarray(f32(loc)), var=jnp.float32(v), pen=jnp.asarray(pen32), rank=rank)),
                        ("pen+rank+lpdet", lambda: M.from_penalty(loc=jnp.asarray(f32(loc)), var=jnp.float32(v), pen=jnp.asarray(pen32), rank=rank, log_pdet=jnp.float32(sp["log_pdet"]))),
                        ("prec+rank", lambda: M(loc=jnp.asarray(f32(loc)), prec=jnp.asarray(f32(P)), rank=rank)),
                    ):
                        case = {"d": d, "pen": penname, "scale": c, "var": v, "ctor": cn, "rank": rank}
                        for mode in ("eager", "jit"):
                            fn = (lambda x: mk().log_prob(x))
                            if mode == "jit":
                                fn = jax.jit(fn)
                            ok, got = call(rec, "mvn-logprob", f"scaled-pen-{cn}-{mode}", case, lambda: f64(fn(jnp.asarray(f32(np.stack(pats))))))
                            res.transitions += 1
                            res.executions += 1
                            if not ok:
                                continue
                            res.states += len(pats)
                            res.outcome("scaled-pen", cn, penname, c, mode)
                            tol = 4 * MVN_RTOL * (1 + np.abs(want) + rank * abs(np.log(c)))
                            if got.shape != want.shape or not np.all(np.abs(got - want) <= tol):
                                i = int(np.argmax(np.abs(got - want))) if got.shape == want.shape else 0
                                rec.fail("mvn-logprob", f"scaled-penalty-with-given-rank:{cn}", case,
                                         f"[{cn}, {mode}] d={d} pen={c}*{penname} (rank {rank} supplied) var={v}: log_prob {got.tolist()} != reference {want.tolist()} (first difference {got[i] - want[i] if got.shape == want.shape else 'shape'})")
    res.note(["scaled-pen", unit["dims"], unit["scales"]])


def run_unit(unit):
    core.assert_repo()
    res = core.UnitResult(unit)
    kind = unit["kind"]
    if kind == "asig":
        run_asig(unit, res)
    elif kind == "copula":
        run_copula(unit, res)
    elif kind == "mvn":
        run_mvn(unit, res)
    elif kind == "mvn-highdim":
        run_mvn_highdim(unit, res)
    elif kind == "mvn-sample":
        run_mvn_sample(unit, res)
    elif kind == "mvn-scaled-pen":
        run_mvn_scaled_pen(unit, res)
    else:
        raise ValueError(kind)
    return res
