"""
C11 - step-size adaptation follows dual averaging and is frozen outside adaptation.

(1) ``da``   : da_init / da_step / da_finalize on a plain state object; the complete tree
               of acceptance sequences over an alphabet up to a length, x initial step
               sizes x constant sets x argument styles; float64 Stan recurrence as oracle,
               monotonicity between siblings, finalize and restart at every node.
(2) ``life`` : kernel lifecycles driven directly (start_epoch, transitions, end_epoch,
               tune) for RW, MH (tuning on/off), IWLS, HMC, NUTS over epoch schedules; the
               scripted-PRNG seam offers a menu of (Gaussian draw, uniform draw) answers at
               every transition and ALL answer sequences are explored (prefix-sharing DFS on
               the real, jitted kernel methods); one path per unit is re-run eagerly.
(3) ``engine``: real Engine with store_kernel_states: stored kernel states of every
               iteration against the reference driven by the stored acceptance
               probabilities; constant inside burn-in / posterior epochs.
"""

from __future__ import annotations

import itertools
import math

import numpy as np

from mc import core
from mc.ref.c11_da import RefDA

PROPERTY = "C11"
RULE = (
    "da: full tree of acceptance sequences over the alphabet up to the length bound (every prefix "
    "is a case: step, finalize, restart + all continuations up to length 2) x initial step sizes x "
    "constant sets x {python, jnp} argument styles. life: kernel variant x epoch schedule; every "
    "sequence of environment answers (menu of scripted (z,u) pairs per transition) through the "
    "whole schedule, executed on the real jitted start_epoch/transition/end_epoch/tune; oracle at "
    "every transition. engine: kernels x schedules x seeds (input labels) x 2 chains, every stored "
    "iteration. Distinct outcome = (kernel, epoch type, alpha class, step went up/down/frozen)."
)
ASSUMPTIONS = [
    "acceptance alphabet within [0,1] (Stan clamps at 1; liesel does not - outside the property's domain)",
    "reference = Hoffman-Gelman / Stan recurrence in float64 (s_bar form); liesel stores the error sum instead of s_bar and initialises the running average with log(step) instead of 0 - equivalent because the first weight is 1; compared at rel 1e-5 (step) / abs 2e-5 (log scale)",
    "da_finalize directly after da_init (no step in between) is required to leave the step size unchanged (liesel's reading of 'restart from the current step size'; cannot occur in an engine run since epochs have duration >= 1)",
    "lifecycle order as in Engine: start_epoch, transitions, end_epoch, then tune (adaptation epochs only); HMC/NUTS slow-epoch tune gets a fixed synthetic history (mass-matrix alignment is C12's subject)",
    "HMC/NUTS acceptance comes from blackjax (trusted); only its use as the dual-averaging input is checked",
    "exp(log(step)) rounding at non-adaptation epoch boundaries is an epoch-boundary effect (rel 1e-6), not a change between transitions",
]

ALPHA = {"quick": [0.0, 0.234, 0.5, 0.8, 1.0], "thorough": [0.0, 0.1, 0.234, 0.5, 0.651, 0.8, 1.0]}
DEPTH = {"quick": 5, "thorough": 5}
INIT_STEPS = [0.01, 1.0, 7.5]
CONSTS = [
    # target, gamma, kappa, t0
    [0.8, 0.05, 0.75, 10],
    [0.234, 0.05, 0.75, 10],
    [0.65, 0.1, 0.6, 3],
]
U_HI = 1.0 - 2.0**-24

F, S, B, P = 1, 2, 3, 4  # epoch types
SCHEDULES = {
    "quick": [
        [[F, 4]],
        [[S, 2], [F, 3]],
        [[F, 2], [B, 2], [P, 1]],
        [[B, 2], [P, 2]],
        [[S, 1], [F, 2], [P, 2]],
        [[F, 1], [F, 1], [B, 1], [P, 1]],
    ],
    "thorough": [
        [[F, 6]],
        [[S, 3], [F, 3]],
        [[F, 2], [S, 2], [F, 2]],
        [[F, 2], [B, 2], [P, 2]],
        [[B, 3], [P, 3]],
        [[S, 1], [F, 1], [S, 1], [B, 1], [P, 2]],
        [[F, 1], [F, 1], [F, 1], [P, 3]],
        [[S, 4], [P, 2]],
        [[F, 2], [S, 4]],
    ],
}
# scripted answers per transition: (z, u); z has the block dimension 2
MENU = {
    "quick": [[[0.0, 0.0], 0.5], [[1.5, -1.0], 0.0], [[1.5, -1.0], U_HI], [[6.0, 6.0], 0.5], [[-0.4, 0.7], 0.3]],
    "thorough": [[[0.0, 0.0], 0.5], [[1.5, -1.0], 0.0], [[1.5, -1.0], U_HI], [[6.0, 6.0], 0.5], [[-0.4, 0.7], 0.3]],
}
KERNELS = ["rw", "rw-custom", "mh-on", "mh-off", "iwls", "hmc", "nuts"]
CUSTOM = dict(da_target_accept=0.4, da_gamma=0.1, da_kappa=0.6, da_t0=5)


def bounds(tier):
    return {
        "da_alphabet": ALPHA[tier],
        "da_depth": DEPTH[tier],
        "da_initial_steps": INIT_STEPS,
        "da_constants": CONSTS,
        "life_kernels": KERNELS,
        "life_schedules": SCHEDULES[tier],
        "life_menu": MENU[tier],
        "engine": ENGINE_CASES[tier],
    }


ENGINE_CASES = {
    "quick": [
        {"kernels": ["rw", "iwls"], "schedule": [[F, 3], [S, 3], [F, 2], [B, 2], [P, 3]]},
        {"kernels": ["nuts"], "schedule": [[F, 3], [S, 4], [B, 2], [P, 3]]},
        {"kernels": ["hmc", "mh-on"], "schedule": [[S, 4], [F, 2], [P, 2], [P, 2]]},
    ],
    "thorough": [
        {"kernels": ["rw", "iwls"], "schedule": [[F, 5], [S, 6], [F, 4], [B, 3], [P, 5]]},
        {"kernels": ["nuts"], "schedule": [[F, 5], [S, 8], [S, 8], [F, 4], [B, 3], [P, 4]]},
        {"kernels": ["hmc", "mh-on"], "schedule": [[S, 8], [F, 4], [B, 2], [P, 3], [P, 3]]},
        {"kernels": ["mh-off", "rw-custom"], "schedule": [[F, 4], [S, 4], [P, 4]]},
        {"kernels": ["nuts", "rw"], "schedule": [[F, 3], [B, 2], [F, 3], [P, 3]]},
    ],
}


def units(tier, seed):
    out = []
    for ic, c in enumerate(CONSTS):
        for style in ["jnp", "py"]:
            if tier == "quick":
                out.append({"kind": "da", "tier": tier, "consts": c, "style": style, "steps": INIT_STEPS})
            else:
                for e0 in INIT_STEPS:
                    out.append({"kind": "da", "tier": tier, "consts": c, "style": style, "steps": [e0]})
    i = 0
    for kern in KERNELS:
        for sched in SCHEDULES[tier]:
            i += 1
            out.append({"kind": "life", "tier": tier, "kernel": kern, "schedule": sched, "key": 100 * seed + i})
    for j, case in enumerate(ENGINE_CASES[tier]):
        for sd in range(2 if tier == "quick" else 4):
            out.append({"kind": "engine", "tier": tier, "engine_seed": 1000 * seed + 10 * j + sd, **case})
    return out


def run_unit(unit):
    core.assert_repo()
    return {"da": run_da, "life": run_life, "engine": run_engine}[unit["kind"]](unit)


class Worst:
    def __init__(self, res, tag):
        self.res, self.tag, self.seen = res, tag, {}

    def fail(self, check, sub, case, message):
        sig = f"{self.tag}:{sub}" if sub else self.tag
        n = self.seen.get((check, sig), 0)
        self.seen[(check, sig)] = n + 1
        if n == 0:
            self.res.violation(check, sig, case, message)


def close(a, b, rel=1e-5, abs_=0.0):
    a, b = float(a), float(b)
    if math.isnan(a) or math.isnan(b):
        return False
    if math.isinf(a) or math.isinf(b):
        return a == b
    return abs(a - b) <= abs_ + rel * max(abs(a), abs(b))


# ---------------------------------------------------------------------------------
# (1) da_* on a plain object
# ---------------------------------------------------------------------------------


class Plain:
    """a plain state object satisfying the DAKernelState protocol"""

    def __init__(self, step_size):
        self.step_size = step_size
        self.error_sum = None
        self.log_avg_step_size = None
        self.mu = None

    def clone(self):
        c = Plain(self.step_size)
        c.error_sum, c.log_avg_step_size, c.mu = self.error_sum, self.log_avg_step_size, self.mu
        return c

    def tup(self):
        return (float(self.step_size), float(self.error_sum), float(self.log_avg_step_size), float(self.mu))


def cmp_da(W, check, sub, case, ks, ref: RefDA, what=("step", "avg", "err", "mu")):
    ok = True
    if "step" in what and not close(ks.step_size, ref.eps, rel=1e-5):
        W.fail(check, sub, case, f"step size {float(ks.step_size)!r} != reference {ref.eps!r}")
        ok = False
    if "avg" in what and ref.counter and not close(ks.log_avg_step_size, ref.x_bar, rel=1e-5, abs_=2e-5):
        W.fail(check, sub + "-logavg", case, f"log averaged step size {float(ks.log_avg_step_size)!r} != reference {ref.x_bar!r}")
        ok = False
    if "err" in what and not close(ks.error_sum, ref.error_sum, rel=1e-5, abs_=1e-5):
        W.fail(check, sub + "-errsum", case, f"error sum {float(ks.error_sum)!r} != reference {ref.error_sum!r}")
        ok = False
    if "mu" in what and not close(ks.mu, ref.mu, rel=1e-6, abs_=1e-6):
        W.fail(check, sub + "-mu", case, f"mu {float(ks.mu)!r} != log(10 * step at restart) = {ref.mu!r}")
        ok = False
    return ok


def run_da(unit):
    import jax.numpy as jnp

    from liesel.goose.da import da_finalize, da_init, da_step

    tier = unit["tier"]
    res = core.UnitResult(unit)
    target, gamma, kappa, t0 = unit["consts"]
    style = unit["style"]
    W = Worst(res, f"da/{style}/c{target}-{gamma}-{kappa}-{t0}")
    alpha = ALPHA[tier]
    depth = DEPTH[tier]

    def arg_a(a):
        return jnp.asarray(a, dtype=jnp.float32) if style == "jnp" else float(a)

    def arg_t(t):
        return jnp.asarray(t, dtype=jnp.int32) if style == "jnp" else int(t)

    class Crashed(Exception):
        pass

    def step(ks, a, t):
        k2 = ks.clone()
        try:
            r = da_step(k2, arg_a(a), arg_t(t), target, gamma, kappa, t0)
        except Exception as e:  # the implementation failed on a valid input: a finding, not a harness error
            W.fail("da-step", "raises", {"state": list(ks.tup()), "a": a, "time_in_epoch": t, "consts": unit["consts"], "style": style},
                   f"da_step raised {type(e).__name__}: {e}")
            raise Crashed()
        if r is not None:
            raise RuntimeError("da_step returned something")
        res.transitions += 1
        return k2

    def check_restart(ks, ref, seq, e0):
        """finalize + init at this node, then all continuations up to length 2"""
        k2 = ks.clone()
        da_finalize(k2)
        r2 = ref.copy().complete() if ref.counter else ref.copy()
        case = {"init_step": e0, "seq": list(seq), "consts": unit["consts"]}
        res.transitions += 1
        if not close(k2.step_size, r2.eps, rel=1e-5):
            W.fail("da-finalize", "", case, f"step after finalize {float(k2.step_size)!r} != exp(log-average) = {r2.eps!r}")
        if (float(k2.error_sum), float(k2.log_avg_step_size), float(k2.mu)) != (float(ks.error_sum), float(ks.log_avg_step_size), float(ks.mu)):
            W.fail("da-finalize", "touches-other-fields", case, "da_finalize changed more than the step size")
        if len(seq) > 2:
            return
        cur = float(k2.step_size)
        da_init(k2)
        res.transitions += 1
        r3 = RefDA(target, gamma, kappa, t0).restart(cur)
        if float(k2.step_size) != cur:
            W.fail("da-restart", "step-changed", case, f"da_init changed the step size {cur!r} -> {float(k2.step_size)!r}")
        if float(k2.error_sum) != 0.0:
            W.fail("da-restart", "errsum", case, f"error sum after da_init is {float(k2.error_sum)!r}")
        cmp_da(W, "da-restart", "init", case, k2, r3, what=("mu",))
        if not close(k2.log_avg_step_size, math.log(cur), rel=1e-6, abs_=1e-6):
            W.fail("da-restart", "logavg", case, "log average after da_init is not log(step)")
        # finalize straight after init leaves the step size alone
        k4 = k2.clone()
        da_finalize(k4)
        if not close(k4.step_size, cur, rel=1e-6):
            W.fail("da-restart", "finalize-after-init", case, f"init+finalize changed the step size {cur!r} -> {float(k4.step_size)!r}")
        for n in (1, 2):
            for cont in itertools.product(alpha, repeat=n):
                kk, rr = k2, r3.copy()
                for t, a in enumerate(cont):
                    kk = step(kk, a, t)
                    rr.learn(a)
                res.executions += 1
                cmp_da(W, "da-restart", "continuation", {**case, "second_epoch": list(cont)}, kk, rr)

    def rec(ks, ref, seq, e0):
        res.states += 1
        check_restart(ks, ref, seq, e0)
        if len(seq) == depth:
            res.executions += 1
            return
        kids = []
        for a in alpha:
            k2 = step(ks, a, len(seq))
            r2 = ref.copy().learn(a)
            case = {"init_step": e0, "seq": list(seq) + [a], "consts": unit["consts"], "style": style}
            cmp_da(W, "da-step", "recurrence", case, k2, r2)
            if float(k2.mu) != float(ks.mu):
                W.fail("da-step", "mu-changed", case, "da_step changed mu")
            kids.append((a, k2, r2))
            up = float(k2.step_size) > float(ks.step_size)
            res.outcome("da", "a>target" if a > target else "a<=target", "up" if up else "down")
        # monotonicity between siblings: higher acceptance never gives a smaller next step
        for (a, k2, _), (b, k3, _) in zip(kids, kids[1:]):
            if float(k3.step_size) < float(k2.step_size):
                W.fail("da-monotone", "", {"init_step": e0, "prefix": list(seq), "a": a, "a_higher": b},
                       f"acceptance {b} > {a} but next step {float(k3.step_size)!r} < {float(k2.step_size)!r}")
        for a, k2, r2 in kids:
            rec(k2, r2, seq + [a], e0)

    for e0 in unit["steps"]:
        ks = Plain(jnp.asarray(e0, dtype=jnp.float32) if style == "jnp" else float(e0))
        if da_init(ks) is not None:
            raise RuntimeError("da_init returned something")
        ref = RefDA(target, gamma, kappa, t0).restart(float(ks.step_size))
        try:
            rec(ks, ref, [], float(ks.step_size))
        except Crashed:
            res.outcome("da", "crashed")
        res.note(ks.tup())
    res.sample({"unit": W.tag, "nodes": res.states, "da_calls": res.transitions})
    return res


# ---------------------------------------------------------------------------------
# (2) kernel lifecycles
# ---------------------------------------------------------------------------------

PREC = [[2.0, 0.6], [0.6, 1.0]]
X0 = [0.8, -0.5]
HIST = [[0.1, -0.4], [1.3, 0.2], [-0.6, 0.9], [0.4, 0.5]]  # synthetic history for slow-epoch tune


def make_model():
    import jax.numpy as jnp

    import liesel.goose as gs

    Pm = jnp.asarray(PREC, dtype=jnp.float32)
    return gs.DictInterface(lambda s: -0.5 * jnp.dot(s["x"], Pm @ s["x"]) - 0.1 * jnp.sum(s["x"] ** 4))


def make_kernel(name, model=None, keys=("x",)):
    """returns (kernel, constants (target, gamma, kappa, t0) or None if it never adapts)"""
    import jax
    import jax.numpy as jnp
    from jax.flatten_util import ravel_pytree

    import liesel.goose as gs

    keys = list(keys)

    def proposal_fn(key, model_state, step_size):
        pos = {k: model_state[k] for k in keys}
        flat, unravel = ravel_pytree(pos)
        z = jax.random.normal(key, flat.shape)
        return gs.MHProposal(unravel(flat + step_size * z), jnp.asarray(0.0))

    if name == "rw":
        return gs.RWKernel(keys), (0.234, 0.05, 0.75, 10)
    if name == "rw-custom":
        return gs.RWKernel(keys, initial_step_size=0.3, **CUSTOM), (0.4, 0.1, 0.6, 5)
    if name == "mh-on":
        return gs.MHKernel(keys, proposal_fn, initial_step_size=0.5, da_tune_step_size=True, **CUSTOM), (0.4, 0.1, 0.6, 5)
    if name == "mh-off":
        return gs.MHKernel(keys, proposal_fn, initial_step_size=0.5, da_tune_step_size=False), None
    if name == "iwls":
        return gs.IWLSKernel(keys, initial_step_size=0.7), (0.8, 0.05, 0.75, 10)
    if name == "hmc":
        return gs.HMCKernel(keys, initial_step_size=0.9, num_integration_steps=3, da_target_accept=0.7, da_t0=8), (0.7, 0.05, 0.75, 8)
    if name == "nuts":
        return gs.NUTSKernel(keys, initial_step_size=0.9, max_treedepth=3), (0.8, 0.05, 0.75, 10)
    raise ValueError(name)


DA_FIELDS = ("step_size", "error_sum", "log_avg_step_size", "mu")


def leaves_of(ks):
    import jax

    return [np.asarray(v) for v in jax.tree_util.tree_leaves(ks)]


def same_bits(a, b):
    la, lb = leaves_of(a), leaves_of(b)
    if len(la) != len(lb):
        return False
    return all(x.dtype == y.dtype and x.shape == y.shape and x.tobytes() == y.tobytes() for x, y in zip(la, lb))


def alpha_class(a):
    if a >= 1.0:
        return "a=1"
    if a <= 1e-6:
        return "a~0"
    return "0<a<1"


class Life:
    """jitted lifecycle methods of one real kernel; the seam hands over traced (z, u)"""

    def __init__(self, name, key):
        import jax
        import jax.numpy as jnp

        from liesel.goose.epoch import EpochConfig, EpochState
        from mc.seams import ScriptedPRNG

        self.name = name
        self.model = make_model()
        self.kernel, self.consts = make_kernel(name)
        self.kernel.set_model(self.model)
        self.key = jax.random.PRNGKey(key)
        kernel = self.kernel

        def epoch_state(etype, dur, nth, tbefore, tin):
            return EpochState(EpochConfig(etype, dur, 1, None), nth, tbefore + tin, tbefore, tin)

        self.epoch_state = epoch_state

        def script_for(z, u):
            def script(fn, i, shape, info):
                if fn == "normal":
                    if tuple(shape) != (2,):
                        raise RuntimeError(f"unexpected normal draw {shape}")
                    return z
                if fn in ("uniform", "bernoulli"):
                    return u
                raise RuntimeError(f"unexpected draw {fn}")

            return script

        def trans(k, ks, ms, z, u, ep):
            with ScriptedPRNG(script_for(z, u)) as sp:
                out = kernel.transition(k, ks, ms, ep)
            if not sp.log:
                raise RuntimeError("seam saw no draw")
            return out.kernel_state, out.model_state, out.info.acceptance_prob, out.info.error_code

        self._trans_raw = trans
        self.trans = jax.jit(trans)
        self.start = jax.jit(lambda k, ks, ms, ep: kernel.start_epoch(k, ks, ms, ep))
        self.end = jax.jit(lambda k, ks, ms, ep: kernel.end_epoch(k, ks, ms, ep))
        self.tune = jax.jit(lambda k, ks, ms, ep, hist: kernel.tune(k, ks, ms, ep, hist).kernel_state)
        self.tune_nohist = jax.jit(lambda k, ks, ms, ep: kernel.tune(k, ks, ms, ep, None).kernel_state)
        self.ms0 = {"x": jnp.asarray(X0, dtype=jnp.float32)}
        self.hist = {"x": jnp.asarray(HIST, dtype=jnp.float32)}

    def init(self):
        import jax

        ks = self.kernel.init_state(self.key, self.ms0)
        # normalise python floats to arrays once (as the engine does via vmap/jit)
        return jax.jit(lambda s: s)(ks)

    def do_tune(self, ks, ms, ep, etype):
        if getattr(self.kernel, "needs_history", False) and etype == S:
            return self.tune(self.key, ks, ms, ep, self.hist)
        return self.tune_nohist(self.key, ks, ms, ep)


def run_life(unit):
    import jax
    import jax.numpy as jnp

    tier = unit["tier"]
    res = core.UnitResult(unit)
    name = unit["kernel"]
    sched = unit["schedule"]
    W = Worst(res, f"life/{name}")
    L = Life(name, unit["key"])
    menu = [(jnp.asarray(z, dtype=jnp.float32), jnp.asarray(u, dtype=jnp.float32)) for z, u in MENU[tier]]
    consts = L.consts
    sched_s = "".join("_FSBP"[t] + str(d) for t, d in sched)
    starts = [sum(d for _, d in sched[:i]) + 1 for i in range(len(sched))]  # time before epoch (initial epoch = 1)

    def fld(ks, f):
        return float(np.asarray(getattr(ks, f)))

    def begin_epoch(ks, ms, ie, path):
        etype, dur = sched[ie]
        ep = L.epoch_state(etype, dur, ie + 1, starts[ie], 0)
        cur = fld(ks, "step_size")
        ks2 = L.start(L.key, ks, ms, ep)
        res.transitions += 1
        case = {"kernel": name, "schedule": sched, "epoch": ie, "answers": list(path)}
        # restart from the current step size
        if fld(ks2, "step_size") != cur:
            W.fail("restart", "step-changed", case, f"start_epoch changed the step size {cur!r} -> {fld(ks2, 'step_size')!r}")
        ref = None
        if consts is not None:
            ref = RefDA(*consts).restart(cur)
            if fld(ks2, "error_sum") != 0.0:
                W.fail("restart", "errsum", case, f"error sum after start_epoch = {fld(ks2, 'error_sum')!r}")
            cmp_da(W, "restart", "mu", case, ks2, ref, what=("mu",))
        return ks2, ref

    def finish_epoch(ks, ms, ref, ie, path):
        etype, dur = sched[ie]
        ep = L.epoch_state(etype, dur, ie + 1, starts[ie], dur)
        case = {"kernel": name, "schedule": sched, "epoch": ie, "answers": list(path)}
        ks2 = L.end(L.key, ks, ms, ep)
        res.transitions += 1
        adapt = etype in (F, S)
        if adapt and ref is not None:
            want = ref.copy().complete().eps
            if not close(fld(ks2, "step_size"), want, rel=1e-5):
                W.fail("end-epoch", "_FSBP"[etype], case, f"step after end_epoch {fld(ks2, 'step_size')!r} != exp(log-average) {want!r}")
            res.outcome("end", name, "_FSBP"[etype], "finalized")
        else:
            # nothing was learned in this epoch: the step size stays (up to exp(log(.)) rounding)
            if not close(fld(ks2, "step_size"), fld(ks, "step_size"), rel=1e-6):
                W.fail("end-epoch", "non-adaptation-" + "_FSBP"[etype], case, f"step size changed at the end of a non-adapting epoch {fld(ks, 'step_size')!r} -> {fld(ks2, 'step_size')!r}")
            res.outcome("end", name, "_FSBP"[etype], "kept")
        if adapt:
            ks2 = L.do_tune(ks2, ms, ep, etype)
            res.transitions += 1
        return ks2

    def rec(ks, ms, ref, ie, t, path):
        """state after start_epoch of epoch ie and t transitions in it"""
        etype, dur = sched[ie]
        if t == dur:
            ks = finish_epoch(ks, ms, ref, ie, path)
            if ie + 1 == len(sched):
                res.executions += 1
                return
            ks, ref = begin_epoch(ks, ms, ie + 1, path)
            return rec(ks, ms, ref, ie + 1, 0, path)
        res.states += 1
        ep = L.epoch_state(etype, dur, ie + 1, starts[ie], t)
        adapt = etype in (F, S)
        kids = []
        for ia, (z, u) in enumerate(menu):
            ks2, ms2, a, err = L.trans(L.key, ks, ms, z, u, ep)
            res.transitions += 1
            a = float(a)
            case = {"kernel": name, "schedule": sched, "epoch": ie, "t": t, "answers": list(path) + [ia]}
            if math.isnan(a):
                raise RuntimeError(f"NaN acceptance probability in {case}")
            r2 = None
            if adapt and ref is not None:
                r2 = ref.copy().learn(a)
                cmp_da(W, "adapt-step", "_FSBP"[etype], case, ks2, r2)
                lv = leaves_of(ks2)
                if hasattr(ks2, "inverse_mass_matrix") and not np.array_equal(np.asarray(ks2.inverse_mass_matrix), np.asarray(ks.inverse_mass_matrix)):
                    W.fail("adapt-step", "mass-matrix-changed", case, "a transition changed the inverse mass matrix")
                up = fld(ks2, "step_size") > fld(ks, "step_size")
                res.outcome("life", name, "_FSBP"[etype], alpha_class(a), "up" if up else "down")
            else:
                # burn-in / posterior (or a kernel that does not tune): bit-identical state
                if not same_bits(ks, ks2):
                    d = {f: (fld(ks, f), fld(ks2, f)) for f in DA_FIELDS if fld(ks, f) != fld(ks2, f)}
                    sub = "_FSBP"[etype] if not adapt else "tuning-off-" + "_FSBP"[etype]
                    W.fail("frozen", sub, case, f"kernel state changed between transitions: {d}")
                res.outcome("life", name, "_FSBP"[etype], alpha_class(a), "frozen")
            kids.append((a, ks2, ms2, r2, ia))
        if adapt and ref is not None:
            srt = sorted(kids, key=lambda k_: k_[0])
            for (a, k2, *_), (b, k3, *_) in zip(srt, srt[1:]):
                if b > a and fld(k3, "step_size") < fld(k2, "step_size") * (1 - 1e-6):
                    W.fail("monotone", "_FSBP"[etype], {"kernel": name, "schedule": sched, "epoch": ie, "t": t, "answers": list(path), "a": a, "a_higher": b},
                           f"acceptance {b} > {a} but next step {fld(k3, 'step_size')!r} < {fld(k2, 'step_size')!r}")
        for a, ks2, ms2, r2, ia in kids:
            rec(ks2, ms2, r2 if r2 is not None else ref, ie, t + 1, path + [ia])

    ks = L.init()
    ks, ref = begin_epoch(ks, L.ms0, 0, [])
    rec(ks, L.ms0, ref, 0, 0, [])
    res.note([name, sched_s, res.states, sorted(res.outcomes)])

    # one path eagerly (real branch selection of TransitionMixin, in-place da_* calls)
    n_eager = sum(d for _, d in sched)
    if name in ("hmc", "nuts") and (tier == "quick" and unit["schedule"] != SCHEDULES[tier][2]):
        n_eager = 0
    if n_eager:
        eager_path(L, unit, res, W)
    res.sample({"unit": f"life/{name}/{sched_s}", "nodes": res.states, "calls": res.transitions, "traces": res.executions})
    return res


def eager_path(L, unit, res, W):
    """answers 1,2,0,3,1,... through the schedule, eager, compared with the jitted run"""
    import copy

    import jax
    import jax.numpy as jnp

    from mc.seams import ScriptedPRNG

    sched = unit["schedule"]
    name = unit["kernel"]
    menu = MENU[unit["tier"]]
    starts = [sum(d for _, d in sched[:i]) + 1 for i in range(len(sched))]
    order = [1, 2, 0, 3, 1, 0, 2, 3]

    def snap(ks):
        return [np.array(v) for v in jax.tree_util.tree_leaves(ks)]

    ks_j = L.init()
    ms_j = L.ms0
    with jax.disable_jit():
        ks_e = L.kernel.init_state(L.key, L.ms0)
        ms_e = L.ms0
        n = 0
        for ie, (etype, dur) in enumerate(sched):
            ep = L.epoch_state(etype, dur, ie + 1, starts[ie], 0)
            ks_e = L.kernel.start_epoch(L.key, ks_e, ms_e, ep)
            ks_j = L.start(L.key, ks_j, ms_j, ep)
            for t in range(dur):
                ep = L.epoch_state(etype, dur, ie + 1, starts[ie], t)
                z, u = menu[order[n % len(order)] % len(menu)]
                n += 1
                z, u = jnp.asarray(z, dtype=jnp.float32), jnp.asarray(u, dtype=jnp.float32)
                before = snap(ks_e)
                try:
                    with ScriptedPRNG(lambda fn, i, shape, info: z if fn == "normal" else u) as sp:
                        out = L.kernel.transition(L.key, ks_e, ms_e, ep)
                except Exception as e:
                    from mc import core as _core

                    if not _core.raised_in_repo(e, transparent=("<lambda>",)):
                        raise
                    W.fail("eager", "transition-raises", {"kernel": name, "schedule": sched, "epoch": ie, "t": t, "mode": "eager"}, f"kernel.transition raised {type(e).__name__}: {e} in an eager transition (epoch type {etype}, t={t})")
                    return
                if not sp.log:
                    raise RuntimeError("seam saw no draw (eager)")
                res.transitions += 1
                ks_j, ms_j, a_j, _ = L.trans(L.key, ks_j, ms_j, z, u, ep)
                case = {"kernel": name, "schedule": sched, "epoch": ie, "t": t, "mode": "eager"}
                after = snap(out.kernel_state)
                if etype in (B, P):
                    if len(before) != len(after) or any(x.tobytes() != y.tobytes() for x, y in zip(before, after)):
                        W.fail("frozen", "eager-" + "_FSBP"[etype], case, "kernel state changed between transitions (eager mode)")
                if not close(out.info.acceptance_prob, a_j, rel=1e-4, abs_=2e-5):
                    W.fail("eager-vs-jit", "alpha", case, f"eager alpha {float(out.info.acceptance_prob)} vs jit {float(a_j)}")
                for f in DA_FIELDS:
                    if not close(getattr(out.kernel_state, f), getattr(ks_j, f), rel=2e-4, abs_=2e-5):
                        W.fail("eager-vs-jit", f, case, f"{f}: eager {float(getattr(out.kernel_state, f))!r} vs jit {float(np.asarray(getattr(ks_j, f)))!r}")
                ks_e, ms_e = out.kernel_state, out.model_state
                # keep both runs on the same trajectory
                ms_j = ms_e
                res.outcome("eager", name, "_FSBP"[etype])
            ep = L.epoch_state(etype, dur, ie + 1, starts[ie], dur)
            ks_e = L.kernel.end_epoch(L.key, ks_e, ms_e, ep)
            ks_j = L.end(L.key, ks_j, ms_j, ep)
            if not close(ks_e.step_size, ks_j.step_size, rel=2e-4):
                W.fail("eager-vs-jit", "end-epoch", {"kernel": name, "schedule": sched, "epoch": ie}, "step size after end_epoch differs between eager and jit")
            if etype in (F, S):
                hist = L.hist if (getattr(L.kernel, "needs_history", False) and etype == S) else None
                ks_e = L.kernel.tune(L.key, ks_e, ms_e, ep, hist).kernel_state
                ks_j = L.do_tune(ks_j, ms_j, ep, etype)
    res.executions += 1


# ---------------------------------------------------------------------------------
# (3) engine with stored kernel states
# ---------------------------------------------------------------------------------


def run_engine(unit):
    import jax.numpy as jnp

    import liesel.goose as gs
    from liesel.goose.epoch import EpochConfig, EpochType
    from mc.seams import quiet

    res = core.UnitResult(unit)
    names = unit["kernels"]
    sched = unit["schedule"]
    W = Worst(res, "engine/" + "+".join(names))
    Pm = jnp.asarray(PREC, dtype=jnp.float32)
    keys = ["x", "w"][: len(names)]

    def log_prob(s):
        lp = 0.0
        for k in keys:
            lp = lp - 0.5 * jnp.dot(s[k], Pm @ s[k]) - 0.1 * jnp.sum(s[k] ** 4)
        return lp

    model = gs.DictInterface(log_prob)
    nchains = 2
    b = gs.EngineBuilder(seed=int(unit["engine_seed"]), num_chains=nchains)
    consts = []
    for nm, k in zip(names, keys):
        kern, c = make_kernel(nm, keys=(k,))
        consts.append(c)
        b.add_kernel(kern)
    b.set_model(model)
    b.set_initial_values({k: jnp.asarray(X0, dtype=jnp.float32) * (1 + i) for i, k in enumerate(keys)})
    b.set_epochs([EpochConfig(EpochType.INITIAL_VALUES, 1, 1, None)] + [EpochConfig(EpochType(t), d, 1, None) for t, d in sched])
    b.store_kernel_states = True
    b.show_progress = False
    with quiet():
        eng = b.build()
        eng.sample_all_epochs()
    r = eng.get_results()
    ksm = r.kernel_states.unwrap()
    tim = r.transition_infos
    res.executions += nchains
    for ie, (etype, dur) in enumerate(sched):
        kss = ksm.combine([ie + 1]).unwrap()  # list per kernel, arrays [chain, time]
        tis = tim.combine([ie + 1]).unwrap()
        prev = ksm.combine([ie]).unwrap()
        for ik, nm in enumerate(names):
            ks = kss[ik]
            ti = tis[f"kernel_{ik:02d}"]
            acc = np.asarray(ti.acceptance_prob, dtype=np.float64)
            fl = {f: np.asarray(getattr(ks, f), dtype=np.float64) for f in DA_FIELDS}
            if fl["step_size"].shape != (nchains, dur) or acc.shape != (nchains, dur):
                raise RuntimeError(f"unexpected stored shapes {fl['step_size'].shape} {acc.shape}")
            for c in range(nchains):
                case = {"kernels": names, "schedule": sched, "engine_seed": unit["engine_seed"], "epoch": ie, "kernel": nm, "chain": c}
                adapt = etype in (F, S) and consts[ik] is not None
                res.transitions += dur
                res.states += dur
                step_before = float(np.asarray(prev[ik].step_size)[c, -1])
                if adapt:
                    # restart from the step size the kernel had when the epoch began: mu = log(10 step)
                    step0 = math.exp(fl["mu"][c, 0]) / 10.0
                    ref = RefDA(*consts[ik]).restart(step0)
                    for t in range(dur):
                        ref.learn(acc[c, t])
                        ksv = _View({f: fl[f][c, t] for f in DA_FIELDS})
                        if not cmp_da(W, "engine-adapt", nm + "-" + "_FSBP"[etype], {**case, "t": t, "acc": acc[c, : t + 1].tolist()}, ksv, ref):
                            break
                        res.outcome("engine", nm, "_FSBP"[etype], alpha_class(acc[c, t]), "up" if (t and fl["step_size"][c, t] > fl["step_size"][c, t - 1]) else "down-or-first")
                    # the epoch restarts from the current step size unless a slow-epoch tune rescaled it
                    prev_type = sched[ie - 1][0] if ie else 0
                    rescaled = prev_type == S and nm in ("hmc", "nuts")
                    if ie and prev_type in (F, S) and not rescaled:
                        want = math.exp(float(np.asarray(prev[ik].log_avg_step_size)[c, -1]))
                        if not close(step0, want, rel=2e-5):
                            W.fail("engine-finalize", nm, case, f"epoch restarted from step {step0!r}, but the previous epoch's averaged step is {want!r}")
                    elif ie == 0 or prev_type in (B, P):
                        if not close(step0, step_before, rel=2e-5):
                            W.fail("engine-restart", nm, case, f"epoch restarted from {step0!r} but the current step was {step_before!r}")
                else:
                    for f in DA_FIELDS + (("inverse_mass_matrix",) if hasattr(ks, "inverse_mass_matrix") else ()):
                        v = np.asarray(getattr(ks, f))[c]
                        if not all(v[t].tobytes() == v[0].tobytes() for t in range(dur)):
                            W.fail("engine-frozen", nm + "-" + "_FSBP"[etype] + "-" + f, case, f"{f} changes inside a non-adapting epoch: {np.asarray(v, dtype=np.float64).tolist()}")
                    res.outcome("engine", nm, "_FSBP"[etype], "frozen")
                    # and the step size is the averaged one of the last adaptation epoch
                    prev_type = sched[ie - 1][0] if ie else 0
                    if prev_type in (F, S) and consts[ik] is not None and not (prev_type == S and nm in ("hmc", "nuts")):
                        want = math.exp(float(np.asarray(prev[ik].log_avg_step_size)[c, -1]))
                        if not close(fl["step_size"][c, 0], want, rel=2e-5):
                            W.fail("engine-finalize", nm, case, f"step size in {'_FSBP'[etype]} is {fl['step_size'][c, 0]!r}, the averaged step of the last adaptation epoch is {want!r}")
                    elif prev_type in (B, P) or consts[ik] is None:
                        if not close(fl["step_size"][c, 0], step_before, rel=1e-6):
                            W.fail("engine-frozen", nm + "-boundary", case, f"step size changed across a non-adaptation boundary {step_before!r} -> {fl['step_size'][c, 0]!r}")
    res.note([names, sched, np.asarray(ksm.combine_all().unwrap()[0].step_size, dtype=np.float64).round(6).tolist()])
    res.sample({"unit": W.tag, "schedule": sched, "seed": unit["engine_seed"]})
    return res


class _View:
    def __init__(self, d):
        self.__dict__.update(d)
